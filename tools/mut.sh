#!/bin/sh
# Sensitivity helper: run checks against a mutated scratch copy of quinn (never touches /repo or /verif).
#   tools/mut.sh setup                 create /var/tmp/qv-mut/{repo,harness,out}
#   tools/mut.sh run <patch> <check>.. apply patch to the scratch repo, rebuild, run the checks (quick tier)
#   tools/mut.sh clean                 remove everything
set -e
M=/var/tmp/qv-mut
case "$1" in
  setup)
    rm -rf $M/harness $M/out; git -C /repo worktree remove --force $M/repo 2>/dev/null || true
    mkdir -p $M/out
    git -C /repo worktree add --detach $M/repo HEAD >/dev/null
    ;;
  run)
    patch=$2; shift 2
    git -C $M/repo checkout -q -- . && git -C $M/repo clean -fdq
    git -C $M/repo checkout -q --detach "$(git -C /repo rev-parse HEAD)"
    if [ "$patch" != "none" ]; then git -C $M/repo apply "$patch"; fi
    mkdir -p $M/harness
    rsync -a --exclude target /verif/harness/ $M/harness/
    sed -i "s#/repo/#$M/repo/#g" $M/harness/Cargo.toml
    cp /verif/known_findings.json $M/out/
    (cd $M/harness && CARGO_NET_OFFLINE=true cargo build --release --offline 2>&1 | grep -E "^error" -A8 | head -30)
    for c in "$@"; do
      QV_ROOT=$M/out $M/harness/target/release/qv $c --no-evidence 2>&1 | grep -E "VIOLATION|HANG|sig=|tier=|KNOWN|inconclusive:" | cut -c1-300
    done
    ;;
  sed)
    # tools/mut.sh sed <file relative to repo> <sed expression> <check>...
    file=$2; expr=$3; shift 3
    git -C $M/repo checkout -q -- . && git -C $M/repo clean -fdq
    git -C $M/repo checkout -q --detach "$(git -C /repo rev-parse HEAD)"
    sed -i "$expr" $M/repo/$file
    git -C $M/repo diff --stat | tail -1
    mkdir -p $M/harness
    rsync -a --exclude target /verif/harness/ $M/harness/
    sed -i "s#/repo/#$M/repo/#g" $M/harness/Cargo.toml
    cp /verif/known_findings.json $M/out/
    (cd $M/harness && CARGO_NET_OFFLINE=true cargo build --release --offline 2>&1 | grep -E "^error" -A8 | head -30)
    for c in "$@"; do
      QV_ROOT=$M/out $M/harness/target/release/qv $c --no-evidence 2>&1 | grep -E "VIOLATION|HANG|sig=|tier=|inconclusive:" | cut -c1-300
    done
    ;;
  clean)
    git -C /repo worktree remove --force $M/repo 2>/dev/null || true
    rm -rf $M
    ;;
esac
