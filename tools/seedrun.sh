#!/bin/sh
# tools/seedrun.sh <PROP> <n> [check ...]: apply $SEEDED_DIR (default /var/tmp/seeded)/<PROP>/<n>/patch.diff in the scratch
# worktree (never /repo), rebuild the harness copy, run the given checks (default: the property's own)
P=$1; N=$2; shift 2
CHECKS=${*:-$(echo $P | tr A-Z a-z)}
D=${SEEDED_DIR:-/var/tmp/seeded}/$P/$N
echo "##### $P/$N: $(python3 -c "import json;print(json.load(open('$D/meta.json'))['title'])" 2>/dev/null)"
PATCH=$D/patch.rebased.diff; [ -f $PATCH ] || PATCH=$D/patch.diff
QV_WATCHDOG_SECS=${QV_WATCHDOG_SECS:-90} /verif/tools/mut.sh run $PATCH $CHECKS 2>&1 | grep -aE "VIOLATION|HANG|sig=|tier=|^error|inconclusive:" | cut -c1-220
