#!/usr/bin/env python3
"""Regenerate /verif/MANIFEST.json from the table below (run after adding or changing a check)."""
import json, os

ROOT = "/verif"
props = [json.loads(l) for l in open(f"{ROOT}/properties.jsonl")]

# id -> (engine, what the check gives, trusted base / assumptions)
BUILT = {
 "C01": ("simnet", "end-to-end transfers over a faulty simulated network (drop/dup/delay/ECN per datagram, GSO split, key updates, window changes); content oracle at every read: offsets, non-overlap, byte values, end-of-stream and reset codes",
         "trusted: simnet interpreter, SimCrypto, application model; stream totals <= 200 kB, finite fault prefixes"),
 "C02": ("simnet", "liveness as bounded-time safety: finite generated fault prefix then a clean link; event-driven workloads must complete (handshake, every planned stream read and Finished) within a computed virtual-time bound; wedge signatures for known findings",
         "trusted: harness as above; infinite adversarial loss schedules are out of reach; idle timeout disabled"),
 "C03": ("puppet", "a harness-written hostile peer that authenticates its packets with the connection's SimCrypto keys drives an unmodified endpoint in both roles: generated packets in all three spaces carrying grammar-generated frames (boundary-biased ids, offsets, limits, sequence numbers up to 2^62-1, ACK ranges, NEW_CONNECTION_ID/RETIRE_CONNECTION_ID, PATH_*, ACK_FREQUENCY, DATAGRAM, CRYPTO), raw/unknown/truncated frame bytes, duplicated/skipped/huge packet numbers, other source addresses, floods (PATH_CHALLENGE from 400 addresses, CRYPTO at rising offsets, one-byte stream gaps, CID churn, sparse packet numbers, 200-range ACKs), unauthenticated garbage and mutated genuine datagrams, 25 template violations with RFC-prescribed error class, generated transport parameter lists (valid base plus hostile edits, all encodable widths, duplicates, wrong lengths), in victim configurations with ack-frequency on/off, CID length 0..20, datagrams on/off, small limits; oracles: no panic (overflow included, std-library panics attributed by backtrace), call/step bounds and watchdog, probe-counter and live-heap bounds, wire/application error agreement, defined error code, prescribed class after a template, honest connection on the same endpoint completes with intact data",
         "trusted: puppet, wire.rs, SimCrypto (rustls sessions cannot be driven by the puppet); error class asserted only where RFC 9000/9221 fixes it; heap bound is a budget (24 MB + 256 x injected bytes), slower growth is not visible"),
 "C04": ("simnet", "an attacker at the link acts on copies of genuine datagrams (replays at any later time incl. the connection-creating Initial, bit flips, truncation/extension, cross-connection CID splices, reset-token suffixes: exact / other CID / one-bit miss); per-frame-type receive counters never exceed the frames contained in distinct genuine packets delivered; twin run without the attacker gives the same final outcome (and the same destinations) ; Reset only for the exact token",
         "trusted: unforgeability of packet protection (ring/rustls or SimCrypto's keyed tag) is assumed; frame accounting needs SimCrypto; timing-level equality is not asserted (extra poll instants legitimately perturb pacing)"),
 "C05": ("simnet", "independent credit ledger kept by the wire observer for the receiver of the credit; every STREAM/RESET_STREAM leaving a sender is checked against stream, connection and stream-count limits that actually reached it; send_window bound via probe",
         "trusted: independent wire decoder (wire.rs); SimCrypto only (frames visible); 0-RTT limits are C17's"),
 "C06": ("puppet", "a harness-written hostile peer (puppet.rs: own packet/frame codec, SimCrypto keys) completes a handshake with the unmodified endpoint in either role and probes every advertised limit from one below to one above (STREAM/RESET_STREAM ends vs stream and connection limits, stream indices vs MAX_STREAMS, final-size changes, DATAGRAM sizes, out-of-order CRYPTO vs crypto_buffer_size, one-byte drip frames) interleaved with reads/stop/finish/set_receive_window/set_max_concurrent_streams on the victim; a reference model written from RFC 9000 section 4 classifies each frame accept / either / must close with code; read()/recv() content and range oracle; MAX_DATA, MAX_STREAM_DATA, MAX_STREAMS never exceed consumed-or-discarded + configured window; buffer bounds through the probe",
         "trusted: puppet and wire.rs; limits enforced may exceed the advertised ones by credit held internally (band accepted either way); errors for data beyond a final size learnt from RESET_STREAM or on finished streams are RFC SHOULDs and not demanded; applications only use stream ids learnt through accept()/open()"),
 "C07": ("simnet", "link-side anti-amplification ledger on every datagram any server connection emits (sent_before + 1 <= 3 x received_before until a genuine Handshake packet / PATH_RESPONSE / validated token), driven by handshakes with 0..16 kB server flights, lost and duplicated client flights, Retry, delayed accept, crafted Initials of 1..1500 bytes from spoofed addresses and garbage datagrams; stateless resets strictly smaller than their trigger and rate limited; sub-1200 Initials ignored without state",
         "trusted: ledger credits at least what quinn credits (all datagrams routed to or buffered for the connection); VN/refusal sizes not asserted (not bounded by the statement)"),
 "C08": ("simnet", "connections terminated at a generated instant by close() of either/both applications, a path blackhole, a stateless reset with the exact token, or nothing (idle timeout / keep-alive); exactly-once ConnectionLost with an explained reason, none for a local close, CONNECTION_CLOSE in the first transmit after close(), Drained within 3 PTO exactly once, endpoint forgets the connection and its CIDs, idle-timeout bounds, keep-alive holds",
         "trusted: harness; 3*PTO taken from the probe; pad_to_mtu, forced key updates and zero-length-CID+Retry (known findings) excluded by construction; protocol-error terminations belong to C03/C06"),
 "C11": ("simnet", "exhaustive enumeration (DFS with prefix sharing by re-execution, parallel over 16 threads) of all histories up to depth 6-10 over the alphabet {A/B: open, write small, write to credit, finish, reset(c), stop(c), read some, read all, unordered read, accept, stopped?, received_reset?, set_priority; net: deliver A->B, deliver B->A, sync} for every initiator and direction, from scratch and after an established prefix, plus proptest-generated histories up to 40 steps on up to 3 streams; a reference model written from RFC 9000 section 3 and the rustdoc (set-valued where the documentation leaves a choice) predicts the outcome class of every operation, every StreamEvent, remote_open_streams on both sides, the MAX_STREAMS values on the wire and credit liveness after each sync",
         "trusted: reference model (notes/c11-NOTES.md lists each set-valued decision with the doc sentence it rests on); loss-free in-order link; reductions stated in the evidence rule (commuting A/B order within a network segment, no-op repeats)"),
 "C12": ("simnet+ctrl", "congestion gate checked around every poll_transmit (bytes in flight vs window read through the probe) with the documented exemptions, cumulative probe budget, in-flight balance at forced quiescence, no loss on clean paths; controller call-history model for window >= 2 datagrams",
         "trusted: verif-hooks probe values; scripted controller implements the public Controller trait"),
 "C13": ("simnet", "per-poll_transmit size oracle against the MTU estimate read immediately before the call, single-MTU-probe exemption (shape, bounds, no second probe), GSO segment shape, Initial/path-validation padding, loss-probe clamp, MTU estimate rises only with a delivered datagram of that size, recovery after black hole",
         "trusted: probe values; link MTU threshold >= configured min_mtu"),
 "C14": ("tokens", "server acceptance against a binding model over a registry of byte strings the server really issued (Retry and NEW_TOKEN tokens harvested in the same world; both key types; BloomTokenLog default/tiny, exact-set log, NoneTokenLog; lifetimes 1 s..days; generated monotone server clock): genuine, bit-flipped (exhaustive per token in c14a-flips), truncated, extended, spliced and foreign tokens presented from the issuing address, another port, another IP and v4-mapped forms before/at/after expiry and repeatedly; twin presentation of the same Initial with and without an unusable token; client side: Retry packets rewritten/forged/duplicated/late on the link (tag recomputed independently), single-field edits of the three CID transport parameters in both directions, TokenMemoryCache reconnect histories observed on the wire; model-based histories of BloomTokenLog and TokenMemoryCache",
         "trusted: reference models; unforgeability of the AEAD/HMAC is assumed (SimCrypto token key or ring); contract derived from module docs and the callers"),
 "C09": ("simnet", "worlds with 1-3 client endpoints, 1-2 server endpoints and 2-10 connections starting at generated times over one faulty link, CID generators seeded/random/hashed with lengths 0..20, CID lifetimes 0.1-3 s, local_address_changed() rotations, one target connection closed early by either side; the link tags each datagram with the emitting connection and every datagram Endpoint::handle hands to a connection must reach the emitter's peer; per-connection content keys; non-target workloads complete without ConnectionLost; connection IDs the peer has retired (retirement acknowledged) and client-chosen initial IDs in short headers route to no connection while the connections live; after close and drain open_connections()==0 and every connection ID ever seen on the wire routes to nothing",
         "trusted: link tag and client/server pairing; with zero-length CIDs one connection per endpoint address pair; live stale-ID probes only for generators with >= 2^48 values"),
 "C10": ("codec", "enumeration plus proptest over the verif-hooks codec wrappers: varints (all 1/2-byte values, boundary-dense 4/8-byte), packet-number truncation/expansion vs RFC 9000 A.2/A.3 reference, frames of all 24 kinds, headers/coalesced packets, transport parameters, tokens (AES-GCM and SimCrypto keys), hashed CIDs: decode(encode(x)) == x, differential agreement with the independent codec wire.rs in both directions, byte-equality of encoders, close frames fit their budget; totality: arbitrary bytes, mutations and every prefix of valid encodings through every decoder without panic or out-of-bounds, accept => re-encode fixpoint",
         "trusted: independent reference codec wire.rs (checked against itself); RFC-strictness disagreements on transport parameters (non-minimal integers refused; slack bytes in two parameters accepted) are observations, not violations of C10 as stated"),
 "C17": ("simnet", "two consecutive connections of one client in one world (the first provisions the SimCrypto ticket or the rustls session and the remembered parameters); the second starts a generated early workload before Connected (streams of both directions, any write sizes up to the remembered credit, finishes, resets, datagrams, more opens than credit, window changes) against a server that accepts or rejects early data, with or without Retry, with late accept (buffered early packets, also beyond incoming_buffer_size), equal/larger/smaller new parameters and generated loss/duplication/reordering, plus an exhaustive enumeration of deliver/drop/duplicate/delay over the first 8 client datagrams; oracles: accepted: every early byte exactly once at its offset, early datagrams at most once, accepted_0rtt(); rejected: no early content (distinct content key) at the server application, early handles report closed, open() restarts at index 0, the wire credit ledger restarted from the new parameters is respected from offset 0, final outcome equals a twin without an early attempt; accept with reduced limits ends in a client error",
         "trusted: harness application model; SimCrypto in 92% of cases, real rustls 0-RTT in 8%; outcome-level twin comparison"),
 "C18": ("asyncsim", "the real quinn crate on a harness Runtime (single-threaded deterministic executor, virtual timers, in-memory UDP with generated faults, GSO/GRO batching, send blocking): generated programs of 1-3 application tasks per side over 1-2 connections using every awaited operation with generated cancellation plans and handle drops, scheduled by generated scheduler bytes; oracles: no lost wakeup (spurious re-poll / fresh future at every idle point must not be ready), stuck-operation and livelock bounds in virtual time, byte-exact integrity and explained terminal results, cancel-safety through the integrity bookkeeping, implicit finish/stop/close on handle drop delivered within 3 s virtual on loss-free worlds, driver tasks terminate, no wake into a completed application task",
         "trusted: executor/network model (asyncsim.rs); single-threaded interleavings only (no true parallelism, tokio/smol adapters not run); SimCrypto; behaviours D2, D4, D5, D8 of notes/c18-NOTES.md are tolerated (documented semantics), D7 is C08's known finding"),
 "C19": ("udp", "generated Transmits over real loopback sockets through quinn-udp's public API (fresh socket pair per scenario): exhaustive enumeration of 10 608 option combinations (6 address families/bindings incl. dual-stack and v4-mapped, every ECN codepoint and none, explicit source address or none in v4 and v6 form, send shapes, try_send/send, receive buffer shapes) plus proptest over payload lengths 1..max UDP payload, segment sizes and counts up to max_gso_segments() with short last segment, 1..BATCH_SIZE+4 receive buffers; oracle: RecvMeta.len cut by stride equals the transmitted segments byte for byte, ECN, source address/port and destination address as described, stride/len/buffer bounds with canary bytes behind every buffer, nothing extra arrives, Ok implies arrival; the fallback path is entered through a kernel-rejected 300-segment transmit (max_gso_segments drops to 1, plain sends complete, unmerged, untruncated)",
         "trusted: Linux loopback delivers reliably within the retry schedule (missing datagrams are retried on three fresh socket pairs with 20/80/300 ms deadlines, other failures must reproduce on a second pair); this kernel supports GSO and GRO, a kernel without them is only approximated by the rejected-transmit fallback; send errors outside a model of the kernel's limits are discards"),
 "C20": ("simnet", "metamorphic replay relations on generated histories: R1 identical replay, R2 all instants shifted by a constant (1 us .. 10 years), R3 spurious handle_timeout/poll_transmit calls inserted; byte-exact output traces compared; extra calls return nothing; timeout service converges at one instant; silence after Drained",
         "trusted: harness; byte-exact under SimCrypto with seeded CID generator, reduced trace otherwise; TLS randomness excluded"),
 "C15": ("simnet", "established connections with transfers in both directions while the link rewrites the client's source address at generated instants (port-only and full address changes, repeated, overlapping, moving back), an attacker replays genuine client datagrams from third addresses (race copies delivered before the original, and stale copies), PATH_CHALLENGE/PATH_RESPONSE are dropped selectively, CIDs rotate, with server migration on and off; oracles: the server follows the client within a computed bound once it keeps sending from the new address (challenge towards it, matching response from it, all later server datagrams go there, workload completes with intact data), at most 3x what was received from an address is sent to it until its PATH_RESPONSE was delivered, after a spoofed migration the server returns to the previous address within 3 PTO and never closes, path changes only on the highest-numbered non-probing packet, clients and non-migrating servers never send to or acknowledge packets from foreign addresses (twin run gives the same outcome)",
         "trusted: link-side address plan and ledger; bounds use the probe's PTO sampled at the migration instant; strict byte-level twin equality is not asserted"),
 "C16": ("simnet", "datagram payload identity / at-most-once at recv(), oldest-first receive-buffer reference model fed with frames the connection reports processed, send() result model, send_buffer_space, max_size bounds, wire order, DatagramsUnblocked",
         "trusted: harness models; buffer model only under SimCrypto"),
}
NOT_YET = "check not built yet in this session (work in progress; DESIGN.md describes the intended check)"

checks = []
for p in props:
    pid = p["id"]
    if pid not in BUILT:
        continue
    eng, text, note = BUILT[pid]
    low = pid.lower()
    checks.append({
        "property_id": pid,
        "quick_cmd": f"bin/qv {low} --tier quick",
        "thorough_cmd": f"bin/qv {low} --tier thorough" + (" && bin/fuzz 3000000 c10" if pid == "C10" else " && bin/fuzz 200000 c03" if pid == "C03" else ""),
        "evidence_file": f"/verif/evidence/{pid}.json",
        "replay_cmd_template": f"bin/qv {low} --replay {{path}}",
        "engine": eng,
        "level_claimed": {
            "category": "exploration",
            "text": "proptest-generated scenarios executed against the real quinn code; " + text + ". Held on everything generated; absence is not established.",
            "design_ref": f"DESIGN.md section 2, {pid}",
        },
        "level_note": note,
        "technique": "property-based testing (proptest TestRunner on 16 threads, shrinking to replay files) against an explicit model/oracle",
    })
na = [{"property_id": p["id"], "reason": NOT_YET} for p in props if p["id"] not in BUILT]
hooks_commits = os.popen("git -C /repo log --format=%h --grep='^verif-hooks'").read().split()
m = {
    "version": 1,
    "setup_cmd": "cd /verif/harness && CARGO_NET_OFFLINE=true cargo build --release --offline",
    "hooks": {
        "guard": "cargo feature verif-hooks (quinn-proto; forwarded by quinn)",
        "enable": "the harness crate depends on /repo/quinn-proto and /repo/quinn with features = [\"verif-hooks\"]",
        "baseline_off_cmd": "cd /repo && cargo test --workspace --no-fail-fast --offline",
        "source_commits": hooks_commits,
        "add_only": True,
    },
    "engines": [
        {"name": "simnet", "path": "/verif/harness/src/simnet.rs", "serves_properties": [c["property_id"] for c in checks if "simnet" in c["engine"]],
         "kind_free_text": "deterministic network of sans-IO quinn-proto endpoints on a virtual clock; harness crypto (SimCrypto) or rustls; independent wire observer; event-driven application model"},
        {"name": "puppet", "path": "/verif/harness/src/puppet.rs", "serves_properties": [c["property_id"] for c in checks if c["engine"] == "puppet"],
         "kind_free_text": "hand-written QUIC peer over the independent codec and SimCrypto key schedule, living at a sink address of the simulated network (pw.rs); the victim is an unmodified quinn endpoint whose application the check operates step by step"},
        {"name": "asyncsim", "path": "/verif/harness/src/asyncsim.rs", "serves_properties": [c["property_id"] for c in checks if c["engine"] == "asyncsim"],
         "kind_free_text": "deterministic single-threaded executor implementing quinn::Runtime, AsyncUdpSocket and AsyncTimer on virtual time with a generated task schedule"},
        {"name": "udp", "path": "/verif/harness/src/checks/c19.rs", "serves_properties": [c["property_id"] for c in checks if c["engine"] == "udp"],
         "kind_free_text": "real UDP sockets on the loopback interface driven through quinn-udp's UdpSocketState"},
        {"name": "codec", "path": "/verif/harness/src/checks/c10.rs", "serves_properties": [c["property_id"] for c in checks if c["engine"] == "codec"],
         "kind_free_text": "enumeration and proptest drivers over quinn-proto's encoders/decoders (reached through the verif-hooks codec wrappers) with the independent codec wire.rs as differential reference; cargo-fuzz targets in /verif/fuzz share the same case functions"},
        {"name": "tokens", "path": "/verif/harness/src/checks/c14c.rs", "serves_properties": [c["property_id"] for c in checks if c["engine"] == "tokens"],
         "kind_free_text": "model-based operation histories against BloomTokenLog / TokenMemoryCache reference models"},
    ],
    "checks": checks,
    "not_applicable": na,
    "notes": "known findings: /verif/known_findings.json; replay files: /verif/replays; sensitivity helper: tools/mut.sh; DESIGN.md has the per-property design and the build log",
}
json.dump(m, open(f"{ROOT}/MANIFEST.json", "w"), indent=1)
print("checks:", [c["property_id"] for c in checks], "not_applicable:", len(na))
