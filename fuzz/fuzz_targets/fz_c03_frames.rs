#![no_main]
//! C03: a hostile authenticated peer whose packets carry the fuzzer's bytes as frame area, in all
//! three packet number spaces, against a victim in either role; oracle = c03::case (no panic, bounded
//! state, defined close code, close-code agreement).
use libfuzzer_sys::fuzz_target;

fuzz_target!(|data: &[u8]| qv::checks::c03::fuzz_oracle(false, data));
