#![no_main]
//! frame::Iter over arbitrary payloads: no panic, accept/reject and every field equal to the
//! independent RFC decoder, re-encoding the decoded frames and decoding again gives the same.
use libfuzzer_sys::fuzz_target;
use qv::checks::c10::{fuzz_oracle, Target};

fuzz_target!(|data: &[u8]| fuzz_oracle(Target::Frames, data));
