#![no_main]
//! ProtectedHeader::decode and PartialDecode::new + finish over coalesced datagrams: no panic, no
//! read past the buffer, header + payload are slices of the input, remainder exact, re-encode and
//! decode again gives the same header. The first byte picks the local CID length and the
//! grease-quic-bit setting.
use libfuzzer_sys::fuzz_target;
use qv::checks::c10::{fuzz_oracle, fuzz_split, Target};

fuzz_target!(|data: &[u8]| {
    let (sel, rest) = fuzz_split(data);
    fuzz_oracle(Target::Packet { cid_len: (sel & 0x1f) % 21, grease: sel & 0x80 != 0 }, rest);
});
