#![no_main]
//! VarInt::decode: never panics, consumes exactly the announced length, agrees with the
//! reference decoder, decode(encode(decode(x))) == decode(x). Every prefix is tried as well.
use libfuzzer_sys::fuzz_target;
use qv::checks::c10::{fuzz_oracle, Target};

fuzz_target!(|data: &[u8]| {
    fuzz_oracle(Target::VarInt, data);
    // the connection-id and preferred-address decoders are as small: exercise them here too
    fuzz_oracle(Target::Cid, data);
    fuzz_oracle(Target::PrefAddr, data);
});
