#![no_main]
//! TransportParameters::read for both reader sides: no panic, agreement with the reference
//! decoder (RFC 9000 section 18), read(write(read(x))) == read(x).
use libfuzzer_sys::fuzz_target;
use qv::checks::c10::{fuzz_oracle, fuzz_split, Target};

fuzz_target!(|data: &[u8]| {
    let (sel, rest) = fuzz_split(data);
    fuzz_oracle(Target::Tp { reader_is_server: sel & 1 != 0 }, rest);
});
