#![no_main]
//! Token::decode on raw bytes and on fuzzer-chosen plaintexts behind a valid seal (SimCrypto
//! token key): no panic, accepted tokens are canonical (encode(decode(t)) == t).
use libfuzzer_sys::fuzz_target;
use qv::checks::c10::{fuzz_oracle, fuzz_split, Target};

fuzz_target!(|data: &[u8]| {
    let (sel, rest) = fuzz_split(data);
    let key = ((sel >> 1) & 3) as u64;
    if sel & 1 == 0 {
        fuzz_oracle(Target::TokenSealed { key }, rest);
    } else {
        fuzz_oracle(Target::TokenRaw { key }, rest);
    }
});
