#![no_main]
//! C03: the fuzzer's bytes as the hostile peer's transport parameters (next to genuine CID
//! parameters); oracle = c03::case_tp.
use libfuzzer_sys::fuzz_target;

fuzz_target!(|data: &[u8]| qv::checks::c03::fuzz_oracle(true, data));
