#!/usr/bin/env python3
"""usage: mut.py <name> [extra qv args...] ; applies one named mutation to the scratch worktree, rebuilds, runs c11"""
import subprocess, sys, os, re, time
M='/var/tmp/c11-mut'
S=M+'/repo/quinn-proto/src/connection/streams/'
MUTS={
 'M23_stopped_event_wrong_code': ('state.rs', "            self.events\n                .push_back(StreamEvent::Stopped { id, error_code });\n            self.on_stream_frame(false, id);", "            self.events\n                .push_back(StreamEvent::Stopped { id, error_code: VarInt::from_u32(1) });\n            self.on_stream_frame(false, id);"),
 'M24_stopped_query_none': ('mod.rs', "            Some(Some(s)) => Ok(s.stop_reason),", "            Some(Some(_s)) => Ok(None),"),
 'M25_finished_twice': ('state.rs', "        self.events.push_back(StreamEvent::Finished { id });\n    }", "        self.events.push_back(StreamEvent::Finished { id });\n        self.events.push_back(StreamEvent::Finished { id });\n    }"),
 'M26_accept_repeats': ('mod.rs', "        self.state.next_reported_remote[dir as usize] = x + 1;", "        self.state.next_reported_remote[dir as usize] = x;"),
 'M28_stop_sends_nothing': ('mod.rs', "        if stop_sending.should_transmit() {", "        if stop_sending.should_transmit() && false {"),
 'M29_read_after_stop': ('recv.rs', "                true => return Err(ReadableError::ClosedStream),\n                false => entry.remove().unwrap().into_inner(),", "                _ => entry.remove().unwrap().into_inner(),"),
 'M30_received_reset_after_stop': ('mod.rs', "        if s.stopped {\n            return Err(ClosedStream { _private: () });\n        }\n        let Some(code) = s.reset_code() else {", "        let Some(code) = s.reset_code() else {"),
 'M31_no_new_stream_credit': ('state.rs', "                self.allocated_remote_count[id.dir() as usize] -= 1;\n                self.ensure_remote_streams(id.dir());", "                self.allocated_remote_count[id.dir() as usize] -= 1;"),
 'M32_free_at_stop_unknown_size': ('mod.rs', "        if !stream.final_offset_unknown() {\n            let recv = entry.remove()", "        if true {\n            let recv = entry.remove()"),
 'M33_finished_on_stop_of_finished': ('state.rs', "        if stream.try_stop(error_code) {\n            self.events", "        if stream.try_stop(error_code) {\n            if matches!(stream.state, SendState::DataSent { .. }) {\n                self.events.push_back(StreamEvent::Finished { id });\n            }\n            self.events"),
 'M34_reset_code_from_stop': ('recv.rs', "        self.state = RecvState::ResetRecvd {\n            size: final_offset.into(),\n            error_code,\n        };", "        self.state = RecvState::ResetRecvd {\n            size: final_offset.into(),\n            error_code: VarInt::from_u32(0),\n        };"),
 'M35_fin_before_all_read': ('recv.rs', "                if size == Some(rs.end) && rs.assembler.bytes_read() == rs.end {", "                if size == Some(rs.end) {"),
 'M36_available_on_every_packet': ('state.rs', "    pub(crate) fn queue_max_stream_id(&mut self, pending: &mut Retransmits) -> bool {", "    pub(crate) fn queue_max_stream_id(&mut self, pending: &mut Retransmits) -> bool {\n        self.events.push_back(StreamEvent::Available { dir: Dir::Uni });"),

 'M1_finish_in_datasent': ('send.rs', "} else if self.state == SendState::Ready {\n            self.state = SendState::DataSent {", "} else if matches!(self.state, SendState::Ready | SendState::DataSent { .. }) {\n            self.state = SendState::DataSent {"),
 'M2a_stop_drops_code': ('send.rs', "self.stop_reason = Some(error_code);\n            true", "self.stop_reason = Some(VarInt::from_u32(0));\n            true"),
 'M2b_stop_overwrites': ('send.rs', "if self.stop_reason.is_none() {\n            self.stop_reason = Some(error_code);\n            true\n        } else {\n            false\n        }", "self.stop_reason = Some(error_code);\n        true"),
 'M3a_finished_without_fin_ack': ('send.rs', "*finish_acked && self.pending.is_fully_acked()", "self.pending.is_fully_acked()"),
 'M3b_finished_on_any_ack': ('state.rs', "        if !stream.ack(frame) {\n            // The stream is unfinished or may still need retransmits\n            return;\n        }", "        if !stream.ack(frame) {\n            self.events.push_back(StreamEvent::Finished { id });\n            return;\n        }"),
 'M4_freed_on_first_half': ('state.rs', "            let fully_free = id.dir() == Dir::Uni\n                || match half {\n                    StreamHalf::Send => !self.recv.contains_key(&id),\n                    StreamHalf::Recv => !self.send.contains_key(&id),\n                };", "            let fully_free = true;"),
 'M5_stop_twice': ('recv.rs', "        if self.stopped {\n            return Err(ClosedStream { _private: () });\n        }\n\n        self.stopped = true;", "        self.stopped = true;"),
 'M6a_reset_after_resetsent': ('mod.rs', "        if matches!(stream.state, SendState::ResetSent) {\n            // Redundant reset call\n            return Err(ClosedStream { _private: () });\n        }", ""),
 'M6b_send_kept_after_full_ack': ('state.rs', "        entry.remove_entry();\n        self.stream_freed(id, StreamHalf::Send);\n        self.events.push_back(StreamEvent::Finished { id });", "        self.events.push_back(StreamEvent::Finished { id });"),
 'M7a_readable_on_stop_sending': ('state.rs', "                .push_back(StreamEvent::Stopped { id, error_code });\n            self.on_stream_frame(false, id);", "                .push_back(StreamEvent::Stopped { id, error_code });\n            self.on_stream_frame(true, id);"),
 'M7b_readable_on_max_stream_data': ('state.rs', "            if ss.increase_max_data(offset) {\n                if write_limit > 0 {", "            self.events.push_back(StreamEvent::Readable { id });\n            if ss.increase_max_data(offset) {\n                if write_limit > 0 {"),
 'M8a_stopped_twice': ('state.rs', "            self.events\n                .push_back(StreamEvent::Stopped { id, error_code });\n            self.on_stream_frame(false, id);", "            self.events\n                .push_back(StreamEvent::Stopped { id, error_code });\n            self.events\n                .push_back(StreamEvent::Stopped { id, error_code });\n            self.on_stream_frame(false, id);"),
 'M8b_stopped_lost': ('state.rs', "            self.events\n                .push_back(StreamEvent::Stopped { id, error_code });\n            self.on_stream_frame(false, id);", "            self.on_stream_frame(false, id);"),
 'M9_fin_read_again': ('recv.rs', "                if size == Some(rs.end) && rs.assembler.bytes_read() == rs.end {\n                    let state = mem::replace(&mut self.state, ChunksState::Finished);\n                    // At this point if we have `rs` self.state must be `ChunksState::Readable`\n                    let recv = match state {\n                        ChunksState::Readable(recv) => StreamRecv::Open(recv),\n                        _ => unreachable!(\"state must be ChunkState::Readable\"),\n                    };\n                    self.streams.stream_recv_freed(self.id, recv);\n                    Ok(None)", "                if size == Some(rs.end) && rs.assembler.bytes_read() == rs.end {\n                    Ok(None)"),
 'M10_write_stopped_blocked': ('send.rs', "            return Err(WriteError::Stopped(error_code));", "            let _ = error_code;\n            return Err(WriteError::Blocked);"),
 'M11_reset_on_stopped_not_freed': ('state.rs', "        if stopped {\n            // Stopped streams should be disposed immediately on reset\n            let rs = self.recv.remove(&id).flatten().unwrap();\n            self.stream_recv_freed(id, rs);\n        }", "        if stopped {\n        }"),
 'M12_finish_ignores_stop': ('send.rs', "        if let Some(error_code) = self.stop_reason {\n            Err(FinishError::Stopped(error_code))\n        } else if self.state == SendState::Ready {", "        if self.state == SendState::Ready {"),
 'M14_received_reset_keeps_state': ('mod.rs', "        let (_, recv) = entry.remove_entry();\n        self.state\n            .stream_recv_freed(self.id, recv.expect(\"must have recv on reset\"));\n        self.state.queue_max_stream_id(self.pending);\n\n        Ok(Some(code))", "        let _ = entry;\n        Ok(Some(code))"),
 'M15_reset_read_again': ('recv.rs', "                let state = mem::replace(&mut self.state, ChunksState::Reset(error_code));\n                // At this point if we have `rs` self.state must be `ChunksState::Readable`\n                let recv = match state {\n                    ChunksState::Readable(recv) => StreamRecv::Open(recv),\n                    _ => unreachable!(\"state must be ChunkState::Readable\"),\n                };\n                self.streams.stream_recv_freed(self.id, recv);\n                Err(ReadError::Reset(error_code))", "                Err(ReadError::Reset(error_code))"),
 'M17_open_beyond_limit': ('mod.rs', "        if self.state.next[dir as usize] >= self.state.max[dir as usize] {", "        if self.state.next[dir as usize] > self.state.max[dir as usize] {"),
 'M18_stop_after_final_size_keeps': ('mod.rs', "        if !stream.final_offset_unknown() {\n            let recv = entry.remove().expect(\"must have recv when stopping\");\n            self.state.stream_recv_freed(self.id, recv);\n        }", ""),
 'M19_write_after_finish_ok': ('send.rs', "    pub(super) fn is_writable(&self) -> bool {\n        matches!(self.state, SendState::Ready)", "    pub(super) fn is_writable(&self) -> bool {\n        !matches!(self.state, SendState::ResetSent)"),
 'M20_opened_for_local_stop': ('state.rs', "        if stream.initiator() == self.side {\n            // Notifying about the opening of locally-initiated streams would be redundant.\n            if notify_readable {", "        if stream.initiator() == self.side {\n            self.opened[stream.dir() as usize] = true;\n            if notify_readable {"),
 'M21_reset_acked_frees_nothing': ('state.rs', "                if let Some(SendState::ResetSent) = e.get().as_ref().map(|s| s.state) {\n                    e.remove_entry();\n                    self.stream_freed(id, StreamHalf::Send);\n                }", "                let _ = e;"),
 'M22_reset_frees_at_call': ('mod.rs', "        self.state.unacked_data -= stream.pending.unacked();\n        stream.reset();\n        self.pending.reset_stream.push((self.id, error_code));", "        self.state.unacked_data -= stream.pending.unacked();\n        stream.reset();\n        self.pending.reset_stream.push((self.id, error_code));\n        self.state.send.remove(&self.id);\n        self.state.stream_freed(self.id, StreamHalf::Send);"),
}
def sh(c, **kw): return subprocess.run(c, shell=True, capture_output=True, text=True, **kw)
name=sys.argv[1]; extra=' '.join(sys.argv[2:])
sh(f"git -C {M}/repo checkout -q -- . && git -C {M}/repo clean -fdq")
if name!='none':
    f,old,new=MUTS[name]
    p=S+f; s=open(p).read()
    assert s.count(old)==1, (name, s.count(old))
    open(p,'w').write(s.replace(old,new))
sh(f"rsync -a --exclude target --exclude Cargo.toml /var/tmp/c11-work/harness/ {M}/harness/")
b=sh(f"cd {M}/harness && CARGO_NET_OFFLINE=true cargo build --release --offline 2>&1 | grep -E '^error' -A8 | head -30")
if b.stdout.strip():
    print(name, "BUILD ERROR\n", b.stdout); sys.exit(1)
t=time.time()
r=sh(f"QV_ROOT={M}/out {M}/harness/target/release/qv c11 --no-evidence {extra} 2>&1")
open(f"{M}/logs/{name}.log",'w').write(r.stdout)
subs=re.findall(r"\[(c11[^\]]*)\] (?:histories|cases)=(\d+)", r.stdout)
viol=re.findall(r"check=(\S+) sig=(\S+)", r.stdout)
cnt=dict((a,int(b)) for a,b in subs)
tot=sum(cnt.values())
print(f"{name}: {'CAUGHT' if viol else 'missed'} by {len(viol)}/{len(subs)} sub-checks; total cases {tot}; " + ' '.join(f"{c.replace('c11-','')}:{sg.replace('c11/','')}@{cnt.get(c)}" for c,sg in viol) + f" [{time.time()-t:.0f}s]")
