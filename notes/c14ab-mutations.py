#!/usr/bin/env python3
"""Sensitivity driver: apply one textual mutation to the scratch quinn tree, rebuild, run qv c14."""
import subprocess, sys, re, json, os
M='/var/tmp/c14-mut'
R=M+'/repo/quinn-proto/src/'
MUTS = {
 'retry-ip-only': ('token.rs', 'if address != remote_address {', 'if address.ip() != remote_address.ip() {'),
 'retry-lifetime-flipped': ('token.rs', 'if issued + server_config.retry_token_lifetime < server_config.time_source.now() {', 'if issued + server_config.retry_token_lifetime > server_config.time_source.now() {'),
 'retry-lifetime-skipped': ('token.rs', 'if issued + server_config.retry_token_lifetime < server_config.time_source.now() {', 'if false && issued + server_config.retry_token_lifetime < server_config.time_source.now() {'),
 'vt-lifetime-skipped': ('token.rs', '''                if issued + server_config.validation_token.lifetime
                    < server_config.time_source.now()
                {''', '''                if false && issued + server_config.validation_token.lifetime
                    < server_config.time_source.now()
                {'''),
 'vt-lifetime-flipped': ('token.rs', '''                if issued + server_config.validation_token.lifetime
                    < server_config.time_source.now()
                {''', '''                if issued + server_config.validation_token.lifetime
                    > server_config.time_source.now()
                {'''),
 'vt-reuse-log-skipped': ('token.rs', '''                    .check_and_insert(retry.nonce, issued, server_config.validation_token.lifetime)
                    .is_err()''', '''                    .check_and_insert(retry.nonce, issued, server_config.validation_token.lifetime)
                    .is_err() && false'''),
 'decode-trailing-ignored': ('token.rs', '''        if !reader.is_empty() {
            // Consider extra bytes''', '''        if false && !reader.is_empty() {
            // Consider extra bytes'''),
 'vt-any-ip': ('token.rs', 'if ip != remote_address.ip() {', 'if false && ip != remote_address.ip() {'),
 'stale-retry-as-absent': ('token.rs', '''                if issued + server_config.retry_token_lifetime < server_config.time_source.now() {
                    return Err(InvalidRetryTokenError);''', '''                if issued + server_config.retry_token_lifetime < server_config.time_source.now() {
                    return Ok(unvalidated);'''),
 'moved-retry-as-absent': ('token.rs', '''                if address != remote_address {
                    return Err(InvalidRetryTokenError);''', '''                if address != remote_address {
                    return Ok(unvalidated);'''),
 'expiry-rounds-up': ('token.rs', '''                if issued + server_config.retry_token_lifetime < server_config.time_source.now() {
                    return Err(InvalidRetryTokenError);''', '''                if issued + server_config.retry_token_lifetime + Duration::from_secs(1) < server_config.time_source.now() {
                    return Err(InvalidRetryTokenError);'''),
 'aead-open-ignored-ring': ('crypto/ring_like.rs', 'Ok(self.open_in_place(zero_nonce, aad, data)?)', '''let n = data.len().saturating_sub(16);
        if n == 0 { return Err(CryptoError); }
        let mut copy = data.to_vec();
        match self.open_in_place(zero_nonce, aad, &mut copy) {
            Ok(p) => { let l = p.len(); data[..l].copy_from_slice(p); Ok(&mut data[..l]) }
            // mutation: authentication failure ignored, CTR keystream applied by hand is not possible here,
            // so hand back the ciphertext body as if it were plaintext
            Err(_) => Ok(&mut data[..n]),
        }'''),
 'client-retry-after-server-packet': ('connection/mod.rs', 'if self.total_authed_packets > 1\n', 'if false\n'),
 'client-retry-tag-skipped': ('connection/mod.rs', '''                            || !self.crypto.is_valid_retry(
                                self.rem_cids.active(),
                                &packet.header_data,
                                &packet.payload,
                            )''', '''                            || (false && !self.crypto.is_valid_retry(
                                self.rem_cids.active(),
                                &packet.header_data,
                                &packet.payload,
                            ))'''),
 'peer-params-skip-retry-src': ('connection/mod.rs', '|| self.retry_src_cid != params.retry_src_cid))', '|| false))'),
 'peer-params-skip-odcid': ('connection/mod.rs', '&& (Some(self.initial_dst_cid) != params.original_dst_cid', '&& (false'),
 'peer-params-skip-iscid': ('connection/mod.rs', 'if Some(self.orig_rem_cid) != params.initial_src_cid', 'if false'),
 'aead-open-ignored': ('token.rs', 'let data = aead_key.open(&mut sealed_token, &[]).ok()?;', 'let n = sealed_token.len().checked_sub(16)?; let _ = aead_key.open(&mut sealed_token.clone()[..], &[]); let data = &mut sealed_token[..n];'),
 'cache-take-not-removing': ('token_memory_cache.rs', """        let token = entry.tokens.pop_front().unwrap();

        if entry.tokens.is_empty() {""", """        let token = entry.tokens.front().unwrap().clone();

        if entry.tokens.is_empty() {"""),
 'client-late-retry-only': ('connection/mod.rs', 'if self.total_authed_packets > 1\n', 'if (self.total_authed_packets > 1 && self.retry_src_cid.is_some())\n'),
 'client-second-retry-nopanic': [('connection/mod.rs', 'if self.total_authed_packets > 1\n', 'if (self.total_authed_packets > 1 && self.retry_src_cid.is_none())\n'),
   ('connection/mod.rs', """                        offset: 0,
                        data: client_hello,
                    });""", """                        offset: 0,
                        data: client_hello.clone(),
                    });"""),
   ('connection/mod.rs', """                    expected_token: Bytes::new(),
                    rem_cid_set: false,
                    client_hello: None,
                });
                Ok(())""", """                    expected_token: Bytes::new(),
                    rem_cid_set: false,
                    client_hello: Some(client_hello),
                });
                Ok(())""")],
 'ring-hkdf-ignores-nonce': ('crypto/ring_like.rs', 'let info = [random_bytes];', 'let _ = random_bytes; let info: [&[u8]; 1] = [&[]];'),
 'retry-odcid-from-header': ('token.rs', """                Ok(Self {
                    retry_src_cid: Some(header.dst_cid),
                    orig_dst_cid,
                    validated: true,""", """                Ok(Self {
                    retry_src_cid: Some(header.dst_cid),
                    orig_dst_cid: header.dst_cid,
                    validated: true,"""),
 'vt-ip-canonical': ('token.rs', 'if ip != remote_address.ip() {', 'if ip.to_canonical() != remote_address.ip().to_canonical() {'),
 'retry-ip-canonical': ('token.rs', 'if address != remote_address {', 'if (address.ip().to_canonical(), address.port()) != (remote_address.ip().to_canonical(), remote_address.port()) {'),
 'vt-expiry-off-by-one': ('token.rs', """                if issued + server_config.validation_token.lifetime
                    < server_config.time_source.now()""", """                if issued + server_config.validation_token.lifetime
                    <= server_config.time_source.now()"""),
 'retry-expiry-off-by-one': ('token.rs', 'if issued + server_config.retry_token_lifetime < server_config.time_source.now() {', 'if issued + server_config.retry_token_lifetime <= server_config.time_source.now() {'),
 'client-second-retry': ('connection/mod.rs', 'if self.total_authed_packets > 1\n', 'if (self.total_authed_packets > 1 && self.retry_src_cid.is_none())\n'),
}
def sh(cmd, **kw):
    return subprocess.run(cmd, shell=True, capture_output=True, text=True, **kw)
def main():
    name=sys.argv[1]
    extra=' '.join(sys.argv[2:])
    sh(f'git -C {M}/repo checkout -q -- . && git -C {M}/repo clean -fdq')
    if name!='none':
        m=MUTS[name]
        if not isinstance(m,list): m=[m]
        for f,old,new in m:
            p=R+f
            s=open(p).read()
            if s.count(old)!=1:
                print(f'pattern occurs {s.count(old)} times: {old[:40]}'); sys.exit(2)
            open(p,'w').write(s.replace(old,new))
    sh(f'rsync -a --exclude target /var/tmp/c14-work/harness/ {M}/harness/ && sed -i "s#/repo/#{M}/repo/#g" {M}/harness/Cargo.toml')
    b=sh(f'cd {M}/harness && CARGO_NET_OFFLINE=true cargo build --release --offline 2>&1 | grep -E "^error" -A12 | head -40')
    if b.stdout.strip():
        print('BUILD ERROR\n'+b.stdout); sys.exit(2)
    r=sh(f'rm -rf {M}/out/replays; QV_ROOT={M}/out {M}/harness/target/release/qv c14 --no-evidence {extra} 2>&1')
    out=r.stdout
    open(f'{M}/logs/{name}.log','w').write(out)
    for l in out.splitlines():
        if re.match(r'^(VIOLATION|  check=|  \[c14[ab]|C14 tier)', l) or l.startswith('  | ') :
            print(l[:260])
main()
