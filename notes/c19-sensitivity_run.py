import subprocess, sys, os, re, json
WT='/var/tmp/wt-c19/quinn-udp/src/'
H='/var/tmp/h-c19-mut'
muts = [
 ("M1 effective_segment_size >= -> >", "lib.rs", "size if size >= self.contents.len() => None,", "size if size > self.contents.len() => None,"),
 ("M1b effective_segment_size guard removed", "lib.rs", "size if size >= self.contents.len() => None,\n            size => Some(size),", "size => Some(size),"),
 ("M2a decode_recv stride default 0", "unix.rs", "        stride: len,\n        timestamp: None,", "        stride: 0,\n        timestamp: None,"),
 ("M2b UDP_GRO cmsg ignored (whole batch, stride=len)", "unix.rs", "self.stride = cmsg::decode::<libc::c_int, libc::cmsghdr>(cmsg) as usize;", "let _ = cmsg::decode::<libc::c_int, libc::cmsghdr>(cmsg) as usize;"),
 ("M3 ECN cmsg level for v4-mapped destination", "unix.rs", "    let is_ipv4 = transmit.destination.is_ipv4()\n        || matches!(transmit.destination.ip(), IpAddr::V6(addr) if addr.to_ipv4_mapped().is_some());", "    let is_ipv4 = transmit.destination.is_ipv4();"),
 ("M4a src_ip v4 cmsg dropped", "unix.rs", "encoder.push(libc::IPPROTO_IP, libc::IP_PKTINFO, pktinfo);", "let _ = pktinfo;"),
 ("M4b src_ip v6 cmsg dropped", "unix.rs", "encoder.push(libc::IPPROTO_IPV6, libc::IPV6_PKTINFO, pktinfo);", "let _ = pktinfo;"),
 ("M5 recvmmsg msg_len taken from slot 0", "unix.rs", "decode_recv(&names[i], &hdrs[i].msg_hdr, hdrs[i].msg_len as usize)?", "decode_recv(&names[i], &hdrs[i].msg_hdr, hdrs[0].msg_len as usize)?"),
 ("M5b recvmmsg name taken from slot 0 hdr i-1", "unix.rs", "decode_recv(&names[i], &hdrs[i].msg_hdr, hdrs[i].msg_len as usize)?", "decode_recv(&names[i], &hdrs[i.saturating_sub(1)].msg_hdr, hdrs[i].msg_len as usize)?"),
 ("M6 Encoder space uses cmsg_len (off by padding)", "cmsg/mod.rs", "let space = M::ControlMessage::cmsg_space(size_of_val(&value));", "let space = M::ControlMessage::cmsg_len(size_of_val(&value));"),
 ("M7 from_bits Ect0/Ect1 swapped", "lib.rs", "            0b10 => Ect0,\n            0b01 => Ect1,", "            0b10 => Ect1,\n            0b01 => Ect0,"),
 ("M8 ECN not-ECT sent as Ect0 when None", "unix.rs", "let ecn = transmit.ecn.map_or(0, |x| x as libc::c_int);", "let ecn = transmit.ecn.map_or(2, |x| x as libc::c_int);"),
 ("M9 recvmmsg vlen not clamped to BATCH_SIZE", "unix.rs", "            bufs.len().min(BATCH_SIZE) as _,\n            0,", "            bufs.len() as _,\n            0,"),
 ("M10 fallback does not lower max_gso_segments", "unix.rs", "state.max_gso_segments.store(1, Ordering::Relaxed);\n                    }", "}"),
 ("M11 v4 dst_ip decoded from ipi_spec_dst", "unix.rs", "pktinfo.ipi_addr.s_addr.to_ne_bytes(),", "pktinfo.ipi_spec_dst.s_addr.to_ne_bytes(),"),
 ("M12 segment size off by one in UDP_SEGMENT", "unix.rs", "gso::set_segment_size(&mut encoder, segment_size as u16);", "gso::set_segment_size(&mut encoder, segment_size as u16 + 1);"),
 ("M13 iov_len one short (last byte truncated)", "unix.rs", "iov.iov_len = transmit.contents.len();", "iov.iov_len = transmit.contents.len() - (transmit.contents.len() > 1200) as usize;"),
 ("M14 v6 decode_socket_addr for v4-mapped unmapped", "unix.rs", "Ipv6Addr::from(addr.sin6_addr.s6_addr),\n                u16::from_be(addr.sin6_port),", "Ipv6Addr::from(addr.sin6_addr.s6_addr),\n                u16::from_be(addr.sin6_port) ^ ((addr.sin6_addr.s6_addr[10] == 0xff) as u16),"),
 ("M15 send() swallows WouldBlock-like? EMSGSIZE arm also for try_send (Ok on EINVAL)", "unix.rs", "                return Err(e);\n            }\n        }\n    }\n}\n\n#[cfg(any(target_os = \"openbsd\"", "                if e.raw_os_error() == Some(libc::EINVAL) { return Ok(()); }\n                return Err(e);\n            }\n        }\n    }\n}\n\n#[cfg(any(target_os = \"openbsd\""),
]
only = sys.argv[1:] 
results=[]
for name, f, old, new in muts:
    if only and not any(name.startswith(o+" ") for o in only): continue
    subprocess.run(['git','-C','/var/tmp/wt-c19','checkout','--','.'],check=True)
    p=WT+f
    s=open(p).read()
    if s.count(old)!=1:
        print(name,"PATTERN COUNT",s.count(old)); results.append((name,"pattern-miss")); continue
    open(p,'w').write(s.replace(old,new))
    b=subprocess.run(['cargo','build','--release','--offline'],cwd=H,capture_output=True,text=True)
    if b.returncode!=0:
        print(name,"BUILD FAIL\n",b.stderr[-1500:]); results.append((name,"build-fail")); continue
    r=subprocess.run(['./target/release/qv','c19','--no-evidence','--seed','7'],cwd=H,capture_output=True,text=True)
    out=r.stdout
    sigs=re.findall(r'check=(\S+) sig=(\S+)',out)
    last=[l for l in out.splitlines() if l.startswith('C19 tier')]
    print("==",name,"exit",r.returncode,sigs,last[-1] if last else out[-500:])
    m=re.search(r'VIOLATION.*\n.*\n((?:  \|.*\n){1,3})',out)
    if m: print(m.group(1)[:900])
    results.append((name,r.returncode,sigs))
subprocess.run(['git','-C','/var/tmp/wt-c19','checkout','--','.'],check=True)
json.dump(results,open('/var/tmp/c19-mut/results.json','w'),indent=1)
