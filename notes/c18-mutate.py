#!/usr/bin/env python3
"""Apply one named mutation to the quinn worktree (after resetting it), build the mutant harness
and run the C18 quick tier; print the verdict line."""
import subprocess, sys, time, re

WT = "/var/tmp/wt-c18"
H = "/var/tmp/h-c18m"

M = {
 "M01-readable-no-wake": ("quinn/src/connection.rs",
    "Stream(StreamEvent::Readable { id }) => wake_stream(id, &mut self.blocked_readers),",
    "Stream(StreamEvent::Readable { id: _ }) => {}"),
 "M02-writable-no-wake": ("quinn/src/connection.rs",
    "Stream(StreamEvent::Writable { id }) => wake_stream(id, &mut self.blocked_writers),",
    "Stream(StreamEvent::Writable { id: _ }) => {}"),
 "M03-recv-drop-no-stop": ("quinn/src/recv_stream.rs",
    "        let _ = conn.inner.recv_stream(self.stream).stop(0u32.into());\n        conn.wake();\n    }\n}",
    "    }\n}"),
 "M04-send-drop-no-finish": ("quinn/src/send_stream.rs",
    "        match conn.inner.send_stream(self.stream).finish() {\n            Ok(()) => conn.wake(),",
    "        if true { return; }\n        match conn.inner.send_stream(self.stream).finish() {\n            Ok(()) => conn.wake(),"),
 "M05-last-handle-no-close": ("quinn/src/connection.rs",
    "            conn.implicit_close(&self.shared);",
    "            let _ = &conn;"),
 "M06-endpoint-no-repoll": ("quinn/src/endpoint.rs",
    "            if keep_going {\n                cx.waker().wake_by_ref();\n            }\n            Poll::Pending",
    "            let _ = keep_going;\n            Poll::Pending"),
 "M07-datagram-no-notify": ("quinn/src/connection.rs",
    "                DatagramReceived => {\n                    shared.datagram_received.notify_waiters();\n                }",
    "                DatagramReceived => {}"),
 "M08-opened-no-notify-bi": ("quinn/src/connection.rs",
    "                Stream(StreamEvent::Opened { dir: Dir::Bi }) => {\n                    shared.stream_incoming[Dir::Bi as usize].notify_waiters();\n                }",
    "                Stream(StreamEvent::Opened { dir: Dir::Bi }) => {}"),
 "M09-write-buffers-before-pending": ("quinn/src/send_stream.rs",
    "        poll_fn(|cx| self.execute_poll(cx, |s| s.write(buf))).await\n    }",
    "        let mut done = 0;\n        while done < buf.len() {\n            done += poll_fn(|cx| self.execute_poll(cx, |s| s.write(&buf[done..]))).await?;\n        }\n        Ok(done)\n    }"),
 "M10-timer-no-reset": ("quinn/src/connection.rs",
    "                delay.as_mut().reset(deadline);",
    "                let _ = &delay;"),
 "M11-send-datagram-no-wake": ("quinn/src/connection.rs",
    "        match conn.inner.datagrams().send(data, true) {\n            Ok(()) => {\n                conn.wake();\n                Ok(())",
    "        match conn.inner.datagrams().send(data, true) {\n            Ok(()) => {\n                Ok(())"),
 "M12-closed-no-notify": ("quinn/src/connection.rs",
    "        shared.closed.notify_waiters();\n        shared.connected.notify_waiters();",
    "        shared.connected.notify_waiters();"),
 "M13-recv-drop-keeps-blocked-reader": ("quinn/src/recv_stream.rs",
    "        // clean up any previously registered wakers\n        conn.blocked_readers.remove(&self.stream);\n\n        if conn.error.is_some() || (self.is_0rtt",
    "        if conn.error.is_some() || (self.is_0rtt"),
 "M14-endpoint-last-handle-no-wake": ("quinn/src/endpoint.rs",
    "        if let Some(task) = endpoint.driver.take() {\n            task.wake();\n        }\n    }\n}\n\nimpl std::ops::Deref for EndpointRef",
    "        let _ = endpoint;\n    }\n}\n\nimpl std::ops::Deref for EndpointRef"),
 "M15-endpoint-close-no-notify": ("quinn/src/endpoint.rs",
    "            });\n        }\n        self.inner.shared.incoming.notify_waiters();\n    }",
    "            });\n        }\n    }"),
 "M16-stopped-event-no-notify": ("quinn/src/connection.rs",
    "                Stream(StreamEvent::Stopped { id, .. }) => {\n                    wake_stream_notify(id, &mut self.stopped);",
    "                Stream(StreamEvent::Stopped { id, .. }) => {"),
 "M17-available-no-notify": ("quinn/src/connection.rs",
    "                    shared.stream_budget_available[dir as usize].notify_waiters();\n                }\n                Stream(StreamEvent::Finished",
    "                    let _ = dir;\n                }\n                Stream(StreamEvent::Finished"),
 "M18-finished-event-no-notify": ("quinn/src/connection.rs",
    "                Stream(StreamEvent::Finished { id }) => wake_stream_notify(id, &mut self.stopped),",
    "                Stream(StreamEvent::Finished { id: _ }) => {}"),
 "M19-terminate-no-wake-readers": ("quinn/src/connection.rs",
    "        wake_all(&mut self.blocked_writers);\n        wake_all(&mut self.blocked_readers);\n        shared.stream_budget_available[Dir::Uni as usize].notify_waiters();",
    "        wake_all(&mut self.blocked_writers);\n        shared.stream_budget_available[Dir::Uni as usize].notify_waiters();"),
 "M20-read-datagram-pops-two": ("quinn/src/connection.rs",
    "        if let Some(x) = state.inner.datagrams().recv() {\n            return Poll::Ready(Ok(x));",
    "        if let Some(x) = state.inner.datagrams().recv() {\n            let _ = state.inner.datagrams().recv();\n            return Poll::Ready(Ok(x));"),
 "M21-accept-incoming-no-notify": ("quinn/src/endpoint.rs",
    "        if !endpoint.recv_state.incoming.is_empty() {\n            self.0.shared.incoming.notify_waiters();\n        }",
    ""),
 "M23-read-keeps-partial-data-while-pending": ("quinn/src/recv_stream.rs",
    "        let this = self.get_mut();\n        ready!(this.stream.poll_read_buf(cx, &mut this.buf))?;\n        match this.buf.filled().len() {",
    "        let this = self.get_mut();\n        loop {\n            let before = this.buf.filled().len();\n            ready!(this.stream.poll_read_buf(cx, &mut this.buf))?;\n            if this.buf.remaining() == 0 || this.buf.filled().len() == before {\n                break;\n            }\n        }\n        match this.buf.filled().len() {"),
 "M27-endpoint-close-no-conn-close": ("quinn/src/endpoint.rs",
    "        for sender in endpoint.recv_state.connections.senders.values() {\n            // Ignoring errors from dropped connections\n            let _ = sender.send(ConnectionEvent::Close {\n                error_code,\n                reason: reason.clone(),\n            });\n        }\n        self.inner.shared.incoming.notify_waiters();",
    "        self.inner.shared.incoming.notify_waiters();"),
 "M28-idle-no-notify": ("quinn/src/endpoint.rs",
    "                if self.recv_state.connections.is_empty() {\n                    shared.idle.notify_waiters();\n                }",
    ""),
 "M29-send-drop-keeps-blocked-writer": ("quinn/src/send_stream.rs",
    "        // clean up any previously registered wakers\n        conn.blocked_writers.remove(&self.stream);\n",
    ""),
 "M30-datagrams-unblocked-no-notify": ("quinn/src/connection.rs",
    "                DatagramsUnblocked => {\n                    shared.datagrams_unblocked.notify_waiters();\n                }",
    "                DatagramsUnblocked => {}"),
 "M22-conn-driver-no-repoll": ("quinn/src/connection.rs",
    "            if keep_going {\n                // If the connection hasn't processed all tasks, schedule it again\n                cx.waker().wake_by_ref();\n            } else {\n                conn.driver = Some(cx.waker().clone());\n            }",
    "            let _ = keep_going;\n            conn.driver = Some(cx.waker().clone());"),
}

def sh(cmd, **kw):
    return subprocess.run(cmd, shell=True, capture_output=True, text=True, **kw)

def main():
    name = sys.argv[1]
    scale = sys.argv[2] if len(sys.argv) > 2 else "1"
    seed = sys.argv[3] if len(sys.argv) > 3 else "1"
    sh(f"git -C {WT} checkout -- .")
    if name != "BASE":
        f, old, new = M[name]
        p = f"{WT}/{f}"
        s = open(p).read()
        assert s.count(old) == 1, f"{name}: pattern occurs {s.count(old)} times"
        open(p, "w").write(s.replace(old, new))
    b = sh(f"cd {H} && CARGO_NET_OFFLINE=true cargo build --release --offline 2>&1 | grep -E '^error' -A 12")
    if b.stdout.strip():
        print(name, "BUILD FAILED\n", b.stdout[:2000]); return
    t = time.time()
    r = sh(f"cd {H} && ./target/release/qv c18 --seed {seed} --scale {scale} --no-evidence 2>&1")
    dt = time.time() - t
    out = r.stdout
    sig = re.search(r"sig=(\S+)", out)
    fin = [l for l in out.splitlines() if l.startswith("C18 tier")]
    msg = [l for l in out.splitlines() if l.startswith("  | ")][:1]
    print(f"{name}: {'CAUGHT ' + sig.group(1) if sig else 'not caught'} in {dt:.1f}s :: {fin[0] if fin else ''}")
    if msg: print("    ", msg[0][:300])
    sh(f"git -C {WT} checkout -- .")

main()
