//! C06 — a receiver enforces its own limits and buffers a bounded amount.
//!
//! Victim: an unmodified quinn endpoint (server or client role) whose application is operated by
//! the check step by step. Peer: the harness puppet (`puppet.rs`), which probes every limit the
//! victim advertised from one below to one above. A reference model written from RFC 9000 §4
//! (flow control, stream limits, final size), RFC 9221 (DATAGRAM size) and the rustdoc of
//! `TransportConfig` classifies every frame the puppet sends:
//!   * `Accept`  — within everything the victim put on the wire: the connection must stay open;
//!   * `Close(codes)` — beyond what the victim could possibly have granted (advertised limit and
//!     consumed + configured window): the connection must close with one of `codes`;
//!   * `Either(codes)` — between the two (credit the victim may hold internally but has not
//!     advertised yet): both outcomes are accepted, a closure must still use one of `codes`.
//! Further oracles: bytes returned by read()/recv() are bytes of accepted frames with the right
//! content; MAX_DATA / MAX_STREAM_DATA / MAX_STREAMS on the wire never exceed consumed-or-discarded
//! + configured window; buffered amounts (probe) stay within the windows.

use crate::app::{check_content, fill_content};
use crate::core::*;
use crate::puppet::PuppetTp;
use crate::pw::PW;
use crate::simnet::NetSpec;
use crate::spec::TcSpec;
use crate::wire::{self, Frame};
use proptest::prelude::*;
use quinn_proto::{ConnectionError, Dir, ReadError, Side, StreamId, VarInt};
use serde::{Deserialize, Serialize};
use std::collections::BTreeMap;

pub const FLOW: u64 = 0x3;
pub const STREAM_LIMIT: u64 = 0x4;
pub const STREAM_STATE: u64 = 0x5;
pub const FINAL_SIZE: u64 = 0x6;
pub const FRAME_ENCODING: u64 = 0x7;
pub const PROTOCOL_VIOLATION: u64 = 0xa;
pub const CRYPTO_BUFFER_EXCEEDED: u64 = 0xd;

const KEY: u64 = 0x0c06;

#[derive(Serialize, Deserialize, Clone, Debug, PartialEq)]
pub enum StSel {
    /// puppet-initiated stream: existing/used index
    Mine { uni: bool, nth: u8 },
    /// puppet-initiated stream at (advertised stream limit + delta)
    MineAtLimit { uni: bool, delta: i8 },
    /// puppet-initiated stream with an enormous index
    MineHuge { uni: bool },
    /// n-th bidirectional stream the victim opened
    Theirs { nth: u8 },
}

#[derive(Serialize, Deserialize, Clone, Debug, PartialEq)]
pub enum EndSel {
    /// frame ends at the advertised stream limit + delta
    StreamLimit(i8),
    /// frame ends where the connection total reaches the advertised connection limit + delta
    ConnLimit(i8),
    /// contiguous with what was sent before
    Append,
    /// retransmission of old data (ends at or below the current end)
    Old,
    Abs(u32),
}

#[derive(Serialize, Deserialize, Clone, Debug, PartialEq)]
pub enum FinSel {
    AtEnd,
    BelowEnd,
    AboveEnd(u16),
    StreamLimit(i8),
    ConnLimit(i8),
}

#[derive(Serialize, Deserialize, Clone, Debug, PartialEq)]
pub enum Step {
    Stream { st: StSel, end: EndSel, len: u16, fin: bool },
    Reset { st: StSel, fin: FinSel },
    /// `n` one-byte STREAM frames at descending offsets below the stream limit
    Drip { st: StSel, n: u16 },
    Dgram { delta: i16, with_len: bool },
    /// a small DATAGRAM frame (fills the receive buffer with many entries)
    DgramSmall { len: u8 },
    Crypto { delta: i8, len: u16 },
    Read {
        st: StSel,
        max: u32,
        /// unordered read (from then on every read of the stream is unordered)
        #[serde(default)]
        unordered: bool,
    },
    Stop { st: StSel },
    FinishSend { st: StSel },
    SetRecvWindow(u32),
    SetMaxStreams { bidi: bool, n: u8 },
    RecvDgrams,
    VictimOpen,
}

#[derive(Serialize, Deserialize, Clone, Debug, PartialEq)]
pub struct Case {
    pub seed: u64,
    pub victim_client: bool,
    pub recv_window: u32,
    pub stream_window: u32,
    pub max_bidi: u8,
    pub max_uni: u8,
    pub dgram_buf: Option<u16>,
    pub crypto_buf: u16,
    pub steps: Vec<Step>,
}

#[derive(Clone, Debug, PartialEq)]
enum Expect {
    Accept,
    Either(Vec<u64>),
    Close(Vec<u64>),
}

impl Expect {
    fn join(self, o: Expect) -> Expect {
        use Expect::*;
        match (self, o) {
            (Accept, x) | (x, Accept) => x,
            (Close(mut a), Close(b)) | (Close(mut a), Either(b)) | (Either(b), Close(mut a)) => {
                a.extend(b);
                Close(a)
            }
            (Either(mut a), Either(b)) => {
                a.extend(b);
                Either(a)
            }
        }
    }
}

#[derive(Default, Clone, Debug)]
struct RS {
    /// highest offset received in accepted frames
    end: u64,
    fin: Option<u64>,
    reset: bool,
    read: u64,
    stopped: bool,
    /// the application saw the terminal outcome (end of stream or reset) or dropped its state
    terminal_read: bool,
    send_done: bool,
    /// the application has switched to unordered reads; `read` then counts consumed bytes and
    /// `delivered` holds what unordered reads returned
    unordered: bool,
    delivered: Vec<(u64, u64)>,
}

impl RS {
    /// bytes the application consumed or discarded (counted as early as any reading allows)
    fn credit_base(&self) -> u64 {
        if self.stopped || self.reset {
            self.end
        } else {
            self.read
        }
    }
    fn recv_terminal(&self) -> bool {
        self.terminal_read || (self.fin.is_some() && (self.reset || self.stopped || self.read >= self.fin.unwrap()))
    }
}

struct Model {
    puppet_is_server: bool,
    streams: BTreeMap<u64, RS>,
    data_recvd: u64,
    window: u64,
    window_max: u64,
    stream_window: u64,
    u_conn: u64,
    max_streams_cfg: [u64; 2],
    max_streams_cfg_max: [u64; 2],
    u_streams: [u64; 2],
    /// highest puppet-initiated stream index used so far + 1, per direction
    next_mine: [u64; 2],
    victim_opened: Vec<u64>,
    dgrams_legal: Vec<Vec<u8>>,
    dgram_seq: u64,
    crypto_gap_end: u64,
}

impl Model {
    fn consumed_total(&self) -> u64 {
        self.streams.values().map(|s| s.credit_base()).sum()
    }
    fn closed_early(&self, uni: bool) -> u64 {
        self.streams
            .iter()
            .filter(|(id, s)| self.is_mine(**id) && wire::sid_uni(**id) == uni && s.recv_terminal() && (uni || s.send_done))
            .count() as u64
    }
    fn is_mine(&self, id: u64) -> bool {
        wire::sid_server_initiated(id) == self.puppet_is_server
    }
    fn refresh(&mut self) {
        // a stopped stream's state is discarded as soon as its final size is known
        for s in self.streams.values_mut() {
            if s.stopped && s.fin.is_some() {
                s.terminal_read = true;
            }
        }
        self.u_conn = self.u_conn.max(self.consumed_total() + self.window);
        for d in 0..2 {
            let closed = self.closed_early(d == 1);
            self.u_streams[d] = self.u_streams[d].max(closed + self.max_streams_cfg[d]);
        }
    }
    fn u_stream(&self, id: u64, adv: u64) -> u64 {
        let base = self.streams.get(&id).map_or(0, |s| s.credit_base());
        adv.max(base + self.stream_window)
    }
}

fn code_name(c: u64) -> String {
    match c {
        0x1 => "INTERNAL_ERROR".into(),
        FLOW => "FLOW_CONTROL_ERROR".into(),
        STREAM_LIMIT => "STREAM_LIMIT_ERROR".into(),
        STREAM_STATE => "STREAM_STATE_ERROR".into(),
        FINAL_SIZE => "FINAL_SIZE_ERROR".into(),
        FRAME_ENCODING => "FRAME_ENCODING_ERROR".into(),
        PROTOCOL_VIOLATION => "PROTOCOL_VIOLATION".into(),
        CRYPTO_BUFFER_EXCEEDED => "CRYPTO_BUFFER_EXCEEDED".into(),
        x => format!("0x{x:x}"),
    }
}

struct Run<'a> {
    c: &'a Case,
    pw: PW,
    m: Model,
    labels: Vec<&'static str>,
    at_limit: bool,
    past_limit: bool,
    limit_moved: bool,
    closed_expected: bool,
    log: Vec<String>,
}

fn victim_tc(c: &Case) -> TcSpec {
    TcSpec {
        recv_window: c.recv_window as u64,
        stream_recv_window: c.stream_window as u64,
        max_bidi: c.max_bidi as u64,
        max_uni: c.max_uni as u64,
        dgram_recv: c.dgram_buf.map(|x| x as u32),
        crypto_buffer: c.crypto_buf as u32,
        idle_ms: None,
        keep_alive_ms: None,
        mtud: None,
        ..TcSpec::default()
    }
}

impl<'a> Run<'a> {
    fn sid(&self, uni: bool, idx: u64) -> u64 {
        wire::sid(self.m.puppet_is_server, uni, idx)
    }

    fn resolve(&self, st: &StSel) -> Option<u64> {
        match st {
            StSel::Mine { uni, nth } => {
                let d = *uni as usize;
                let n = self.m.next_mine[d];
                let mut idx = if n == 0 { 0 } else { *nth as u64 % (n + 1) };
                // stay below the advertised stream limit: legal by construction
                let adv = self.pw.p.lim.max_streams[d];
                if adv == 0 {
                    return None;
                }
                idx = idx.min(adv - 1);
                Some(self.sid(*uni, idx))
            }
            StSel::MineAtLimit { uni, delta } => {
                let adv = self.pw.p.lim.max_streams[*uni as usize];
                let idx = adv as i64 + *delta as i64;
                if idx < 0 {
                    return None;
                }
                Some(self.sid(*uni, idx as u64))
            }
            StSel::MineHuge { uni } => Some(self.sid(*uni, (1u64 << 60) - 1)),
            StSel::Theirs { nth } => {
                if self.m.victim_opened.is_empty() {
                    None
                } else {
                    Some(self.m.victim_opened[*nth as usize % self.m.victim_opened.len()])
                }
            }
        }
    }

    /// Stream-count classification of using puppet-initiated stream `id`
    fn classify_id(&self, id: u64) -> Expect {
        if !self.m.is_mine(id) {
            return Expect::Accept;
        }
        let d = wire::sid_uni(id) as usize;
        let idx = wire::sid_index(id);
        let adv = self.pw.p.lim.max_streams[d];
        if idx < adv {
            Expect::Accept
        } else if idx >= self.m.u_streams[d] {
            Expect::Close(vec![STREAM_LIMIT])
        } else {
            Expect::Either(vec![STREAM_LIMIT])
        }
    }

    /// Flow-control classification of raising stream `id`'s end to `new_end`
    fn classify_flow(&self, id: u64, new_end: u64) -> Expect {
        let cur = self.m.streams.get(&id).map_or(0, |s| s.end);
        if new_end <= cur {
            return Expect::Accept;
        }
        let delta = new_end - cur;
        let adv_s = self.pw.p.stream_limit(id);
        let adv_c = self.pw.p.lim.max_data;
        let us = self.m.u_stream(id, adv_s);
        let uc = self.m.u_conn.max(adv_c);
        if new_end > us || self.m.data_recvd + delta > uc {
            Expect::Close(vec![FLOW])
        } else if new_end <= adv_s && self.m.data_recvd + delta <= adv_c {
            Expect::Accept
        } else {
            Expect::Either(vec![FLOW])
        }
    }

    fn note_limits(&mut self, id: u64, new_end: u64) {
        let cur = self.m.streams.get(&id).map_or(0, |s| s.end);
        let adv_s = self.pw.p.stream_limit(id);
        let adv_c = self.pw.p.lim.max_data;
        let tot = self.m.data_recvd + new_end.saturating_sub(cur);
        if new_end == adv_s || tot == adv_c {
            self.at_limit = true;
        }
        if new_end == adv_s + 1 || tot == adv_c + 1 {
            self.past_limit = true;
        }
    }

    fn send_frames(&mut self, frames: &[Frame]) {
        let d = self.pw.p.packet(2, frames, 0);
        self.pw.send(d);
    }

    /// After a puppet frame: sync and compare the outcome with the expectation
    fn settle(&mut self, what: &str, expect: Expect) -> Result<bool, CaseOut> {
        if !self.pw.sync(2_000_000) {
            return Err(CaseOut::inconclusive("step limit"));
        }
        if let Some(v) = self.pw.w.viol.first() {
            return Err(CaseOut::fail(v.sig.clone(), v.msg.clone()));
        }
        let k = self.pw.vk.unwrap();
        let lost = self.pw.w.conns[k].app.lost_reasons.first().cloned();
        let wire_close = self.pw.p.closed.clone();
        let local_code = match &lost {
            Some(ConnectionError::TransportError(e)) => Some(u64::from(e.code)),
            Some(other) => {
                return Err(CaseOut::fail("c06/unexpected-loss", format!("after {what}: victim lost the connection with {other:?}\nlog: {:#?}", self.log)));
            }
            None => None,
        };
        if let (Some(lc), Some(wc)) = (local_code, &wire_close) {
            if wc.app || wc.code != lc {
                return Err(CaseOut::fail(
                    "c06/close-code-mismatch",
                    format!("after {what}: application sees {} but the CONNECTION_CLOSE on the wire carries {:?}", code_name(lc), wc),
                ));
            }
        }
        let closed = local_code.or(wire_close.as_ref().map(|w| w.code));
        self.log.push(format!("{what} expect {expect:?} -> closed {:?}", closed.map(code_name)));
        match (&expect, closed) {
            (Expect::Accept, None) => Ok(false),
            (Expect::Accept, Some(c)) => Err(CaseOut::fail(
                format!("c06/legal-frame-closed/{}", code_name(c)),
                format!("{what} is within every limit the victim advertised, yet the victim closed with {}\nlog: {:#?}", code_name(c), self.log),
            )),
            (Expect::Either(_), None) => Ok(false),
            (Expect::Either(codes), Some(c)) | (Expect::Close(codes), Some(c)) => {
                if codes.contains(&c) {
                    Ok(true)
                } else {
                    Err(CaseOut::fail(
                        format!("c06/wrong-error-code/{}", code_name(c)),
                        format!("{what}: expected one of {:?}, victim closed with {}\nlog: {:#?}", codes.iter().map(|c| code_name(*c)).collect::<Vec<_>>(), code_name(c), self.log),
                    ))
                }
            }
            (Expect::Close(codes), None) => Err(CaseOut::fail(
                format!("c06/over-limit-accepted/{}", code_name(codes[0])),
                format!(
                    "{what} exceeds what the victim can have granted (expected {:?}) but the connection stayed open\nlog: {:#?}",
                    codes.iter().map(|c| code_name(*c)).collect::<Vec<_>>(),
                    self.log
                ),
            )),
        }
    }

    /// Invariants over credit frames and buffers, after every step
    fn invariants(&mut self, what: &str) -> Result<(), CaseOut> {
        self.m.refresh();
        let p = &self.pw.p;
        let uc = self.m.u_conn;
        for (t, v) in &p.lim.max_data_log {
            if *v > uc {
                return Err(CaseOut::fail(
                    "c06/credit/max-data-beyond-consumed",
                    format!("after {what}: MAX_DATA {v} at t={t} but consumed-or-discarded {} + window {} = {}\nlog: {:#?}", self.m.consumed_total(), self.m.window, uc, self.log),
                ));
            }
        }
        for (t, id, v) in &p.lim.msd_log {
            let us = self.m.u_stream(*id, 0).max(self.stream_initial(*id));
            if *v > us {
                return Err(CaseOut::fail(
                    "c06/credit/max-stream-data-beyond-consumed",
                    format!("after {what}: MAX_STREAM_DATA(stream {id}) {v} at t={t} but consumed-or-discarded + stream window = {us}\nlog: {:#?}", self.log),
                ));
            }
        }
        for (t, bidi, v) in &p.lim.max_streams_log {
            let d = if *bidi { 0 } else { 1 };
            if *v > self.m.u_streams[d] {
                return Err(CaseOut::fail(
                    "c06/credit/max-streams-beyond-closed",
                    format!("after {what}: MAX_STREAMS({}) {v} at t={t} but closed {} + configured {} \nlog: {:#?}", if *bidi { "bidi" } else { "uni" }, self.m.closed_early(!*bidi), self.m.max_streams_cfg_max[d], self.log),
                ));
            }
        }
        self.pw.p.lim.max_data_log.clear();
        self.pw.p.lim.msd_log.clear();
        self.pw.p.lim.max_streams_log.clear();
        // buffers
        let k = self.pw.vk.unwrap();
        let pr = self.pw.w.conns[k].c.verif_probe();
        let unread: u64 = self.m.data_recvd.saturating_sub(self.m.streams.values().map(|s| s.read).sum::<u64>());
        let open = pr.streams.recv_entries.max(1) as u64;
        // unique unread bytes are bounded by what flow control allowed; allocation overhead is bounded
        // by the assembler's documented defragmentation threshold (32 KiB or 1.5x per stream) plus
        // one packet per stream
        let bound = unread * 5 / 2 + open * (32768 + 1500);
        // (`allocated` is quinn's own estimate and counts the packet once per piece kept from it; a frame
        // that an unordered stream cuts into many pieces around data it already has is counted many
        // times over until the next arrival, although the pieces share one buffer: with unordered
        // streams the bytes actually held are bounded instead)
        let held = if self.m.streams.values().any(|s| s.unordered) { pr.streams.recv_buffered } else { pr.streams.recv_allocated };
        if held as u64 > bound {
            return Err(CaseOut::fail(
                "c06/buffer/stream-allocation",
                format!("after {what}: receive assemblers hold {} allocated bytes ({} buffered) for {} unread bytes on {} streams (bound {bound})", pr.streams.recv_allocated, pr.streams.recv_buffered, unread, open),
            ));
        }
        if pr.datagram_incoming == 0 && pr.datagram_recv_buffered != 0 {
            return Err(CaseOut::fail("c06/buffer/datagram-accounting", format!("after {what}: no datagram is waiting for the application but {} bytes of the datagram receive buffer are accounted as used", pr.datagram_recv_buffered)));
        }
        if let Some(cap) = self.c.dgram_buf {
            if pr.datagram_recv_buffered > cap as usize {
                return Err(CaseOut::fail(
                    "c06/buffer/datagrams",
                    format!("after {what}: {} bytes of received datagrams buffered, configured datagram_receive_buffer_size {cap}", pr.datagram_recv_buffered),
                ));
            }
        }
        // duplicates count until the assembler defragments (documented threshold: 32 KiB or 1.5x the unique bytes)
        if pr.crypto_buffered.iter().any(|b| *b > self.c.crypto_buf as usize * 5 / 2 + 32768 + 1500) {
            return Err(CaseOut::fail("c06/buffer/crypto", format!("after {what}: crypto buffers {:?}, configured crypto_buffer_size {}", pr.crypto_buffered, self.c.crypto_buf)));
        }
        Ok(())
    }

    fn stream_initial(&self, id: u64) -> u64 {
        self.pw.p.initial_stream_limit(id)
    }

    fn apply_stream_effect(&mut self, id: u64, new_end: u64, fin: bool) {
        let mine = self.m.is_mine(id);
        if mine {
            let d = wire::sid_uni(id) as usize;
            self.m.next_mine[d] = self.m.next_mine[d].max(wire::sid_index(id) + 1);
        }
        let s = self.m.streams.entry(id).or_default();
        if new_end > s.end {
            self.m.data_recvd += new_end - s.end;
            s.end = new_end;
        }
        if fin && s.fin.is_none() {
            s.fin = Some(new_end);
        }
    }

    fn step(&mut self, i: usize, st: &Step) -> Result<bool, CaseOut> {
        let what = format!("step {i} {st:?}");
        self.m.refresh();
        match st {
            Step::Stream { st, end, len, fin } => {
                let Some(id) = self.resolve(st) else { return Ok(false) };
                let cur = self.m.streams.get(&id).cloned().unwrap_or_default();
                let adv_s = self.pw.p.stream_limit(id);
                let adv_c = self.pw.p.lim.max_data;
                let new_end: i128 = match end {
                    EndSel::StreamLimit(d) => adv_s as i128 + *d as i128,
                    EndSel::ConnLimit(d) => cur.end as i128 + (adv_c as i128 - self.m.data_recvd as i128) + *d as i128,
                    EndSel::Append => {
                        // stay within the advertised limits (legal by construction)
                        let room_s = adv_s.saturating_sub(cur.end);
                        let room_c = adv_c.saturating_sub(self.m.data_recvd);
                        let fin_room = cur.fin.map_or(u64::MAX, |f| f.saturating_sub(cur.end));
                        cur.end as i128 + (*len as u64).min(room_s).min(room_c).min(fin_room) as i128
                    }
                    EndSel::Old => (cur.end as i128).min(*len as i128),
                    EndSel::Abs(a) => *a as i128,
                };
                if new_end < 0 || new_end > (1i128 << 40) {
                    return Ok(false);
                }
                let mut new_end = new_end as u64;
                // selectors that aim at or below one limit respect the other limits as well
                let aims_legal = matches!(end, EndSel::StreamLimit(d) | EndSel::ConnLimit(d) if *d <= 0);
                if aims_legal {
                    let legal_max = adv_s.min(cur.end + adv_c.saturating_sub(self.m.data_recvd)).min(cur.fin.unwrap_or(u64::MAX));
                    new_end = new_end.min(legal_max);
                }
                let len = (*len as u64).min(new_end).min(1000);
                let off = new_end - len;
                let mut data = vec![0u8; len as usize];
                fill_content(KEY, id, true, off, &mut data);
                // classification
                let mut ex = self.classify_id(id);
                // RFC 9000 section 4.5: errors for data at or beyond a final size learnt from RESET_STREAM are
                // a SHOULD ('generating these errors is not mandatory'); quinn drops such frames
                let lenient = cur.terminal_read || cur.reset;
                // final size rules
                let mut fs = Expect::Accept;
                if let Some(f) = cur.fin {
                    if new_end > f || (*fin && new_end != f) {
                        fs = Expect::Close(vec![FINAL_SIZE]);
                    }
                } else if *fin && new_end < cur.end {
                    fs = Expect::Close(vec![FINAL_SIZE]);
                }
                let mut fl = self.classify_flow(id, new_end);
                if cur.fin.is_some() && new_end > cur.fin.unwrap() {
                    // beyond a known final size: FINAL_SIZE_ERROR and FLOW_CONTROL_ERROR are both defensible
                    if let Expect::Close(c) | Expect::Either(c) = &mut fl {
                        c.push(FINAL_SIZE);
                    }
                    if let Expect::Close(c) = &mut fs {
                        c.push(FLOW);
                    }
                }
                ex = ex.join(fs).join(fl);
                if lenient {
                    // the application has observed the end of this stream: state may be gone (RFC 9000 §4.5 SHOULD)
                    ex = match ex {
                        Expect::Close(c) => Expect::Either(c),
                        x => x,
                    };
                }
                if !self.m.is_mine(id) && wire::sid_uni(id) {
                    return Ok(false);
                }
                self.note_limits(id, new_end);
                let legal = ex == Expect::Accept;
                self.send_frames(&[Frame::Stream { id, offset: off, data, fin: *fin, has_len: true, has_off: true }]);
                let closed = self.settle(&what, ex.clone())?;
                // frames for streams whose receiving half is over (reset seen / end observed) are dropped
                if !closed && !lenient && (legal || matches!(ex, Expect::Either(_))) {
                    self.apply_stream_effect(id, new_end, *fin);
                }
                self.labels.push("stream-frame");
                Ok(closed)
            }
            Step::Reset { st, fin } => {
                let Some(id) = self.resolve(st) else { return Ok(false) };
                if !self.m.is_mine(id) && wire::sid_uni(id) {
                    return Ok(false);
                }
                let cur = self.m.streams.get(&id).cloned().unwrap_or_default();
                let adv_s = self.pw.p.stream_limit(id);
                let adv_c = self.pw.p.lim.max_data;
                let fsz: i128 = match fin {
                    FinSel::AtEnd => cur.end as i128,
                    FinSel::BelowEnd => cur.end as i128 - 1,
                    FinSel::AboveEnd(n) => {
                        let room_s = adv_s.saturating_sub(cur.end);
                        let room_c = adv_c.saturating_sub(self.m.data_recvd);
                        cur.end as i128 + (*n as u64).min(room_s).min(room_c) as i128
                    }
                    FinSel::StreamLimit(d) => adv_s as i128 + *d as i128,
                    FinSel::ConnLimit(d) => cur.end as i128 + (adv_c as i128 - self.m.data_recvd as i128) + *d as i128,
                };
                if fsz < 0 || fsz > (1i128 << 40) {
                    return Ok(false);
                }
                let mut fsz = fsz as u64;
                if matches!(fin, FinSel::StreamLimit(d) | FinSel::ConnLimit(d) if *d <= 0) {
                    let legal_max = adv_s.min(cur.end + adv_c.saturating_sub(self.m.data_recvd));
                    fsz = fsz.min(legal_max).max(cur.end);
                    if let Some(f) = cur.fin {
                        fsz = f;
                    }
                }
                let mut ex = self.classify_id(id);
                let mut fs = Expect::Accept;
                if let Some(f) = cur.fin {
                    if fsz != f {
                        fs = Expect::Close(vec![FINAL_SIZE]);
                    }
                } else if fsz < cur.end {
                    fs = Expect::Close(vec![FINAL_SIZE]);
                }
                let mut fl = self.classify_flow(id, fsz);
                if fs != Expect::Accept {
                    if let Expect::Close(c) | Expect::Either(c) = &mut fl {
                        c.push(FINAL_SIZE);
                    }
                    if let (Expect::Close(c), false) = (&mut fs, fl == Expect::Accept) {
                        c.push(FLOW);
                    }
                }
                ex = ex.join(fs).join(fl);
                if cur.terminal_read {
                    ex = match ex {
                        Expect::Close(c) => Expect::Either(c),
                        x => x,
                    };
                }
                self.note_limits(id, fsz);
                self.send_frames(&[Frame::ResetStream { id, code: 7, final_size: fsz }]);
                let closed = self.settle(&what, ex.clone())?;
                if !closed && !cur.terminal_read && !cur.reset {
                    self.apply_stream_effect(id, fsz, true);
                    if let Some(s) = self.m.streams.get_mut(&id) {
                        if s.fin == Some(fsz) {
                            s.reset = true;
                        }
                    }
                }
                self.labels.push("reset-frame");
                Ok(closed)
            }
            Step::Drip { st, n } => {
                let Some(id) = self.resolve(st) else { return Ok(false) };
                if !self.m.is_mine(id) && wire::sid_uni(id) {
                    return Ok(false);
                }
                if self.classify_id(id) != Expect::Accept {
                    return Ok(false);
                }
                let cur = self.m.streams.get(&id).cloned().unwrap_or_default();
                if cur.fin.is_some() {
                    return Ok(false);
                }
                let adv_s = self.pw.p.stream_limit(id);
                let room_c = self.pw.p.lim.max_data.saturating_sub(self.m.data_recvd);
                let top = adv_s.min(cur.end + room_c);
                if top <= cur.end + 2 {
                    return Ok(false);
                }
                // odd offsets descending from top: every byte stays buffered behind a gap
                let mut frames = vec![];
                let mut off = top - 1;
                let mut sent = 0;
                while off > cur.end + 1 && sent < *n {
                    let mut b = [0u8; 1];
                    fill_content(KEY, id, true, off, &mut b);
                    frames.push(Frame::Stream { id, offset: off, data: b.to_vec(), fin: false, has_len: true, has_off: true });
                    if off < 2 {
                        break;
                    }
                    off -= 2;
                    sent += 1;
                }
                for chunk in frames.chunks(100) {
                    self.send_frames(chunk);
                }
                let closed = self.settle(&what, Expect::Accept)?;
                if !closed {
                    self.apply_stream_effect(id, top, false);
                }
                self.labels.push("drip");
                Ok(closed)
            }
            Step::Dgram { delta, with_len } => {
                let limit = self.pw.p.peer_tp.as_ref().and_then(|t| t.int(0x20));
                let target = limit.unwrap_or(100) as i64 + *delta as i64;
                if target < 1 || target > 1350 {
                    return Ok(false);
                }
                // frame size = type + optional length + payload
                let target = target as usize;
                let payload = if *with_len {
                    if target < 2 {
                        return Ok(false);
                    }
                    let mut pl = target - 2;
                    if wire::var_len(pl as u64) == 2 {
                        if pl == 0 {
                            return Ok(false);
                        }
                        pl -= 1;
                    }
                    pl
                } else {
                    target - 1
                };
                let frame_size = 1 + if *with_len { wire::var_len(payload as u64) } else { 0 } + payload;
                self.m.dgram_seq += 1;
                let mut data = vec![0u8; payload];
                fill_content(KEY ^ 0xd9, self.m.dgram_seq, true, 0, &mut data);
                let ex = match limit {
                    None => Expect::Close(vec![PROTOCOL_VIOLATION]),
                    Some(l) if frame_size as u64 <= l => Expect::Accept,
                    Some(l) if payload as u64 > l => Expect::Close(vec![PROTOCOL_VIOLATION]),
                    Some(_) => Expect::Either(vec![PROTOCOL_VIOLATION]),
                };
                if let Some(l) = limit {
                    if frame_size as u64 == l {
                        self.at_limit = true;
                    }
                    if payload as u64 == l + 1 || frame_size as u64 == l + 1 {
                        self.past_limit = true;
                    }
                }
                if ex != Expect::Close(vec![PROTOCOL_VIOLATION]) {
                    self.m.dgrams_legal.push(data.clone());
                }
                self.send_frames(&[Frame::Datagram { data, has_len: *with_len }]);
                let closed = self.settle(&what, ex)?;
                self.labels.push("datagram-frame");
                Ok(closed)
            }
            Step::DgramSmall { len } => {
                let limit = self.pw.p.peer_tp.as_ref().and_then(|t| t.int(0x20));
                let payload = *len as usize;
                let frame_size = 2 + payload;
                self.m.dgram_seq += 1;
                let mut data = vec![0u8; payload];
                fill_content(KEY ^ 0xd9, self.m.dgram_seq, true, 0, &mut data);
                let ex = match limit {
                    None => Expect::Close(vec![PROTOCOL_VIOLATION]),
                    Some(l) if frame_size as u64 <= l => Expect::Accept,
                    Some(l) if payload as u64 > l => Expect::Close(vec![PROTOCOL_VIOLATION]),
                    Some(_) => Expect::Either(vec![PROTOCOL_VIOLATION]),
                };
                if ex != Expect::Close(vec![PROTOCOL_VIOLATION]) {
                    self.m.dgrams_legal.push(data.clone());
                }
                self.send_frames(&[Frame::Datagram { data, has_len: true }]);
                let closed = self.settle(&what, ex)?;
                self.labels.push("small-datagram-frame");
                Ok(closed)
            }
            Step::Crypto { delta, len } => {
                // out-of-order CRYPTO data in the application space, always behind a gap at offset 0
                let buf = self.c.crypto_buf as i64;
                let end = buf + *delta as i64;
                if end < 2 {
                    return Ok(false);
                }
                let end = end as u64;
                let len = (*len as u64).clamp(1, 1000).min(end - 1);
                let off = end - len;
                let ex = if end > self.c.crypto_buf as u64 { Expect::Close(vec![CRYPTO_BUFFER_EXCEEDED]) } else { Expect::Accept };
                if end == self.c.crypto_buf as u64 {
                    self.at_limit = true;
                }
                if end == self.c.crypto_buf as u64 + 1 {
                    self.past_limit = true;
                }
                self.m.crypto_gap_end = self.m.crypto_gap_end.max(end);
                self.send_frames(&[Frame::Crypto { offset: off, data: vec![0xcc; len as usize] }]);
                let closed = self.settle(&what, ex)?;
                self.labels.push("crypto-frame");
                Ok(closed)
            }
            Step::Read { st, max, unordered } => {
                let Some(id) = self.resolve(st) else { return Ok(false) };
                if !self.app_knows(id) {
                    return Ok(false);
                }
                self.accept_all()?;
                let k = self.pw.vk.unwrap();
                let sid = stream_id(id);
                let ordered = {
                    let s = self.m.streams.entry(id).or_default();
                    if *unordered && !s.unordered {
                        s.unordered = true;
                        // everything below the ordered read position has been delivered
                        s.delivered.push((0, s.read));
                    }
                    !s.unordered
                };
                let mut got: Vec<(u64, Vec<u8>)> = vec![];
                let mut outcome = "blocked";
                {
                    let c = &mut self.pw.w.conns[k].c;
                    let mut rs = c.recv_stream(sid);
                    let res = rs.read(ordered);
                    match res {
                        Ok(mut chunks) => {
                            let mut left = *max as usize;
                            loop {
                                if left == 0 {
                                    break;
                                }
                                match chunks.next(left) {
                                    Ok(Some(ch)) => {
                                        left -= ch.bytes.len().min(left);
                                        got.push((ch.offset, ch.bytes.to_vec()));
                                    }
                                    Ok(None) => {
                                        outcome = "finished";
                                        break;
                                    }
                                    Err(ReadError::Blocked) => break,
                                    Err(ReadError::Reset(_)) => {
                                        outcome = "reset";
                                        break;
                                    }
                                }
                            }
                            let _ = chunks.finalize();
                        }
                        Err(_) => outcome = "closed",
                    }
                }
                let s = self.m.streams.entry(id).or_default();
                for (off, b) in &got {
                    if !ordered {
                        let (lo, hi) = (*off, *off + b.len() as u64);
                        if let Some((a, z)) = s.delivered.iter().find(|(a, z)| lo < *z && *a < hi) {
                            return Err(CaseOut::fail("c06/read/duplicate", format!("{what}: unordered read returned bytes {lo}..{hi} of stream {id}, bytes {a}..{z} had been delivered before")));
                        }
                        s.delivered.push((lo, hi));
                    } else if *off != s.read {
                        return Err(CaseOut::fail("c06/read/offset", format!("{what}: ordered read returned offset {off}, expected {}", s.read)));
                    }
                    if *off + b.len() as u64 > s.end {
                        return Err(CaseOut::fail(
                            "c06/read/beyond-accepted-data",
                            format!("{what}: read returned bytes {off}..{} but accepted frames only cover ..{}", *off + b.len() as u64, s.end),
                        ));
                    }
                    if let Some(p) = check_content(KEY, id, true, *off, b) {
                        return Err(CaseOut::fail("c06/read/content", format!("{what}: byte {} of stream {id} differs from what the peer sent", *off + p as u64)));
                    }
                    s.read += b.len() as u64;
                }
                match outcome {
                    "finished" => {
                        if s.fin != Some(s.read) {
                            return Err(CaseOut::fail("c06/read/finished-early", format!("{what}: end of stream reported at {} but the final size is {:?}", s.read, s.fin)));
                        }
                        s.terminal_read = true;
                    }
                    "reset" => {
                        if !s.reset {
                            return Err(CaseOut::fail("c06/read/reset-unexpected", format!("{what}: read reports a reset but no accepted RESET_STREAM exists for stream {id}")));
                        }
                        s.terminal_read = true;
                    }
                    "closed" => {
                        // a stopped stream reports ClosedStream although its flow control state lives on
                        if !s.stopped {
                            s.terminal_read = true;
                        }
                    }
                    _ => {}
                }
                if !got.is_empty() {
                    self.limit_moved = true;
                    self.labels.push(if ordered { "read" } else { "read-unordered" });
                }
                self.pw.touch();
                if !self.pw.sync(2_000_000) {
                    return Err(CaseOut::inconclusive("step limit"));
                }
                Ok(false)
            }
            Step::Stop { st } => {
                let Some(id) = self.resolve(st) else { return Ok(false) };
                if !self.app_knows(id) {
                    return Ok(false);
                }
                // applications learn remote stream ids through accept() only
                self.accept_all()?;
                let k = self.pw.vk.unwrap();
                let r = self.pw.w.conns[k].c.recv_stream(stream_id(id)).stop(VarInt::from_u32(9));
                if r.is_ok() {
                    let s = self.m.streams.entry(id).or_default();
                    s.stopped = true;
                    self.limit_moved = true;
                    self.labels.push("stop");
                }
                self.pw.touch();
                if !self.pw.sync(2_000_000) {
                    return Err(CaseOut::inconclusive("step limit"));
                }
                Ok(false)
            }
            Step::FinishSend { st } => {
                let Some(id) = self.resolve(st) else { return Ok(false) };
                if wire::sid_uni(id) {
                    return Ok(false);
                }
                if !self.app_knows(id) {
                    return Ok(false);
                }
                self.accept_all()?;
                let k = self.pw.vk.unwrap();
                let r = self.pw.w.conns[k].c.send_stream(stream_id(id)).finish();
                if r.is_ok() {
                    self.m.streams.entry(id).or_default().send_done = true;
                    self.labels.push("finish-send");
                }
                self.pw.touch();
                if !self.pw.sync(2_000_000) {
                    return Err(CaseOut::inconclusive("step limit"));
                }
                Ok(false)
            }
            Step::SetRecvWindow(v) => {
                let k = self.pw.vk.unwrap();
                self.pw.w.conns[k].c.set_receive_window(VarInt::from_u32(*v));
                self.m.window = *v as u64;
                self.m.window_max = self.m.window_max.max(*v as u64);
                self.limit_moved = true;
                self.labels.push("set-receive-window");
                self.pw.touch();
                if !self.pw.sync(2_000_000) {
                    return Err(CaseOut::inconclusive("step limit"));
                }
                Ok(false)
            }
            Step::SetMaxStreams { bidi, n } => {
                let k = self.pw.vk.unwrap();
                let dir = if *bidi { Dir::Bi } else { Dir::Uni };
                self.pw.w.conns[k].c.set_max_concurrent_streams(dir, VarInt::from_u32(*n as u32));
                let d = if *bidi { 0 } else { 1 };
                self.m.max_streams_cfg[d] = *n as u64;
                self.m.max_streams_cfg_max[d] = self.m.max_streams_cfg_max[d].max(*n as u64);
                self.limit_moved = true;
                self.labels.push("set-max-streams");
                self.pw.touch();
                if !self.pw.sync(2_000_000) {
                    return Err(CaseOut::inconclusive("step limit"));
                }
                Ok(false)
            }
            Step::RecvDgrams => {
                let k = self.pw.vk.unwrap();
                loop {
                    let d = self.pw.w.conns[k].c.datagrams().recv();
                    let Some(d) = d else { break };
                    // must be one of the accepted datagrams, in order
                    let pos = self.m.dgrams_legal.iter().position(|x| x[..] == d[..]);
                    match pos {
                        Some(p) => {
                            self.m.dgrams_legal.drain(..=p);
                        }
                        None => {
                            return Err(CaseOut::fail("c06/dgram/unknown", format!("{what}: recv() returned a {}-byte datagram that no accepted DATAGRAM frame carried (or out of order)", d.len())));
                        }
                    }
                    self.labels.push("recv-datagram");
                }
                Ok(false)
            }
            Step::VictimOpen => {
                let k = self.pw.vk.unwrap();
                let c = &mut self.pw.w.conns[k].c;
                if let Some(id) = c.streams().open(Dir::Bi) {
                    let _ = c.send_stream(id).write(b"hello");
                    self.m.victim_opened.push(u64::from(id));
                    self.labels.push("victim-opened-stream");
                }
                self.pw.touch();
                if !self.pw.sync(2_000_000) {
                    return Err(CaseOut::inconclusive("step limit"));
                }
                Ok(false)
            }
        }
    }

    /// Applications only operate on streams they opened or the peer opened (learnt through accept())
    fn app_knows(&self, id: u64) -> bool {
        if self.m.is_mine(id) {
            wire::sid_index(id) < self.m.next_mine[wire::sid_uni(id) as usize]
        } else {
            self.m.victim_opened.contains(&id)
        }
    }

    fn accept_all(&mut self) -> Result<(), CaseOut> {
        let k = self.pw.vk.unwrap();
        for (d, dir) in [(0usize, Dir::Bi), (1, Dir::Uni)] {
            let mut n = 0;
            loop {
                let id = self.pw.w.conns[k].c.streams().accept(dir);
                let Some(id) = id else { break };
                n += 1;
                if n > 100_000 {
                    return Err(CaseOut::fail("c06/accept/unbounded", "accept() keeps returning streams".to_string()));
                }
                if id.index() >= self.m.u_streams[d] {
                    return Err(CaseOut::fail(
                        "c06/accept/beyond-limit",
                        format!("accept() returned {id} whose index is beyond anything the victim can have granted ({})", self.m.u_streams[d]),
                    ));
                }
                if id.index() >= self.m.next_mine[d] {
                    return Err(CaseOut::fail("c06/accept/never-opened", format!("accept() returned {id} but the peer only used indices below {}", self.m.next_mine[d])));
                }
            }
        }
        Ok(())
    }

    /// After a closure: nothing from the violating frame is readable
    fn drain_after_close(&mut self) -> Result<(), CaseOut> {
        let k = self.pw.vk.unwrap();
        let ids: Vec<u64> = self.m.streams.keys().copied().collect();
        for id in ids {
            let s = self.m.streams.get(&id).cloned().unwrap();
            let c = &mut self.pw.w.conns[k].c;
            let mut rs = c.recv_stream(stream_id(id));
            let res = rs.read(true);
            if let Ok(mut chunks) = res {
                let mut read = s.read;
                while let Ok(Some(ch)) = chunks.next(usize::MAX) {
                    if ch.offset != read || ch.offset + ch.bytes.len() as u64 > s.end || check_content(KEY, id, true, ch.offset, &ch.bytes).is_some() {
                        let _ = chunks.finalize();
                        return Err(CaseOut::fail(
                            "c06/read/after-close-beyond-accepted-data",
                            format!("after the closure read() on stream {id} returned bytes {}..{} (accepted frames cover ..{}, content ok: {})", ch.offset, ch.offset + ch.bytes.len() as u64, s.end, check_content(KEY, id, true, ch.offset, &ch.bytes).is_none()),
                        ));
                    }
                    read += ch.bytes.len() as u64;
                }
                let _ = chunks.finalize();
            }
        }
        while let Some(d) = self.pw.w.conns[k].c.datagrams().recv() {
            if !self.m.dgrams_legal.iter().any(|x| x[..] == d[..]) {
                return Err(CaseOut::fail("c06/dgram/after-close-unknown", format!("after the closure recv() returned a {}-byte datagram no accepted frame carried", d.len())));
            }
        }
        Ok(())
    }
}

pub fn stream_id(v: u64) -> StreamId {
    crate::app::stream_id(v)
}

pub fn case(c: &Case) -> CaseOut {
    if c.crypto_buf < 256 {
        return CaseOut::discard("crypto buffer smaller than the handshake messages");
    }
    let mut spec = NetSpec::default();
    spec.seed = c.seed;
    let side = if c.victim_client { Side::Client } else { Side::Server };
    if c.victim_client {
        spec.client_tc = victim_tc(c);
    } else {
        spec.server_tc = victim_tc(c);
    }
    let mut pw = PW::new(spec, side, c.seed, 8, 12, PuppetTp::default());
    pw.w.record = false;
    pw.w.observe = false;
    pw.w.check_amp = false;
    pw.start();
    if !pw.sync(3_000_000) {
        return CaseOut::inconclusive("step limit");
    }
    // let HANDSHAKE_DONE / acks settle
    pw.sync(1_000_000);
    let Some(k) = pw.vk else {
        return CaseOut::fail("c06/harness/no-victim-connection", "the victim never created a connection for the puppet".to_string());
    };
    if !pw.w.conns[k].app.connected || !pw.p.established() {
        return CaseOut::fail(
            "c06/harness/handshake",
            format!("handshake with the puppet did not complete: victim connected={} lost={:?} puppet hs={} closed={:?}", pw.w.conns[k].app.connected, pw.w.conns[k].app.lost, pw.p.hs, pw.p.closed),
        );
    }
    let m = Model {
        puppet_is_server: c.victim_client,
        streams: BTreeMap::new(),
        data_recvd: 0,
        window: c.recv_window as u64,
        window_max: c.recv_window as u64,
        stream_window: c.stream_window as u64,
        u_conn: c.recv_window as u64,
        max_streams_cfg: [c.max_bidi as u64, c.max_uni as u64],
        max_streams_cfg_max: [c.max_bidi as u64, c.max_uni as u64],
        u_streams: [c.max_bidi as u64, c.max_uni as u64],
        next_mine: [0, 0],
        victim_opened: vec![],
        dgrams_legal: vec![],
        dgram_seq: 0,
        crypto_gap_end: 0,
    };
    let mut r = Run { c, pw, m, labels: vec![], at_limit: false, past_limit: false, limit_moved: false, closed_expected: false, log: vec![] };
    // the parameters the victim advertised must match its configuration
    {
        let tp = r.pw.p.peer_tp.clone().unwrap_or_default();
        let want = [(0x04u64, c.recv_window as u64), (0x08, c.max_bidi as u64), (0x09, c.max_uni as u64)];
        for (id, v) in want {
            if tp.int_or(id, 0) != v {
                return CaseOut::fail("c06/tp/advertised", format!("victim advertises parameter 0x{id:x} = {} but is configured with {v}", tp.int_or(id, 0)));
            }
        }
    }
    if let Err(o) = r.invariants("handshake") {
        return o;
    }
    let mut closed = false;
    let mut executed = 0;
    for (i, st) in c.steps.iter().enumerate() {
        executed += 1;
        match r.step(i, st) {
            Ok(cl) => {
                if let Err(o) = r.invariants(&format!("step {i} {st:?}")) {
                    return o;
                }
                if cl {
                    closed = true;
                    r.closed_expected = true;
                    break;
                }
            }
            Err(o) => return o,
        }
        // the victim must not have died for another reason
        let k = r.pw.vk.unwrap();
        if !r.pw.w.conns[k].app.lost.is_empty() && !closed {
            return CaseOut::fail("c06/unexpected-loss", format!("victim lost the connection outside a probing step: {:?}\nlog: {:#?}", r.pw.w.conns[k].app.lost, r.log));
        }
    }
    if closed {
        if let Err(o) = r.drain_after_close() {
            return o;
        }
        r.labels.push("closed-by-violation");
        let code = r.pw.p.closed.as_ref().map(|c| c.code).unwrap_or(0);
        r.labels.push(match code {
            FLOW => "closed:FLOW_CONTROL_ERROR",
            STREAM_LIMIT => "closed:STREAM_LIMIT_ERROR",
            FINAL_SIZE => "closed:FINAL_SIZE_ERROR",
            PROTOCOL_VIOLATION => "closed:PROTOCOL_VIOLATION",
            CRYPTO_BUFFER_EXCEEDED => "closed:CRYPTO_BUFFER_EXCEEDED",
            _ => "closed:other",
        });
        r.labels.push(match executed {
            0..=3 => "closed-after<=3-steps",
            4..=10 => "closed-after-4..10-steps",
            _ => "closed-after>10-steps",
        });
    }
    if r.pw.w.hit_step_limit {
        return CaseOut::inconclusive("step limit");
    }
    if let Some(v) = r.pw.w.viol.first() {
        return CaseOut::fail(v.sig.clone(), v.msg.clone());
    }
    if c.victim_client {
        r.labels.push("victim-client");
    } else {
        r.labels.push("victim-server");
    }
    if r.at_limit {
        r.labels.push("frame-exactly-at-limit");
    }
    if r.past_limit {
        r.labels.push("frame-one-past-limit");
    }
    if r.limit_moved {
        r.labels.push("limit-moved-by-application");
    }
    let nontrivial = r.at_limit && r.past_limit && r.limit_moved;
    r.labels.sort();
    r.labels.dedup();
    let summary = serde_json::json!({
        "steps_executed": executed, "closed": closed, "log_tail": r.log.iter().rev().take(4).collect::<Vec<_>>(),
        "windows": [c.recv_window, c.stream_window], "max_streams": [c.max_bidi, c.max_uni],
    });
    CaseOut { verdict: Verdict::Pass, labels: r.labels, nontrivial, summary: Some(summary) }
}

fn arb_delta() -> impl Strategy<Value = i8> {
    prop_oneof![8 => Just(-1i8), 8 => Just(0i8), 1 => Just(1i8)]
}

fn arb_stsel() -> impl Strategy<Value = StSel> {
    prop_oneof![
        12 => (any::<bool>(), 0u8..4).prop_map(|(uni, nth)| StSel::Mine { uni, nth }),
        4 => (any::<bool>(), prop_oneof![6 => Just(-2i8), 8 => Just(-1i8), 1 => Just(0i8), 1 => Just(1i8)]).prop_map(|(uni, delta)| StSel::MineAtLimit { uni, delta }),
        4 => (0u8..3).prop_map(|nth| StSel::Theirs { nth }),
    ]
}

fn arb_stsel_hostile() -> impl Strategy<Value = StSel> {
    prop_oneof![
        30 => arb_stsel(),
        1 => any::<bool>().prop_map(|uni| StSel::MineHuge { uni }),
    ]
}

fn arb_step() -> impl Strategy<Value = Step> {
    let end = prop_oneof![
        8 => arb_delta().prop_map(EndSel::StreamLimit),
        6 => arb_delta().prop_map(EndSel::ConnLimit),
        16 => Just(EndSel::Append),
        2 => Just(EndSel::Old),
        1 => (0u32..70_000).prop_map(EndSel::Abs),
    ];
    let fin = prop_oneof![
        6 => Just(FinSel::AtEnd),
        1 => Just(FinSel::BelowEnd),
        4 => (1u16..2000).prop_map(FinSel::AboveEnd),
        3 => arb_delta().prop_map(FinSel::StreamLimit),
        3 => arb_delta().prop_map(FinSel::ConnLimit),
    ];
    prop_oneof![
        20 => (arb_stsel_hostile(), end, prop_oneof![Just(1u16), 1u16..1000], prop::bool::weighted(0.15)).prop_map(|(st, end, len, fin)| Step::Stream { st, end, len, fin }),
        4 => (arb_stsel(), fin).prop_map(|(st, fin)| Step::Reset { st, fin }),
        2 => (arb_stsel(), 1u16..400).prop_map(|(st, n)| Step::Drip { st, n }),
        5 => (prop_oneof![4 => -3i16..=0, 1 => 1i16..=3], any::<bool>()).prop_map(|(delta, with_len)| Step::Dgram { delta, with_len }),
        4 => (0u8..60).prop_map(|len| Step::DgramSmall { len }),
        2 => (arb_delta(), 1u16..600).prop_map(|(delta, len)| Step::Crypto { delta, len }),
        14 => (arb_stsel(), prop_oneof![1u32..100, 100u32..100_000], prop::bool::weighted(0.2)).prop_map(|(st, max, unordered)| Step::Read { st, max, unordered }),
        3 => arb_stsel().prop_map(|st| Step::Stop { st }),
        2 => arb_stsel().prop_map(|st| Step::FinishSend { st }),
        2 => prop_oneof![0u32..2000, 2000u32..100_000].prop_map(Step::SetRecvWindow),
        2 => (any::<bool>(), 0u8..8).prop_map(|(bidi, n)| Step::SetMaxStreams { bidi, n }),
        2 => Just(Step::RecvDgrams),
        2 => Just(Step::VictimOpen),
    ]
}

pub fn arb_case() -> impl Strategy<Value = Case> {
    (
        any::<u64>(),
        prop::bool::weighted(0.35),
        prop_oneof![1u32..3000, 3000u32..60_000],
        prop_oneof![1u32..2000, 2000u32..30_000],
        prop_oneof![1 => Just(0u8), 8 => 1u8..6],
        prop_oneof![1 => Just(0u8), 8 => 1u8..6],
        prop_oneof![1 => Just(None), 8 => (20u16..1300).prop_map(Some)],
        prop_oneof![256u16..2000, 2000u16..16384],
        prop::collection::vec(arb_step(), 1..60),
    )
        .prop_map(|(seed, victim_client, recv_window, stream_window, max_bidi, max_uni, dgram_buf, crypto_buf, steps)| Case {
            seed,
            victim_client,
            recv_window,
            stream_window,
            max_bidi,
            max_uni,
            dgram_buf,
            crypto_buf,
            steps,
        })
}

pub fn run(report: &Report) -> i32 {
    report.assume("the puppet peer (puppet.rs) and the independent codec (wire.rs) are correct; SimCrypto only");
    report.assume("limits the victim enforces may exceed what it advertised by credit it already holds internally (consumed + window); frames in that band are accepted either way");
    run_prop(
        report,
        "c06",
        "proptest-generated scripts for a harness-written hostile peer and the victim's application: STREAM/RESET_STREAM ending at advertised stream/connection limit -1/0/+1, stream indices at MAX_STREAMS -2..+1 and 2^60, final-size changes, DATAGRAM frames at max_datagram_frame_size -3..+3 or when disabled, out-of-order CRYPTO up to crypto_buffer_size -1/0/+1, one-byte drip frames, interleaved with partial reads, stop, finish, set_receive_window, set_max_concurrent_streams on the victim; both roles; reference model classifies each frame (accept / either / must close with code); non-trivial = one frame exactly at a limit and one exactly one past it after a local read/stop/window change moved a limit",
        arb_case,
        report.cases(500_000, 20_000_000),
        case,
    );
    report.finish("generated-input search (proptest) with a hostile puppet peer against a flow-control/limits reference model")
}
