//! C17 — 0-RTT data is delivered once if accepted and vanishes if rejected.
//!
//! Every case is a world with two consecutive connections from one client endpoint to one server
//! endpoint. The first (fault free) provisions the session ticket and with it the transport
//! parameters the client remembers; the second starts its workload *before* `Connected` (streams of
//! both directions, writes up to the remembered credit, finishes, resets, datagrams, more opens than
//! the remembered stream limit allows) while the server accepts or rejects early data, answers with
//! Retry or not, holds the `Incoming` for a while (early packets pile up in the endpoint's incoming
//! buffer, also beyond `incoming_buffer_size`) and the link loses / duplicates / delays the early and
//! handshake datagrams. The server's transport parameters of the second connection differ from the
//! remembered ones (equal, larger; smaller only together with rejection).
//!
//! Oracles
//!  * accepted: the C01 content oracle over early + late writes (every byte read by the server
//!    application is checked against the keyed content function of (stream, direction, offset), no
//!    byte twice), every byte written early is eventually read by the server application, each early
//!    datagram at most once, `accepted_0rtt()` is true at the client;
//!  * rejected: the server application never obtains a byte or a datagram written early (early
//!    content is written under a distinct content key), `accepted_0rtt()` is false, at `Connected`
//!    every operation on an early stream handle fails with `ClosedStream`, the stream state is that of
//!    a fresh connection (numbering, credit, limits: probe + `open()` returning index 0 again), the
//!    observer's credit ledger restarted from the NEW parameters is respected from offset 0 by every
//!    1-RTT packet, no early datagram is re-sent, and a twin world whose client made no early attempt
//!    ends with the same application-level outcome;
//!  * accepted with reduced limits (a protocol error of the *server*): the client ends with a
//!    connection error; nothing else is asserted.

use super::xfer::*;
use crate::app::*;
use crate::core::*;
use crate::simcrypto::*;
use crate::simnet::*;
use crate::spec::*;
use crate::wire::PktType;
use bytes::Bytes;
use proptest::prelude::*;
use quinn_proto::{Connection, Dir, FinishError, ReadableError, VarInt, WriteError};
use serde::{Deserialize, Serialize};
use serde_json::json;
use std::cell::RefCell;
use std::collections::{BTreeMap, BTreeSet};
use std::rc::Rc;
use std::sync::atomic::{AtomicBool, AtomicU64, Ordering};
use std::sync::{Arc, Mutex};

/// Limits the server advertised in the first connection (what the ticket remembers)
#[derive(Clone, Debug, Serialize, Deserialize, PartialEq)]
pub struct Remembered {
    pub recv_window: u64,
    pub stream_recv_window: u64,
    pub max_bidi: u64,
    pub max_uni: u64,
    pub dgram_recv: Option<u32>,
}

impl Remembered {
    pub fn of(tc: &TcSpec) -> Self {
        Self { recv_window: tc.recv_window, stream_recv_window: tc.stream_recv_window, max_bidi: tc.max_bidi, max_uni: tc.max_uni, dgram_recv: tc.dgram_recv }
    }
    fn apply(&self, tc: &mut TcSpec) {
        tc.recv_window = self.recv_window;
        tc.stream_recv_window = self.stream_recv_window;
        tc.max_bidi = self.max_bidi;
        tc.max_uni = self.max_uni;
        tc.dgram_recv = self.dgram_recv;
    }
}

fn dg_limit(d: Option<u32>) -> Option<u64> {
    d.map(|x| (x as u64).min(65535))
}

/// Some remembered limit exceeds the new one (what `validate_resumption_from` must refuse)
pub fn reduced(rem: &Remembered, new: &TcSpec) -> bool {
    let cap = |v: u64| v.min((1 << 62) - 1);
    cap(rem.recv_window) > cap(new.recv_window)
        || cap(rem.stream_recv_window) > cap(new.stream_recv_window)
        || rem.max_bidi > new.max_bidi
        || rem.max_uni > new.max_uni
        || dg_limit(rem.dgram_recv) > dg_limit(new.dgram_recv)
}

/// One scenario. `x.net` describes the second connection: `x.net.server_tc` carries the NEW server
/// limits, `x.net.srv.accept_0rtt` the server's early-data policy.
#[derive(Clone, Debug, Serialize, Deserialize, PartialEq)]
pub struct Z {
    pub x: Xfer,
    pub rem: Remembered,
    /// how many of the client's streams (prefix of its list) are opened before the handshake
    /// completes; the others are opened at `Connected`
    pub early_streams: u8,
    /// this long after the second connection started, a datagram that ends in the stateless reset
    /// token the server had issued for the FIRST connection reaches the client from the server's
    /// address (the remembered transport parameters carry that token; it must be dead by now)
    #[serde(default)]
    pub stale_reset_at_us: Option<u32>,
}

// ---------------------------------------------------------------------------------------------
// Generation
// ---------------------------------------------------------------------------------------------

#[derive(Clone, Copy, Debug, PartialEq)]
pub enum Policy {
    Accept,
    Reject,
    /// accept although a limit was reduced (server-side protocol error)
    AcceptReduced,
}

fn xgen() -> XferGen {
    // share of real-TLS worlds in percent (QV_C17_RUSTLS overrides it for experiments)
    let rustls_share = std::env::var("QV_C17_RUSTLS").ok().and_then(|v| v.parse().ok()).unwrap_or(8);
    XferGen { max_streams: 5, max_total: 60_000, max_faults: 14, corrupt: false, aux_ops: 3, allow_close: false, mtu_steps: false, feasible: true, rustls_share, datagrams: false }
}

/// One limit relative to the new value `new`: equal, smaller (the interesting case: early writes
/// and opens run into the remembered credit) or larger (legal only with rejection)
fn arb_rel() -> impl Strategy<Value = (u8, u64)> {
    prop_oneof![
        3 => Just((0u8, 0u64)),
        4 => prop_oneof![Just(0u64), 1u64..4, 4u64..3000, 3000u64..100_000].prop_map(|v| (1u8, v)),
        2 => prop_oneof![1u64..4, 4u64..100_000].prop_map(|v| (2u8, v)),
    ]
}

fn rel(new: u64, r: (u8, u64)) -> u64 {
    match r.0 {
        0 => new,
        // smaller: an absolute small value, never above the new one
        1 => r.1.min(new),
        _ => new.saturating_add(r.1).min((1 << 62) - 1),
    }
}

/// Make a scenario well-formed for its policy (also applied to replayed scenarios: idempotent)
pub fn norm(mut z: Z, policy: Policy) -> Z {
    let net = &mut z.x.net;
    net.srv.accept_0rtt = policy != Policy::Reject;
    // known findings excluded by construction (see xfer.rs / c02.rs / c08.rs): padded ACK-only packets
    // exhaust the window; zero-length server CIDs + Retry duplicate the Incoming
    net.client_tc.pad_to_mtu = false;
    net.server_tc.pad_to_mtu = false;
    if net.server_ep.cid_len == 0 {
        net.srv.retry = false;
    }
    net.mtu_steps.clear();
    net.srv.retry_token_lifetime_ms = 4_000_000;
    net.srv.tokens_sent = 0;
    net.client_tc.idle_ms = None;
    net.server_tc.idle_ms = None;
    // the new limits are capped like the configuration setters do
    let cap = (1u64 << 62) - 1;
    z.rem.recv_window = z.rem.recv_window.min(cap);
    z.rem.stream_recv_window = z.rem.stream_recv_window.min(cap);
    match policy {
        Policy::Accept => {
            // a server that accepts early data must not reduce any remembered limit
            let new = &z.x.net.server_tc;
            z.rem.recv_window = z.rem.recv_window.min(new.recv_window);
            z.rem.stream_recv_window = z.rem.stream_recv_window.min(new.stream_recv_window);
            z.rem.max_bidi = z.rem.max_bidi.min(new.max_bidi);
            z.rem.max_uni = z.rem.max_uni.min(new.max_uni);
            if dg_limit(z.rem.dgram_recv) > dg_limit(new.dgram_recv) {
                z.rem.dgram_recv = new.dgram_recv;
            }
        }
        Policy::Reject => {}
        Policy::AcceptReduced => {
            if !reduced(&z.rem, &z.x.net.server_tc) {
                z.rem.max_uni = z.x.net.server_tc.max_uni + 1;
            }
        }
    }
    if z.x.net.crypto != CryptoKind::Sim {
        // frames are invisible under real TLS: the credit the client holds right after a rejection can
        // only be judged if the server application does not change its receive limits by itself
        z.x.server.ops.retain(|o| !matches!(o.op, AuxOp::SetRecvWindow(_) | AuxOp::SetMaxStreams { .. }));
    }
    z.early_streams = z.early_streams.min(z.x.client.streams.len() as u8);
    z
}

pub fn arb_z(policy: Policy) -> impl Strategy<Value = Z> {
    let g = xgen();
    let srv = (
        prop_oneof![2 => Just(false), 1 => Just(true)],
        prop_oneof![3 => Just(0u32), 2 => 1u32..60_000, 1 => 60_000u32..600_000],
        prop_oneof![3 => Just(10u32 << 20), 1 => Just(0u32), 2 => 1000u32..6000],
        prop_oneof![3 => Just(0u16), 1 => 0u16..6000],
    );
    // early datagrams: sent by timed ops that are due before the handshake can complete
    let early_dg = prop::collection::vec(
        (prop_oneof![3 => Just(0u32), 2 => 0u32..20_000], prop_oneof![4 => 8u16..1200, 1 => 1200u16..1500], any::<bool>())
            .prop_map(|(at_us, size, drop)| TimedOp { at_us, op: AuxOp::Datagram { size, drop } }),
        0..5,
    );
    // resets at arbitrary instants of the early phase (streams that are blocked on remembered credit)
    let early_reset = prop::collection::vec((0u32..40_000, any::<u8>(), 0u32..1000).prop_map(|(at_us, nth, code)| TimedOp { at_us, op: AuxOp::ResetOpen { nth, code } }), 0..3);
    let late_dg = prop::collection::vec(
        (0u32..2_000_000, 8u16..1300, any::<bool>()).prop_map(|(at_us, size, drop)| TimedOp { at_us, op: AuxOp::Datagram { size, drop } }),
        0..4,
    );
    (
        arb_xfer(g),
        srv,
        (arb_rel(), arb_rel(), arb_rel(), arb_rel(), prop_oneof![3 => Just(0u8), 1 => Just(1u8), 1 => Just(2u8)], prop::option::weighted(0.3, 0u32..400_000)),
        (early_dg, late_dg, prop_oneof![3 => Just(255u8), 1 => 0u8..4], arb_faults(10, false), arb_faults(8, false), prop_oneof![1 => Just(0u16), 1 => 3u16..40], early_reset),
    )
        .prop_map(move |(mut x, (retry, accept_delay_us, incoming_buffer, flight_pad), (r_data, r_stream, r_bidi, r_uni, r_dg, stale_reset_at_us), (early_dg, late_dg, early_streams, f_c2s, f_s2c, irtt, early_reset))| {
            x.client.ops.extend(early_reset);
            // the pacer admits one datagram per ~initial_rtt/12 before the first RTT sample: a short
            // initial RTT estimate lets the client emit a burst of 0-RTT packets
            if irtt != 0 {
                x.net.client_tc.initial_rtt_ms = irtt;
            }
            x.net.srv.retry = retry;
            x.net.srv.accept_delay_us = accept_delay_us;
            x.net.srv.incoming_buffer = if accept_delay_us > 0 { incoming_buffer } else { 10 << 20 };
            x.net.srv.flight_pad = flight_pad;
            // faults concentrate on the early and handshake datagrams
            x.net.faults_c2s = f_c2s;
            x.net.faults_s2c = f_s2c;
            x.client.ops.extend(early_dg);
            x.client.ops.extend(late_dg);
            let new = x.net.server_tc.clone();
            let rem = Remembered {
                recv_window: rel(new.recv_window, r_data),
                stream_recv_window: rel(new.stream_recv_window, r_stream),
                max_bidi: rel(new.max_bidi, r_bidi),
                max_uni: rel(new.max_uni, r_uni),
                dgram_recv: match r_dg {
                    0 => new.dgram_recv,
                    1 => None,
                    _ => Some(1_250_000),
                },
            };
            norm(Z { x, rem, early_streams, stale_reset_at_us }, policy)
        })
}

// ---------------------------------------------------------------------------------------------
// Running one world
// ---------------------------------------------------------------------------------------------

#[derive(Debug, Clone)]
pub struct EarlySt {
    pub id: u64,
    pub bidi: bool,
    pub written: u64,
    pub finished: bool,
    pub reset: bool,
}

/// What the client-side hook saw at `Connected`
#[derive(Debug, Default)]
pub struct HookOut {
    pub fired: u32,
    pub accepted: Option<bool>,
    pub early: Vec<EarlySt>,
    pub early_dgrams: BTreeSet<u64>,
    pub early_blocked_opens: u64,
    /// after a rejection: (connection-level credit, stream limits [bidi, uni]) the client holds
    pub credit_probe: Option<(u64, [u64; 2])>,
    pub accepted_mismatch: bool,
    pub viol: Vec<(String, String)>,
}

pub struct Run {
    pub w: World,
    /// connection indices of the second connection (server side may be missing)
    pub c: usize,
    pub s: Option<usize>,
    pub hook: Rc<RefCell<HookOut>>,
    pub completed: bool,
    /// not completed, nobody lost the connection, and 30 further virtual seconds on the clean link
    /// brought no application-level progress at all
    pub stalled: bool,
    pub viol: Vec<Viol>,
}

/// Application-level progress counter of the second connection
fn progress(w: &World) -> u64 {
    w.conns.iter().skip(2).map(|c| {
        let a = &c.app;
        a.stats.bytes_read
            + a.stats.dgram_recv
            + (a.opened[0] + a.opened[1]) as u64
            + a.recv.len() as u64
            + a.recv.values().filter(|r| r.terminal.is_some()).count() as u64
            + a.send.values().map(|s| s.written + s.finished_ev as u64 + s.done as u64).sum::<u64>()
            + a.connected as u64
    }).sum()
}

fn sid(id: u64) -> quinn_proto::StreamId {
    stream_id(id)
}

/// Everything the second connection must have done for its workload to count as complete
fn complete(w: &World, c: usize) -> bool {
    let Some(s) = w.conns[c].peer else { return false };
    let done = |k: usize| {
        let a = &w.conns[k].app;
        a.connected && a.outgoing_complete() && a.recv.values().all(|r| r.terminal.is_some()) && a.next_op_time().is_none()
    };
    let seen = |a: &App, fwd: bool| a.recv.values().filter(|r| r.fwd == fwd).count();
    done(c) && done(s) && seen(&w.conns[s].app, true) >= w.conns[c].app.mine.streams.len() && seen(&w.conns[c].app, true) >= w.conns[s].app.mine.streams.len()
}

fn fail(v: &mut Vec<(String, String)>, sig: &str, msg: String) {
    if v.len() < 8 {
        v.push((sig.to_string(), msg));
    }
}

/// The client-side hook run at `Connected`, before the application (re)starts its workload
fn make_hook(z: &Z, full: Vec<StreamSpec>, key: u64, out: Rc<RefCell<HookOut>>) -> Box<dyn FnMut(&mut App, &mut Connection)> {
    let new = z.x.net.server_tc.clone();
    let expect_accept = z.x.net.srv.accept_0rtt;
    Box::new(move |app: &mut App, c: &mut Connection| {
        let mut o = out.borrow_mut();
        o.fired += 1;
        if o.fired > 1 {
            fail(&mut o.viol, "c17/connected-twice", "the client reported Connected twice".into());
            return;
        }
        let accepted = c.accepted_0rtt();
        o.accepted = Some(accepted);
        o.early = app.send.iter().filter(|(_, s)| s.fwd).map(|(k, s)| {
            let l = app.ledger.borrow();
            EarlySt { id: *k, bidi: sid(*k).dir() == Dir::Bi, written: s.written, finished: l.finished.contains_key(&(*k, true)), reset: l.reset.contains_key(&(*k, true)) }
        }).collect();
        o.early_dgrams = app.ledger.borrow().dgrams_sent.iter().filter(|(_, v)| v.0).map(|(k, _)| *k).collect();
        o.early_blocked_opens = app.stats.open_blocked;
        o.accepted_mismatch = accepted != expect_accept;
        if !accepted {
            // (a) every early handle reports the rejection: operations fail as on a closed stream
            let early = o.early.clone();
            for e in &early {
                let id = sid(e.id);
                match c.send_stream(id).write(&[0x5a]) {
                    Err(WriteError::ClosedStream) => {}
                    other => fail(&mut o.viol, "c17/early-handle/write", format!("write on early stream {id} after the rejection returned {other:?} instead of ClosedStream")),
                }
                match c.send_stream(id).finish() {
                    Err(FinishError::ClosedStream) => {}
                    other => fail(&mut o.viol, "c17/early-handle/finish", format!("finish on early stream {id} after the rejection returned {other:?} instead of ClosedStream")),
                }
                if c.send_stream(id).reset(VarInt::from_u32(7)).is_ok() {
                    fail(&mut o.viol, "c17/early-handle/reset", format!("reset on early stream {id} after the rejection returned Ok instead of ClosedStream"));
                }
                if c.send_stream(id).stopped().is_ok() {
                    fail(&mut o.viol, "c17/early-handle/stopped", format!("stopped() on early stream {id} after the rejection returned Ok instead of ClosedStream"));
                }
                if e.bidi {
                    let mut rs = c.recv_stream(id);
                    match rs.read(true) {
                        Err(ReadableError::ClosedStream) => {}
                        Err(other) => fail(&mut o.viol, "c17/early-handle/read", format!("read on early stream {id} after the rejection returned {other:?} instead of ClosedStream")),
                        Ok(mut ch) => {
                            let r = ch.next(usize::MAX);
                            let _ = ch.finalize();
                            fail(&mut o.viol, "c17/early-handle/read", format!("read on early stream {id} after the rejection returned a readable stream ({:?}) instead of ClosedStream", r.map(|x| x.map(|c| c.bytes.len()))));
                        }
                    }
                    if c.recv_stream(id).stop(VarInt::from_u32(7)).is_ok() {
                        fail(&mut o.viol, "c17/early-handle/stop", format!("stop on early stream {id} after the rejection returned Ok instead of ClosedStream"));
                    }
                }
            }
            // (b) stream state of a fresh connection, limits from the NEW parameters
            let p = c.verif_probe();
            let st = &p.streams;
            let cap = (1u64 << 62) - 1;
            if st.next != [0, 0] {
                fail(&mut o.viol, "c17/fresh-state/next", format!("after the rejection the next locally initiated stream indices are {:?} (bidi, uni), expected [0, 0]", st.next));
            }
            if st.send_streams != 0 || c.streams().send_streams() != 0 {
                fail(&mut o.viol, "c17/fresh-state/send_streams", format!("after the rejection send_streams() = {} (internal {}), expected 0", c.streams().send_streams(), st.send_streams));
            }
            if st.data_sent != 0 {
                fail(&mut o.viol, "c17/fresh-state/data_sent", format!("after the rejection the connection-level sent offset is {}, expected 0", st.data_sent));
            }
            // judged after the run against the new parameters and the MAX_DATA / MAX_STREAMS frames the
            // server had sent by then
            o.credit_probe = Some((st.max_data, st.max));
            let _ = cap;
            if p.datagram_outgoing != 0 || p.datagram_outgoing_total != 0 {
                fail(&mut o.viol, "c17/fresh-state/datagrams-queued", format!("after the rejection {} early datagrams ({} bytes) are still queued for transmission", p.datagram_outgoing, p.datagram_outgoing_total));
            }
            if st.unacked_data != 0 {
                fail(&mut o.viol, "c17/fresh-state/unacked_data", format!("after the rejection {} bytes still count as unacknowledged against the send window ({}); all early streams are gone, a fresh connection has 0", st.unacked_data, st.send_window));
            }
            // (c) the application starts over, as on a fresh connection
            {
                let mut l = app.ledger.borrow_mut();
                let ids: Vec<u64> = l.dgrams_sent.iter().filter(|(_, v)| v.0).map(|(k, _)| *k).collect();
                for id in ids {
                    l.dgrams_sent.remove(&id);
                    l.early_dgram_ids.insert(id);
                }
                for e in &early {
                    l.written.remove(&(e.id, true));
                    l.finished.remove(&(e.id, true));
                    l.reset.remove(&(e.id, true));
                }
            }
            app.send.clear();
            app.recv.clear();
            app.opened = [0, 0];
            app.key = key;
            app.dgram_blocked_pending = false;
        }
        app.mine.streams = full.clone();
        app.peer_dgram_recv = new.dgram_recv.map(|x| (x as usize).min(65535));
        if accepted {
            // the new parameters may have raised limits: retry blocked writers
            let ids: Vec<u64> = app.send.iter().filter(|(_, s)| s.blocked).map(|(k, _)| *k).collect();
            for k in ids {
                app.write_stream(c, sid(k));
            }
        }
    })
}

/// The workload the client runs from `Connected` on. After a rejection (and in the twin) the stream
/// list is taken in reverse order, so that a stream id means something else than it meant before the
/// handshake completed: anything left over from the early attempt then shows at the server.
pub fn fresh_client(z: &Z) -> SideLoad {
    let mut l = z.x.client.clone();
    if !z.x.net.srv.accept_0rtt {
        l.streams.reverse();
    }
    l
}

/// Run the two connections. `early = false` gives the twin: no ticket, nothing before `Connected`.
pub fn run_world(z: &Z, early: bool) -> Result<Run, CaseOut> {
    let x = &z.x;
    // ---- first connection: provisions the ticket ---------------------------------------------
    let mut spec1 = x.net.clone();
    z.rem.apply(&mut spec1.server_tc);
    spec1.srv = SrvSpec { accept_0rtt: x.net.srv.accept_0rtt, ..SrvSpec::default() };
    spec1.faults_c2s.clear();
    spec1.faults_s2c.clear();
    spec1.latency_us = [1000, 1000];
    spec1.client_tc.keep_alive_ms = None;
    spec1.server_tc.keep_alive_ms = None;
    // (a pacing cap would delay the session tickets of real TLS beyond the lifetime of this connection)
    spec1.client_tc.pacing_bps = None;
    spec1.server_tc.pacing_bps = None;
    let mut w = World::new(spec1);
    w.check_amp = false;
    // (the first connection's trace is only needed to find the server's handshake CID)
    w.record = z.stale_reset_at_us.is_some();
    let mut scc = SimClientConfig::new();
    scc.use_tickets = early;
    w.sim_client_cfg = Arc::new(scc);
    // real TLS: the client's resumption store and the server's session store outlive the first
    // connection; the first server configuration permits early data (the ticket says so), the
    // second one accepts or rejects it through max_early_data_size
    let rustls = x.net.crypto == CryptoKind::Rustls;
    let sessions = crate::tls::server_sessions();
    if rustls {
        if early {
            w.client_crypto = Some(crate::tls::client_crypto());
        }
        let sc = crate::tls::server_crypto(true, sessions.clone());
        w.server_cfg_hook = Some(Rc::new(move |cfg: &mut quinn_proto::ServerConfig| cfg.crypto = sc.clone()));
        w.reconfigure_server();
    }
    let empty = ConnLoad { client: SideLoad::default(), server: SideLoad::default() };
    let c1 = match w.connect(CLIENT_EP, empty) {
        Ok(k) => k,
        Err(e) => return Err(CaseOut::discard(format!("first connect failed: {e:?}"))),
    };
    w.run(20_000_000, |w| w.conns.len() >= 2 && w.conns.iter().all(|c| c.app.connected));
    if !(w.conns.len() >= 2 && w.conns.iter().all(|c| c.app.connected && c.app.lost.is_empty())) {
        return Err(CaseOut::inconclusive("first connection did not complete"));
    }
    let t = w.now + 20_000;
    w.run(t, |_| false);
    {
        let now = w.now_instant();
        let cs = &mut w.conns[c1];
        cs.c.close(now, VarInt::from_u32(0), Bytes::new());
        cs.app.closed_locally = true;
        cs.closed_at = Some(w.now);
        cs.dirty = true;
    }
    let t = w.now + 120_000_000;
    w.run(t, |w| w.conns.iter().all(|c| c.gone));
    if !w.conns.iter().all(|c| c.gone) {
        return Err(CaseOut::inconclusive("first connection did not drain"));
    }
    let _ = w.collect_violations();
    // the reset token of the first connection's handshake CID (what the server put into its transport
    // parameters then)
    let stale_token: Option<[u8; 16]> = w.trace.iter().find_map(|r| match r {
        Rec::Tx { conn, dgrams, .. } if w.conns[*conn].side.is_server() => dgrams.iter().flat_map(|d| d.pkts.iter()).find(|p| !p.scid.is_empty()).map(|p| w.reset_token_for(SERVER_EP, &p.scid)),
        _ => None,
    });
    // ---- second connection -----------------------------------------------------------------------
    w.spec = x.net.clone();
    w.fault_i = [0, 0];
    w.faults_done_at = None;
    w.last_fault_at = w.now;
    w.stats = WorldStats::default();
    let mut ssc = SimServerConfig::new();
    ssc.accept_0rtt = x.net.srv.accept_0rtt;
    ssc.flight_pad = x.net.srv.flight_pad as usize;
    ssc.next_nonce = AtomicU64::new(1000);
    w.sim_server_cfg = Arc::new(ssc);
    if rustls {
        let sc = crate::tls::server_crypto(x.net.srv.accept_0rtt, sessions.clone());
        w.server_cfg_hook = Some(Rc::new(move |cfg: &mut quinn_proto::ServerConfig| cfg.crypto = sc.clone()));
    }
    w.reconfigure_server();
    w.record = true;
    w.trace.clear();
    w.hit_step_limit = false;
    w.step = 0;
    let c = match w.connect(CLIENT_EP, ConnLoad { client: fresh_client(z), server: x.server.clone() }) {
        Ok(k) => k,
        Err(e) => return Err(CaseOut::discard(format!("second connect failed: {e:?}"))),
    };
    let li = w.conns[c].load_idx;
    w.ledgers[li].borrow_mut().dg_model_enabled = false;
    let hook = Rc::new(RefCell::new(HookOut::default()));
    let has = w.conns[c].c.has_0rtt();
    if early {
        if !has {
            return Err(CaseOut::inconclusive("the client holds no 0-RTT keys although a ticket was provisioned"));
        }
        let cs = &mut w.conns[c];
        let key = cs.app.key;
        if !x.net.srv.accept_0rtt {
            // early content is written under a distinct key so that it is recognisable
            let ek = mix(key, 0xea71);
            cs.app.key = ek;
            cs.app.ledger.borrow_mut().early_key = Some(ek);
        }
        cs.app.early = true;
        cs.app.peer_dgram_recv = z.rem.dgram_recv.map(|v| (v as usize).min(65535));
        // early phase: a prefix of the client's list; after a rejection: `fresh_client`
        let full = cs.app.mine.streams.clone();
        cs.app.mine.streams = x.client.streams.iter().take(z.early_streams as usize).cloned().collect();
        cs.app.pre_connected = Some(make_hook(z, full, key, hook.clone()));
        cs.app.start(&mut cs.c);
    } else if has {
        return Err(CaseOut::inconclusive("twin client has 0-RTT keys"));
    }
    if let (Some(at), Some(tok)) = (z.stale_reset_at_us, stale_token) {
        // let the client emit its first flight (at this very instant) to learn its connection ID
        let t_now = w.now;
        w.run(t_now, |_| true);
        let scid: Vec<u8> = w
            .trace
            .iter()
            .find_map(|r| match r {
                Rec::Tx { conn, dgrams, .. } if *conn == c => dgrams.iter().flat_map(|d| d.pkts.iter()).find(|p| p.ty == crate::wire::PktType::Initial).map(|p| p.scid.clone()),
                _ => None,
            })
            .unwrap_or_default();
        let (to, from) = (w.eps[CLIENT_EP].addrs[0], w.eps[SERVER_EP].addrs[0]);
        let junk = |n: u64, salt: u64| (0..n).map(move |i| (mix(x.net.seed ^ salt, i) & 0xff) as u8);
        // (a) short header shaped
        let mut d = vec![0x41u8];
        d.extend_from_slice(&scid);
        d.extend(junk(45, 0x57a1e));
        d.extend_from_slice(&tok);
        w.inject(w.now + at as u64, to, from, d);
        // (b) Initial shaped, addressed to the client's connection ID: the client holds keys for that
        // space until the handshake is done
        let mut d = vec![0xc3u8, 0, 0, 0, 1, scid.len() as u8];
        d.extend_from_slice(&scid);
        d.push(0); // no source connection ID
        d.push(0); // no token
        let body: Vec<u8> = junk(60, 0x57a1f).chain(tok.iter().copied()).collect();
        crate::wire::put_var_len(&mut d, body.len() as u64, 2);
        d.extend_from_slice(&body);
        w.inject(w.now + at as u64 + 1, to, from, d);
    }
    let horizon = 60_000_000u64;
    let hard_end = w.now + 3_600_000_000;
    let mut completed = false;
    loop {
        let until = match w.faults_done_at {
            Some(t) => (t + horizon).min(hard_end),
            None => hard_end.min(w.now + horizon),
        };
        let (n0, s0) = (w.now, w.step);
        let ok = w.run(until, |w| complete(w, c) || w.conns.iter().skip(2).any(|k| !k.app.lost.is_empty()));
        if !ok || !w.viol.is_empty() {
            break;
        }
        if complete(&w, c) {
            completed = true;
            break;
        }
        if w.conns.iter().skip(2).any(|k| !k.app.lost.is_empty()) {
            // let the peer learn about it too (bounded)
            let t = w.now + 5_000_000;
            w.run(t, |w| w.conns.iter().skip(2).all(|k| !k.app.lost.is_empty()));
            break;
        }
        if w.now >= until || (w.now == n0 && w.step == s0 + 1) {
            break;
        }
    }
    let mut stalled = false;
    if !completed && w.viol.is_empty() && !w.hit_step_limit && w.conns.iter().skip(2).all(|k| k.app.lost.is_empty()) && w.faults_exhausted() {
        // "nothing moves any more" is only a fact once no loss-detection timer is left to fire: probe
        // timeouts keep the backoff of the handshake's loss episodes and may lie minutes ahead
        loop {
            let p0 = progress(&w);
            let t = (w.now + 30_000_000).min(hard_end);
            w.run(t, |w| complete(w, c) || w.conns.iter().skip(2).any(|k| !k.app.lost.is_empty()));
            if complete(&w, c) {
                completed = true;
                break;
            }
            if !w.viol.is_empty() || w.hit_step_limit || w.conns.iter().skip(2).any(|k| !k.app.lost.is_empty()) {
                break;
            }
            let timer_left = w.conns.iter().skip(2).any(|k| !k.gone && k.c.verif_probe().timers_armed.contains(&"LossDetection"));
            if progress(&w) == p0 && !timer_left {
                stalled = true;
                break;
            }
            if w.now >= hard_end {
                break;
            }
        }
    }
    let viol = w.collect_violations();
    let s = w.conns[c].peer;
    Ok(Run { w, c, s, hook, completed, stalled, viol })
}

// ---------------------------------------------------------------------------------------------
// Wire oracles (SimCrypto: frames are visible to the observer)
// ---------------------------------------------------------------------------------------------

#[derive(Default, Debug, Clone)]
struct Credit {
    max_data: u64,
    max_streams: [u64; 2], // [uni, bidi]
    initial_stream_limit: u64,
    stream_limit: BTreeMap<u64, u64>,
    highest: BTreeMap<u64, u64>,
    final_size: BTreeMap<u64, u64>,
}

impl Credit {
    fn from(recv_window: u64, stream: u64, max_uni: u64, max_bidi: u64) -> Self {
        Self { max_data: recv_window, max_streams: [max_uni, max_bidi], initial_stream_limit: stream, ..Self::default() }
    }
}

#[derive(Default, Debug)]
pub struct WireFacts {
    pub zero_rtt_pkts: u64,
    pub zero_rtt_dgrams: u64,
    pub early_stream_bytes: u64,
    pub early_dgram_frames: u64,
    pub early_fin: bool,
    pub early_reset: bool,
    pub hs_fault_c2s: bool,
    pub hs_lost: bool,
    pub hs_dup: bool,
    pub hs_delay: bool,
    pub hs_fault_s2c: bool,
    pub retry: bool,
    /// a STREAM range first sent in a 0-RTT packet was sent again in a 1-RTT packet
    pub early_resent_1rtt: bool,
    /// a STREAM range was sent in more than one 0-RTT packet (Retry / loss before the handshake)
    pub early_resent_0rtt: bool,
    pub zero_rtt_after_retry: bool,
    /// largest MAX_DATA / MAX_STREAMS (uni, bidi) the client advertised in 0-RTT and in 1-RTT packets
    pub credit_0rtt: [u64; 3],
    pub credit_1rtt: [u64; 3],
}

/// Check every packet the client of the second connection emitted against the credit ledger and
/// collect coverage facts. Returns the first violation.
fn check_wire(z: &Z, r: &Run) -> (Option<(String, String)>, WireFacts) {
    let w = &r.w;
    let c = r.c;
    let mut facts = WireFacts::default();
    let new = &z.x.net.server_tc;
    let rejected = !z.x.net.srv.accept_0rtt;
    let cap = (1u64 << 62) - 1;
    let mut early = Credit::from(z.rem.recv_window.min(cap), z.rem.stream_recv_window.min(cap), z.rem.max_uni, z.rem.max_bidi);
    // 1-RTT ledger: fresh from the new parameters after a rejection; continuing the early one
    // (limits raised to the new parameters, which must not be smaller) after an acceptance
    let mut late = Credit::from(new.recv_window.min(cap), new.stream_recv_window.min(cap), new.max_uni, new.max_bidi);
    let mut late_started = false;
    let mut dg: BTreeMap<u64, Vec<PktRec>> = BTreeMap::new();
    let mut early_ranges: BTreeMap<u64, Vec<(u64, u64)>> = BTreeMap::new();
    let early_ids = r.hook.borrow().early_dgrams.clone();
    let mut sent_in_0rtt: BTreeSet<u64> = BTreeSet::new();
    let mut retry_seen_at: Option<usize> = None;
    for (ti, rec) in w.trace.iter().enumerate() {
        match rec {
            Rec::TxEp { dgram, .. } => {
                if dgram.pkts.iter().any(|p| p.ty == PktType::Retry) {
                    facts.retry = true;
                    retry_seen_at.get_or_insert(ti);
                }
            }
            Rec::Tx { conn, dgrams, t, .. } if Some(*conn) == r.s || r.s.is_none() && *conn != c && *conn >= 2 => {
                for d in dgrams {
                    dg.insert(d.id, d.pkts.clone());
                    if d.fate != "deliver" && d.fate != "ecn" && d.pkts.iter().any(|p| matches!(p.ty, PktType::Initial | PktType::Handshake)) {
                        facts.hs_fault_s2c = true;
                    }
                }
                let _ = t;
            }
            Rec::Tx { conn, dgrams, t, .. } if *conn == c => {
                for d in dgrams {
                    let hs = d.pkts.iter().any(|p| matches!(p.ty, PktType::Initial | PktType::Handshake | PktType::ZeroRtt));
                    if hs {
                        match d.fate {
                            "drop" | "mtu-drop" => {
                                facts.hs_lost = true;
                                facts.hs_fault_c2s = true;
                            }
                            "dup" => {
                                facts.hs_dup = true;
                                facts.hs_fault_c2s = true;
                            }
                            "delay" => {
                                facts.hs_delay = true;
                                facts.hs_fault_c2s = true;
                            }
                            _ => {}
                        }
                    }
                    if d.pkts.iter().any(|p| p.ty == PktType::ZeroRtt) {
                        facts.zero_rtt_dgrams += 1;
                        if facts.retry {
                            facts.zero_rtt_after_retry = true;
                        }
                    }
                    for p in &d.pkts {
                        let zero = p.ty == PktType::ZeroRtt;
                        if zero {
                            facts.zero_rtt_pkts += 1;
                        }
                        if !(zero || p.ty == PktType::Short) {
                            continue;
                        }
                        let Some(frames) = &p.frames else { continue };
                        if !zero && !late_started {
                            late_started = true;
                            if !rejected {
                                // accepted: the same streams continue
                                late.highest = early.highest.clone();
                                late.final_size = early.final_size.clone();
                                late.max_data = late.max_data.max(early.max_data);
                                late.initial_stream_limit = late.initial_stream_limit.max(early.initial_stream_limit);
                                late.max_streams = [late.max_streams[0].max(early.max_streams[0]), late.max_streams[1].max(early.max_streams[1])];
                            }
                        }
                        let phase = if zero { "0-RTT" } else { "1-RTT" };
                        let which = if zero { "remembered" } else { "new" };
                        for f in frames {
                            let cr = if zero { &mut facts.credit_0rtt } else { &mut facts.credit_1rtt };
                            match f {
                                OF::MaxData(v) => cr[0] = cr[0].max(*v),
                                OF::MaxStreams { bidi, max } => cr[1 + *bidi as usize] = cr[1 + *bidi as usize].max(*max),
                                _ => {}
                            }
                            if zero {
                                match f {
                                    OF::Stream { len, fin, .. } => {
                                        facts.early_stream_bytes += *len as u64;
                                        facts.early_fin |= *fin;
                                    }
                                    OF::ResetStream { .. } => facts.early_reset = true,
                                    OF::Datagram { id, .. } => {
                                        facts.early_dgram_frames += 1;
                                        if let Some(id) = id {
                                            sent_in_0rtt.insert(*id);
                                        }
                                    }
                                    OF::Ack { .. } | OF::Crypto { .. } | OF::HandshakeDone | OF::NewToken { .. } | OF::PathResponse(_) | OF::RetireConnectionId(_) => {
                                        return (Some(("c17/illegal-frame-in-0rtt".into(), format!("t={t}: the client's 0-RTT packet {} carries {f:?}", p.pn))), facts);
                                    }
                                    _ => {}
                                }
                            } else if rejected {
                                if let OF::Datagram { id: Some(id), .. } = f {
                                    if early_ids.contains(id) {
                                        let (q, how) = if sent_in_0rtt.contains(id) { ("after-0rtt-transmission", "and which had already been transmitted in a 0-RTT packet") } else { ("queued-at-rejection", "and which was still queued (never transmitted) when the rejection arrived") };
                                        return (Some((format!("c17/early-datagram-resent@{q}"), format!("t={t}: after the rejection the client sent datagram {id}, which the application had handed over before the handshake completed {how}, in 1-RTT packet {}", p.pn))), facts);
                                    }
                                }
                            }
                            let l = if zero { &mut early } else { &mut late };
                            let (id, lo, end, is_reset) = match f {
                                OF::Stream { id, offset, len, .. } => (*id, *offset, offset + *len as u64, false),
                                OF::ResetStream { id, final_size, .. } => (*id, *final_size, *final_size, true),
                                _ => continue,
                            };
                            if !is_reset && end > lo {
                                let v = early_ranges.entry(id).or_default();
                                let overlap = v.iter().any(|&(a, b)| lo < b && a < end);
                                if zero {
                                    if overlap {
                                        facts.early_resent_0rtt = true;
                                    }
                                    v.push((lo, end));
                                } else if overlap && !rejected {
                                    facts.early_resent_1rtt = true;
                                }
                            }
                            let limit = l.stream_limit.get(&id).copied().unwrap_or(0).max(l.initial_stream_limit);
                            if end > limit {
                                return (Some((format!("c17/credit/stream-limit@{phase}"), format!("t={t}: {phase} frame {f:?} reaches offset {end} on stream {id}; the {which} stream limit (plus MAX_STREAM_DATA that reached the client) is {limit}"))), facts);
                            }
                            if is_reset {
                                let hi = l.highest.get(&id).copied().unwrap_or(0);
                                if end < hi {
                                    return (Some((format!("c17/credit/reset-final-size@{phase}"), format!("t={t}: RESET_STREAM final size {end} below the highest offset {hi} sent on stream {id} in this epoch"))), facts);
                                }
                                if let Some(prev) = l.final_size.insert(id, end) {
                                    if prev != end {
                                        return (Some((format!("c17/credit/final-size-changed@{phase}"), format!("t={t}: stream {id} final size {prev} then {end}"))), facts);
                                    }
                                }
                            }
                            let h = l.highest.entry(id).or_insert(0);
                            *h = (*h).max(end);
                            let total: u64 = l.highest.values().sum();
                            if total > l.max_data {
                                return (Some((format!("c17/credit/connection-limit@{phase}"), format!("t={t}: after {f:?} the sum of the highest offsets the client sent{} is {total}; the {which} connection limit (plus MAX_DATA that reached the client) is {}", if rejected && !zero { " since the rejection" } else { "" }, l.max_data))), facts);
                            }
                            if id & 1 == 0 {
                                let bidi = id & 2 == 0;
                                let idx = id >> 2;
                                if idx >= l.max_streams[bidi as usize] {
                                    return (Some((format!("c17/credit/stream-count@{phase}"), format!("t={t}: {phase} frame {f:?} uses client stream index {idx}; the {which} stream count limit (plus MAX_STREAMS that reached the client) is {}", l.max_streams[bidi as usize]))), facts);
                                }
                            }
                        }
                    }
                }
            }
            Rec::Rx { routed: Routed::Conn(k), dgram_id, corrupted: false, .. } if *k == c => {
                if let Some(pkts) = dg.get(dgram_id) {
                    for p in pkts {
                        let Some(frames) = &p.frames else { continue };
                        for f in frames {
                            match f {
                                OF::MaxData(v) => late.max_data = late.max_data.max(*v),
                                OF::MaxStreamData { id, max } => {
                                    let e = late.stream_limit.entry(*id).or_insert(0);
                                    *e = (*e).max(*max);
                                }
                                OF::MaxStreams { bidi, max } => {
                                    let e = &mut late.max_streams[*bidi as usize];
                                    *e = (*e).max(*max);
                                }
                                _ => {}
                            }
                        }
                    }
                }
            }
            _ => {}
        }
    }
    (None, facts)
}

// ---------------------------------------------------------------------------------------------
// Outcome (twin comparison)
// ---------------------------------------------------------------------------------------------

#[derive(Debug, PartialEq, Clone)]
pub struct StreamOut {
    pub bytes: u64,
    pub terminal: Option<&'static str>,
}

#[derive(Debug, Clone)]
pub struct Outcome {
    pub completed: bool,
    pub both_connected: bool,
    pub lost: Vec<String>,
    /// (reader is server, stream id, direction) -> outcome
    pub streams: BTreeMap<(bool, u64, bool), StreamOut>,
    pub opened: [[usize; 2]; 2],
}

fn outcome(r: &Run) -> Outcome {
    let w = &r.w;
    let mut streams = BTreeMap::new();
    let mut opened = [[0; 2]; 2];
    let mut lost = vec![];
    let mut both = r.s.is_some();
    for (i, k) in [Some(r.c), r.s].into_iter().enumerate() {
        let Some(k) = k else { continue };
        let a = &w.conns[k].app;
        both &= a.connected;
        opened[i] = a.opened;
        lost.extend(a.lost.iter().cloned());
        for (id, st) in &a.recv {
            streams.insert((i == 1, *id, st.fwd), StreamOut { bytes: st.bytes, terminal: st.terminal });
        }
    }
    Outcome { completed: r.completed, both_connected: both, lost, streams, opened }
}

fn spec_of(z: &Z, id: u64) -> Option<StreamSpec> {
    let fresh = fresh_client(z);
    let list = if id & 1 == 0 { &fresh.streams } else { &z.x.server.streams };
    let bidi = id & 2 == 0;
    list.iter().filter(|s| s.bidi == bidi).nth((id >> 2) as usize).cloned()
}

/// The client's workload changed its receive limits (set_receive_window / set_max_concurrent_streams)
/// before the client reported Connected
fn early_credit_op(z: &Z, r: &Run) -> bool {
    let start = r.w.conns[r.c].started_us;
    let connected_at = r.w.trace.iter().find_map(|rec| match rec {
        Rec::Ev { t, conn, ev } if *conn == r.c && ev == "Connected" => Some(*t),
        _ => None,
    });
    let Some(t) = connected_at else { return false };
    z.x.client.ops.iter().any(|o| matches!(o.op, AuxOp::SetRecvWindow(_) | AuxOp::SetMaxStreams { .. }) && o.at_us as u64 <= t - start)
}

fn compare_twin(z: &Z, main: &Outcome, twin: &Outcome) -> Option<(String, String)> {
    if main.opened != twin.opened {
        return Some(("c17/not-like-fresh/streams-opened".into(), format!("streams opened (client [uni, bidi], server [uni, bidi]): {:?} after the rejection, {:?} on a connection without an early attempt", main.opened, twin.opened)));
    }
    let ka: Vec<_> = main.streams.keys().collect();
    let kb: Vec<_> = twin.streams.keys().collect();
    if ka != kb {
        return Some(("c17/not-like-fresh/stream-ids".into(), format!("streams seen by the applications (reader is server, id, direction): {ka:?} after the rejection, {kb:?} on a connection without an early attempt")));
    }
    for (k, a) in &main.streams {
        let b = &twin.streams[k];
        // streams whose end depends on a race between sender and reader (reset / stop) are compared
        // by identity only
        let timed_reset = k.1 & 1 == 0 && z.x.client.ops.iter().any(|o| matches!(o.op, AuxOp::ResetOpen { .. }));
        let plain = if k.2 { !timed_reset && spec_of(z, k.1).is_some_and(|s| s.end == EndSpec::Finish && s.reader.stop.is_none()) } else { true };
        if plain && a != b {
            return Some(("c17/not-like-fresh/delivered-data".into(), format!("stream {} ({}): {:?} after the rejection, {:?} on a connection without an early attempt", k.1, if k.2 { "initiator to acceptor" } else { "response" }, a, b)));
        }
    }
    None
}

// ---------------------------------------------------------------------------------------------
// The case
// ---------------------------------------------------------------------------------------------

fn err_class(s: &str) -> &'static str {
    for c in [
        "PROTOCOL_VIOLATION",
        "FLOW_CONTROL_ERROR",
        "STREAM_LIMIT_ERROR",
        "STREAM_STATE_ERROR",
        "FINAL_SIZE_ERROR",
        "FRAME_ENCODING_ERROR",
        "TRANSPORT_PARAMETER_ERROR",
        "CONNECTION_ID_LIMIT_ERROR",
        "INVALID_TOKEN",
        "KEY_UPDATE_ERROR",
        "AEAD_LIMIT_REACHED",
        "INTERNAL_ERROR",
        "CRYPTO",
        "TimedOut",
        "Reset",
        "ApplicationClosed",
        "ConnectionClosed",
        "VersionMismatch",
        "LocallyClosed",
    ] {
        if s.contains(c) {
            return c;
        }
    }
    "other"
}

/// Error class plus, for protocol violations, the reason text (stable part of the signature)
fn err_sig(s: &str) -> String {
    let c = err_class(s);
    if c == "PROTOCOL_VIOLATION" {
        if let Some(i) = s.find("reason: ") {
            let rest = s[i + 8..].trim_start_matches('b').trim_start_matches('"');
            let reason: String = rest.chars().take_while(|c| *c != '"').take(48).map(|c| if c.is_ascii_alphanumeric() { c } else { '-' }).collect();
            return format!("{c}:{reason}");
        }
    }
    c.to_string()
}

fn describe(z: &Z, r: &Run) -> String {
    let w = &r.w;
    let mut s = format!(
        "policy: server {} early data, retry={}, accept_delay={}us, incoming_buffer={}, remembered {:?}, new [data {}, stream {}, bidi {}, uni {}, dgram {:?}]\n",
        if z.x.net.srv.accept_0rtt { "accepts" } else { "rejects" },
        z.x.net.srv.retry,
        z.x.net.srv.accept_delay_us,
        z.x.net.srv.incoming_buffer,
        z.rem,
        z.x.net.server_tc.recv_window,
        z.x.net.server_tc.stream_recv_window,
        z.x.net.server_tc.max_bidi,
        z.x.net.server_tc.max_uni,
        z.x.net.server_tc.dgram_recv
    );
    let h = r.hook.borrow();
    s += &format!("client at Connected: accepted_0rtt={:?}, early streams {:?}, early datagrams {:?}\n", h.accepted, h.early, h.early_dgrams);
    for k in [Some(r.c), r.s].into_iter().flatten() {
        let cs = &w.conns[k];
        let p = cs.c.verif_probe();
        s += &format!(
            "{:?}: connected={} lost={:?} out_complete={} opened={:?} recv_terminal={}/{} stats={:?}\n   streams: max_data={} data_sent={} unacked={} send_window={} next={:?} max={:?} in_flight={} cwnd={} state={} auth_failures={} key_phase={} authed={}\n",
            cs.side,
            cs.app.connected,
            cs.app.lost,
            cs.app.outgoing_complete(),
            cs.app.opened,
            cs.app.recv.values().filter(|r| r.terminal.is_some()).count(),
            cs.app.recv.len(),
            cs.app.stats,
            p.streams.max_data,
            p.streams.data_sent,
            p.streams.unacked_data,
            p.streams.send_window,
            p.streams.next,
            p.streams.max,
            p.bytes_in_flight,
            p.congestion_window,
            p.state,
            p.authentication_failures,
            p.key_phase,
            p.total_authed_packets
        );
        for (id, st) in &cs.app.send {
            if !(st.done && (st.finished_ev > 0 || !matches!(st.end, EndSpec::Finish))) {
                s += &format!("   send {id}: {st:?}\n");
            }
        }
        for (id, st) in &cs.app.recv {
            if st.terminal.is_none() {
                s += &format!("   recv {id}: fwd={} bytes={} got={:?}\n", st.fwd, st.bytes, st.got);
            }
        }
    }
    s += &format!("now={}us faults_done_at={:?} link={:?}\n", w.now, w.faults_done_at, w.stats);
    s += &dump(w, 600);
    s
}

/// Compact rendering of the second connection's trace (only when QV_TRACE is set)
fn dump(w: &World, max: usize) -> String {
    if std::env::var("QV_TRACE").is_err() {
        return String::new();
    }
    let mut s = String::from("trace (second connection):\n");
    let pk = |d: &DgRec| -> String {
        let mut o = format!("#{} {}B {}:", d.id, d.size, d.fate);
        for p in &d.pkts {
            o += &format!(" [{:?} pn{}", p.ty, p.pn);
            if p.token_len > 0 {
                o += &format!(" token{}", p.token_len);
            }
            for f in p.frames.iter().flatten() {
                match f {
                    OF::Padding(_) => {}
                    OF::NewConnectionId { seq, .. } => o += &format!(" NCID{seq}"),
                    OF::Ack { largest, .. } => o += &format!(" Ack{largest}"),
                    other => o += &format!(" {other:?}"),
                }
            }
            o += "]";
        }
        o
    };
    for rec in w.trace.iter().take(max) {
        match rec {
            Rec::Tx { t, conn, dgrams, .. } => {
                for d in dgrams {
                    s += &format!("   {t:>9} conn{conn} TX {}\n", pk(d));
                }
            }
            Rec::TxEp { t, dgram, .. } => s += &format!("   {t:>9} server-endpoint TX {}\n", pk(dgram)),
            Rec::Rx { t, dgram_id, routed, copy, .. } => s += &format!("   {t:>9} RX #{dgram_id} copy{copy} -> {routed:?}\n"),
            Rec::Ev { t, conn, ev } => s += &format!("   {t:>9} conn{conn} EV {ev}\n"),
            Rec::Timeout { t, conn, spurious: false, .. } => s += &format!("   {t:>9} conn{conn} timeout\n"),
            Rec::Lost { t, conn, reason } => s += &format!("   {t:>9} conn{conn} LOST {reason}\n"),
            _ => {}
        }
    }
    s
}

/// Confirmed findings (see NOTES.md) with the signatures of their known consequences. A case is
/// reported under such a signature only if everything it shows is explained by findings of this
/// list; any other failing oracle is reported first, so that a known finding hides nothing.
const ROOTS: &[(&[&str], &[&str])] = &[
    // F1: a smaller new initial_max_data does not replace the remembered connection-level credit
    (&["c17/fresh-state/max_data"], &["c17/credit/connection-limit@1-RTT", "c17/connection-lost@FLOW_CONTROL_ERROR"]),
    // F2: bytes written early stay charged against the send window for ever
    (&["c17/fresh-state/unacked_data"], &["c17/not-like-fresh/incomplete@stale-unacked-data-fills-send-window"]),
    // F5: receive limits raised through the API before the handshake completed are never announced
    (&["c17/not-like-fresh/incomplete@credit-update-lost-at-rejection"], &[]),
    // F4: early datagrams still queued at the instant of the rejection go out in 1-RTT packets
    (
        &["c17/fresh-state/datagrams-queued", "c17/early-datagram-resent@queued-at-rejection", "c17/early-datagram-visible@queued-at-rejection"],
        &["c17/connection-lost@PROTOCOL_VIOLATION:unexpected-DATAGRAM-frame", "c17/connection-lost@PROTOCOL_VIOLATION:oversized-datagram"],
    ),
    // F3: the FIN of an empty early stream is not repeated after a Retry
    (&["c17/early-data-not-delivered@empty-fin-after-retry"], &[]),
    // F6: the timer that discards the server's 0-RTT keys also discards the previous 1-RTT keys of a key update in progress
    (&["c17/early-data-not-delivered@server-key-update-before-0rtt-key-discard"], &[]),
];

fn explained(fails: &[(String, String)], sig: &str) -> bool {
    ROOTS.iter().any(|(roots, cons)| fails.iter().any(|f| roots.contains(&f.0.as_str())) && (roots.contains(&sig) || cons.iter().any(|c| sig.starts_with(c))))
}

/// The failure to report for a case
fn pick(fails: &[(String, String)]) -> (String, String) {
    if let Some(f) = fails.iter().find(|f| !explained(fails, &f.0)) {
        return f.clone();
    }
    for (roots, _) in ROOTS {
        for root in roots.iter() {
            if let Some(f) = fails.iter().find(|f| f.0 == *root) {
                return f.clone();
            }
        }
    }
    fails[0].clone()
}

pub fn case(z: &Z) -> CaseOut {
    case_with(z, true)
}

pub fn case_with(z: &Z, with_twin: bool) -> CaseOut {
    let policy = if !z.x.net.srv.accept_0rtt {
        Policy::Reject
    } else if reduced(&z.rem, &z.x.net.server_tc) {
        Policy::AcceptReduced
    } else {
        Policy::Accept
    };
    let zn = norm(z.clone(), policy);
    let z = &zn;
    let r = match run_world(z, true) {
        Ok(r) => r,
        Err(o) => return o,
    };
    if r.w.hit_step_limit {
        return CaseOut::inconclusive("step limit");
    }
    let mut labels: Vec<&'static str> = vec![];
    if std::env::var("QV_C17_DESCRIBE").is_ok() {
        // replay aid: show the final state (and, with QV_TRACE, the trace) of a passing case too
        eprintln!("{}", describe(z, &r));
    }
    let (wire_viol, facts) = check_wire(z, &r);
    let hook_fired = r.hook.borrow().fired > 0;
    let srv = &z.x.net.srv;
    labels.push(match policy {
        Policy::Accept => "accept",
        Policy::Reject => "reject",
        Policy::AcceptReduced => "accept-reduced",
    });
    let client_lost: Vec<String> = r.w.conns[r.c].app.lost.clone();
    let server_lost: Vec<String> = r.s.map(|s| r.w.conns[s].app.lost.clone()).unwrap_or_default();

    // ---- accepted with reduced limits: the client must end with a connection error -----------
    if policy == Policy::AcceptReduced {
        for v in &r.viol {
            if v.sig.starts_with("drive/") {
                return CaseOut::fail(format!("c17/oracle/{}", v.sig), v.msg.clone());
            }
        }
        let handshake_done = hook_fired || r.w.conns[r.c].app.connected;
        if r.hook.borrow().accepted == Some(false) {
            // the server connection that finally answered did not accept early data after all (e.g. a
            // first server connection failed over the early data and real TLS does not resume a
            // session twice): outside this sub-check's premise
            return CaseOut { verdict: Verdict::Pass, labels: vec!["accept-reduced", "server-rejected-after-all"], nontrivial: false, summary: None };
        }
        if client_lost.is_empty() {
            if !handshake_done {
                return CaseOut { verdict: Verdict::Pass, labels: vec!["accept-reduced", "handshake-incomplete"], nontrivial: false, summary: None };
            }
            return CaseOut::fail(
                "c17/reduced-limits-accepted",
                format!("the server accepted early data while reducing a remembered limit, yet the client completed the handshake without a connection error\n{}", describe(z, &r)),
            );
        }
        if hook_fired {
            return CaseOut::fail(
                "c17/reduced-limits-connected",
                format!("the server accepted early data while reducing a remembered limit; the client reported Connected before failing with {client_lost:?}\n{}", describe(z, &r)),
            );
        }
        if err_class(&client_lost[0]) == "PROTOCOL_VIOLATION" {
            labels.push("protocol-violation");
        } else {
            labels.push("other-error");
        }
        if facts.zero_rtt_pkts >= 2 {
            labels.push("early>=2pkts");
        }
        return CaseOut { verdict: Verdict::Pass, labels, nontrivial: facts.zero_rtt_pkts >= 2, summary: Some(json!({"policy": "accept-reduced", "client_lost": client_lost, "zero_rtt_pkts": facts.zero_rtt_pkts})) };
    }

    // ---- harness / application oracles -------------------------------------------------------------
    let rejected = policy == Policy::Reject;
    let mut fails: Vec<(String, String)> = vec![];
    for v in &r.viol {
        let sig = if v.sig == "c17/early-datagram-visible" {
            // no DATAGRAM frame was transmitted twice (frames sent <= datagrams accepted by send()):
            // what the server saw had not been transmitted before the rejection
            let cs = &r.w.conns[r.c];
            if cs.c.stats().frame_tx.datagram <= cs.app.stats.dgram_sent {
                "c17/early-datagram-visible@queued-at-rejection".to_string()
            } else {
                v.sig.clone()
            }
        } else if v.sig.starts_with("c17/") {
            v.sig.clone()
        } else if v.sig == "app/open-id" && rejected {
            "c17/stream-numbering".to_string()
        } else if rejected && r.w.conns[r.c].side.is_client() && (v.sig.starts_with("c01/") || v.sig.starts_with("c16/") || v.sig.starts_with("c09/")) {
            format!("c17/rejected/{}", v.sig)
        } else {
            format!("c17/oracle/{}", v.sig)
        };
        fails.push((sig, v.msg.clone()));
    }
    fails.extend(r.hook.borrow().viol.iter().cloned());
    // real TLS does not resume a session twice: if the server connection was replaced during the
    // attempt the second one legitimately rejects early data
    let server_conns = r.w.conns.iter().skip(2).filter(|k| k.side.is_server()).count();
    if r.hook.borrow().accepted_mismatch {
        if z.x.net.crypto != CryptoKind::Sim && server_conns > 1 {
            return CaseOut { verdict: Verdict::Pass, labels: vec![labels[0], "server-connection-replaced"], nontrivial: false, summary: None };
        }
        let acc = r.hook.borrow().accepted;
        fails.push(("c17/accepted-flag".into(), format!("accepted_0rtt() = {acc:?} at Connected although the server {} early data", if rejected { "rejected" } else { "accepted" })));
    }
    if let Some(v) = wire_viol {
        fails.push(v);
    }
    if let Some((max_data, max)) = r.hook.borrow().credit_probe {
        // credit frames of the server delivered to the client before it reported Connected
        let mut dgs: BTreeMap<u64, &Vec<PktRec>> = BTreeMap::new();
        let mut seen = [0u64; 3]; // MAX_DATA, MAX_STREAMS bidi, uni
        for rec in &r.w.trace {
            match rec {
                Rec::Tx { conn, dgrams, .. } if *conn != r.c => {
                    for d in dgrams {
                        dgs.insert(d.id, &d.pkts);
                    }
                }
                Rec::Rx { routed: Routed::Conn(k), dgram_id, corrupted: false, .. } if *k == r.c => {
                    for f in dgs.get(dgram_id).into_iter().flat_map(|p| p.iter()).filter(|p| p.ty == PktType::Short).flat_map(|p| p.frames.iter().flatten()) {
                        match f {
                            OF::MaxData(v) => seen[0] = seen[0].max(*v),
                            OF::MaxStreams { bidi, max } => {
                                let i = if *bidi { 1 } else { 2 };
                                seen[i] = seen[i].max(*max);
                            }
                            _ => {}
                        }
                    }
                }
                Rec::Ev { conn, ev, .. } if *conn == r.c && ev == "Connected" => break,
                _ => {}
            }
        }
        let new = &z.x.net.server_tc;
        let nd = new.recv_window.min((1 << 62) - 1);
        if max_data < nd || max_data > nd.max(seen[0]) {
            fails.push(("c17/fresh-state/max_data".into(), format!("after the rejection the client's connection-level credit is {max_data}; the server's new initial_max_data is {nd} and the largest MAX_DATA it had sent by then is {} (remembered: {})", seen[0], z.rem.recv_window)));
        }
        for (i, (name, nv, rv)) in [("bidirectional", new.max_bidi, z.rem.max_bidi), ("unidirectional", new.max_uni, z.rem.max_uni)].into_iter().enumerate() {
            if max[i] < nv || max[i] > nv.max(seen[1 + i]) {
                fails.push(("c17/fresh-state/max_streams".into(), format!("after the rejection the client's limit of {name} streams is {}; the server's new parameter is {nv} and the largest MAX_STREAMS it had sent by then is {} (remembered: {rv})", max[i], seen[1 + i])));
            }
        }
    }
    // honest peers, no idle timeout, Retry tokens that do not expire: nothing may end the connection
    // (reported under the error the detecting side raised, not under the peer's view of it)
    let all_lost: Vec<&String> = client_lost.iter().chain(server_lost.iter()).collect();
    if let Some(l) = all_lost.iter().find(|l| l.starts_with("TransportError")).or(all_lost.first()) {
        fails.push((format!("c17/connection-lost@{}", err_sig(l)), format!("the second connection was lost: client {client_lost:?}, server {server_lost:?}")));
    }
    // A server whose new parameters do not admit the datagram closed the connection over a DATAGRAM
    // frame: after a rejection send() refuses such datagrams, so the frame carried one the application
    // had handed over before the handshake completed; if no DATAGRAM frame was transmitted twice it had
    // still been queued at the instant of the rejection (decidable without seeing the wire)
    if rejected
        && !r.hook.borrow().early_dgrams.is_empty()
        && fails.iter().any(|f| f.0.ends_with(":unexpected-DATAGRAM-frame") || f.0.ends_with(":oversized-datagram"))
        && !fails.iter().any(|f| f.0 == "c17/early-datagram-resent@queued-at-rejection")
        && r.w.conns[r.c].c.stats().frame_tx.datagram <= r.w.conns[r.c].app.stats.dgram_sent
    {
        fails.push(("c17/early-datagram-resent@queued-at-rejection".into(), "(inferred) the server refused a DATAGRAM frame its new parameters do not admit; only a datagram queued before the rejection can have been sent".into()));
    }
    let both_connected = r.s.is_some_and(|s| r.w.conns[s].app.connected) && r.w.conns[r.c].app.connected;
    let alive = client_lost.is_empty() && server_lost.is_empty();
    // the workload completed, or the fault stream is used up and nothing moved for 30 virtual seconds
    let settled = r.completed || r.stalled;
    let h = r.hook.borrow();
    if !rejected && both_connected && alive && settled && fails.is_empty() {
        // every byte written before the handshake completed reaches the server application
        let s = r.s.unwrap();
        for e in &h.early {
            if e.written == 0 && !e.finished {
                continue;
            }
            let reset_now = r.w.conns[r.c].app.ledger.borrow().reset.contains_key(&(e.id, true));
            let rs = r.w.conns[s].app.recv.get(&e.id);
            let stopped = rs.is_some_and(|st| matches!(st.terminal, Some("stopped") | Some("reset") | Some("closed-before-terminal")));
            // a stream reset by the client is still announced to the server (RESET_STREAM is repeated until
            // acknowledged, also when its first copy travelled in a 0-RTT packet that a Retry made void):
            // the server application sees the stream and its end
            if reset_now && !stopped && !rs.is_some_and(|st| st.terminal.is_some()) {
                fails.push((
                    if facts.retry { "c17/early-reset-not-delivered@after-retry".to_string() } else { "c17/early-reset-not-delivered".to_string() },
                    format!(
                        "the server accepted early data, both sides completed the handshake and the run settled; stream {} was opened before the handshake completed ({} bytes written) and reset by the client, but the server application {}",
                        e.id,
                        e.written,
                        match rs {
                            None => "never saw the stream".to_string(),
                            Some(st) => format!("holds it without an end (received {:?})", st.got),
                        }
                    ),
                ));
                break;
            }
            if reset_now || stopped {
                continue;
            }
            let covered = rs.is_some_and(|st| e.written == 0 || st.got.first().is_some_and(|g| g.0 == 0 && g.1 >= e.written));
            if !covered {
                fails.push((
                    {
                        let sp = r.w.conns[s].c.verif_probe();
                        let cp = r.w.conns[r.c].c.verif_probe();
                        // known finding of C02 in its 0-RTT shape: the early packets were dropped before the
                        // server accepted the attempt, cannot be acknowledged, fill the client's congestion
                        // window, and its Handshake flight waits behind them with no loss-detection timer armed
                        let wedged = r.stalled && cp.state <= 1 && cp.bytes_in_flight + cp.current_mtu as u64 >= cp.congestion_window && !cp.timers_armed.contains(&"LossDetection") && sp.sent_packets[1] > 0;
                        if std::env::var("QV_TRACE").is_ok() {
                            eprintln!("wedge? stalled={} cstate={} in_flight={} mtu={} cwnd={} timers={:?} srv_sent={:?} srv_timers={:?}", r.stalled, cp.state, cp.bytes_in_flight, cp.current_mtu, cp.congestion_window, cp.timers_armed, sp.sent_packets, sp.timers_armed);
                        }
                        if wedged {
                            "c02/handshake-retransmit-congestion-blocked-by-unackable-packets".to_string()
                        } else if e.written == 0 && facts.retry {
                            "c17/early-data-not-delivered@empty-fin-after-retry".to_string()
                        } else if sp.authentication_failures > 0 && r.w.conns[s].app.stats.key_updates > 0 {
                            // the server dropped its previous 1-RTT keys together with the 0-RTT keys
                            "c17/early-data-not-delivered@server-key-update-before-0rtt-key-discard".to_string()
                        } else {
                            "c17/early-data-not-delivered".to_string()
                        }
                    },
                    format!(
                        "the server accepted early data, both sides completed the handshake and the run settled, but of the {} bytes written on stream {} before the handshake completed the server application obtained {:?}",
                        e.written,
                        e.id,
                        rs.map(|st| st.got.clone())
                    ),
                ));
                break;
            }
        }
    }
    // ---- twin: a client that made no early attempt -------------------------------------------------
    let mut twin_compared = false;
    if rejected && with_twin && fails.iter().all(|f| explained(&fails, &f.0)) {
        match run_world(z, false) {
            Ok(t) if !t.w.hit_step_limit => {
                let (a, b) = (outcome(&r), outcome(&t));
                if !b.lost.is_empty() || !t.viol.is_empty() {
                    labels.push("twin-failed");
                } else if b.completed && a.completed {
                    twin_compared = true;
                    if let Some(f) = compare_twin(z, &a, &b) {
                        fails.push((f.0, format!("{}\n--- twin ---\n{}", f.1, describe(z, &t))));
                    }
                } else if b.completed && !a.completed && r.stalled && a.both_connected && a.lost.is_empty() && hook_fired {
                    let p = r.w.conns[r.c].c.verif_probe();
                    let why = if p.streams.unacked_data >= p.streams.send_window {
                        "@stale-unacked-data-fills-send-window"
                    } else if early_credit_op(z, &r) && r.s.is_some_and(|s| r.w.conns[s].app.stats.write_blocked + r.w.conns[s].app.stats.open_blocked > 0) {
                        // the application raised its receive limits before the handshake completed; the
                        // MAX_DATA / MAX_STREAMS update was sent in a 0-RTT packet or still queued
                        "@credit-update-lost-at-rejection"
                    } else {
                        ""
                    };
                    fails.push((
                        format!("c17/not-like-fresh/incomplete{why}"),
                        format!("after the rejection the workload never completed although both sides finished the handshake, and nothing moved any more during 30 virtual seconds on a clean link; the same workload on a connection without an early attempt completed at {} us (credit the client advertised [MAX_DATA, MAX_STREAMS uni, bidi]: in 0-RTT packets {:?}, in 1-RTT packets {:?})\n--- twin ---\n{}", t.w.now, facts.credit_0rtt, facts.credit_1rtt, describe(z, &t)),
                    ));
                } else {
                    labels.push("twin-incomplete");
                }
            }
            _ => labels.push("twin-inconclusive"),
        }
    }
    if !fails.is_empty() {
        let (sig, msg) = pick(&fails);
        let others: Vec<&str> = fails.iter().map(|f| f.0.as_str()).filter(|s| *s != sig).collect();
        drop(h);
        return CaseOut::fail(sig, format!("{msg}\n{}other oracles failing in this case: {others:?}", describe(z, &r)));
    }
    // ---- coverage ---------------------------------------------------------------------------------
    if facts.retry {
        labels.push("retry");
    }
    let held = srv.accept_delay_us > 0 && r.w.incoming_log.iter().any(|i| i.action == "hold");
    if held {
        labels.push("late-accept");
        if (srv.incoming_buffer as u64) < 1200 * facts.zero_rtt_dgrams {
            labels.push("late-accept-buffer-overflow");
        }
    }
    if facts.hs_lost {
        labels.push("early-loss");
    }
    if facts.hs_dup {
        labels.push("early-dup");
    }
    if facts.hs_delay {
        labels.push("early-reorder");
    }
    if facts.hs_fault_s2c {
        labels.push("server-flight-fault");
    }
    if facts.zero_rtt_pkts >= 2 {
        labels.push("early>=2pkts");
    }
    if facts.early_dgram_frames > 0 {
        labels.push("early-datagram");
    }
    if facts.early_fin {
        labels.push("early-fin");
    }
    if facts.early_reset {
        labels.push("early-reset");
    }
    if facts.early_resent_1rtt {
        labels.push("early-data-resent-in-1rtt");
    }
    if facts.early_resent_0rtt {
        labels.push("early-data-resent-in-0rtt");
    }
    if facts.zero_rtt_after_retry {
        labels.push("0rtt-after-retry");
    }
    if h.early_blocked_opens > 0 {
        labels.push("early-open-blocked");
    }
    if h.early.iter().any(|e| e.bidi) {
        labels.push("early-bidi");
    }
    if h.early.iter().any(|e| !e.bidi) {
        labels.push("early-uni");
    }
    if reduced(&z.rem, &z.x.net.server_tc) {
        labels.push("new<remembered");
    } else if Remembered::of(&z.x.net.server_tc) != z.rem {
        labels.push("new>remembered");
    } else {
        labels.push("new=remembered");
    }
    if r.completed {
        labels.push("completed");
    }
    if !hook_fired {
        labels.push("handshake-incomplete");
    }
    if twin_compared {
        labels.push("twin-compared");
    }
    let nontrivial = hook_fired && facts.zero_rtt_pkts >= 2 && (facts.hs_fault_c2s || facts.hs_fault_s2c || facts.retry || held);
    let summary = json!({
        "policy": labels[0],
        "retry": facts.retry,
        "accept_delay_us": srv.accept_delay_us,
        "zero_rtt_pkts": facts.zero_rtt_pkts,
        "early_stream_bytes": facts.early_stream_bytes,
        "early_dgrams": facts.early_dgram_frames,
        "early_streams": h.early.len(),
        "faults": [z.x.net.faults_c2s.len(), z.x.net.faults_s2c.len()],
        "completed": r.completed,
        "virtual_ms": r.w.now / 1000,
        "link": format!("{:?}", r.w.stats),
    });
    CaseOut { verdict: Verdict::Pass, labels, nontrivial, summary: Some(summary) }
}

// ---------------------------------------------------------------------------------------------
// Exhaustive fault subsets over the first K client datagrams
// ---------------------------------------------------------------------------------------------

/// Base scenario `b` (0..8: accept/reject x Retry or not x late accept or not) with verdict `code`
/// (base-4 digits: deliver / drop / duplicate / delay) for the first `k` client datagrams
pub fn enum_z(b: u64, k: u32, code: u64) -> Z {
    let accept = b & 1 == 0;
    let retry = b & 2 != 0;
    let late = b & 4 != 0;
    let mut net = NetSpec::default();
    net.seed = 17 + b;
    net.latency_us = [10_000, 10_000];
    net.srv.retry = retry;
    net.srv.accept_delay_us = if late { 35_000 } else { 0 };
    net.srv.incoming_buffer = if late { 4000 } else { 10 << 20 };
    net.srv.accept_0rtt = accept;
    net.client_tc.idle_ms = None;
    net.server_tc.idle_ms = None;
    net.client_tc.mtud = None;
    net.server_tc.mtud = None;
    net.client_tc.initial_rtt_ms = 20;
    net.server_tc.max_uni = 8;
    net.server_tc.max_bidi = 8;
    net.server_tc.stream_recv_window = 20_000;
    net.server_tc.recv_window = 40_000;
    let mut faults = vec![];
    let mut c = code;
    for _ in 0..k {
        faults.push(match c & 3 {
            0 => Fault::Deliver,
            1 => Fault::Drop,
            2 => Fault::Dup { n: 1, gap_us: 4_000 },
            _ => Fault::Delay { us: 27_000 },
        });
        c >>= 2;
    }
    net.faults_c2s = faults;
    let reader = ReaderSpec { ordered: true, switch_unordered_after: None, max_len: u32::MAX, chunks_per_turn: 0, stop: None };
    let st = |bidi: bool, total: u32, end: EndSpec, resp_total: u32| StreamSpec { bidi, total, chunks: vec![u32::MAX], use_write_chunks: false, end, reader: reader.clone(), resp_total, resp_reader_ordered: true, priority: 0 };
    let client = SideLoad {
        streams: vec![st(false, 2600, EndSpec::Finish, 0), st(true, 1900, EndSpec::Finish, 700), st(false, 1500, EndSpec::Reset { code: 9, after: 40_000 }, 0), st(true, 5000, EndSpec::Finish, 0)],
        ops: vec![
            TimedOp { at_us: 0, op: AuxOp::Datagram { size: 300, drop: false } },
            TimedOp { at_us: 2_000, op: AuxOp::Datagram { size: 900, drop: false } },
            TimedOp { at_us: 400_000, op: AuxOp::Datagram { size: 500, drop: false } },
        ],
        dgram_recv_every: 0,
    };
    let server = SideLoad { streams: vec![st(false, 1200, EndSpec::Finish, 0)], ops: vec![], dgram_recv_every: 0 };
    // remembered: smaller stream limit and one bidirectional stream less, so the early phase runs into credit
    let rem = Remembered { recv_window: 40_000, stream_recv_window: 4_000, max_bidi: 1, max_uni: 8, dgram_recv: net.server_tc.dgram_recv };
    Z { x: Xfer { net, client, server }, rem, early_streams: 4, stale_reset_at_us: if code % 3 == 0 { Some(5_000) } else { None } }
}

fn run_subsets(report: &Report, k: u32) -> bool {
    let name = "c17x";
    if !report.wants(name) {
        return true;
    }
    let started = std::time::Instant::now();
    let per = 1u64 << (2 * k);
    let total = 8 * per;
    let next = AtomicU64::new(0);
    let stop = AtomicBool::new(false);
    let failure: Mutex<Option<(u64, String, String)>> = Mutex::new(None);
    #[derive(Default)]
    struct Acc {
        evals: u64,
        nontrivial: u64,
        inconclusive: u64,
        classes: BTreeMap<String, u64>,
    }
    let merged: Mutex<Acc> = Mutex::new(Acc::default());
    std::thread::scope(|scope| {
        for _ in 0..report.opts.threads.max(1) {
            std::thread::Builder::new()
                .stack_size(64 << 20)
                .spawn_scoped(scope, || {
                    let mut acc = Acc::default();
                    loop {
                        if stop.load(Ordering::Relaxed) {
                            break;
                        }
                        let i = next.fetch_add(1, Ordering::Relaxed);
                        if i >= total {
                            break;
                        }
                        let z = enum_z(i / per, k, i % per);
                        let out = match catch(|| case(&z)) {
                            Ok(o) => o,
                            Err(p) => panic_to_case(p, false),
                        };
                        acc.evals += 1;
                        match out.verdict {
                            Verdict::Pass => {
                                if out.nontrivial {
                                    acc.nontrivial += 1;
                                }
                                for l in out.labels {
                                    *acc.classes.entry(l.to_string()).or_insert(0) += 1;
                                }
                            }
                            Verdict::Fail { sig, msg } => {
                                if report.is_known(&sig) {
                                    *report.known_hits.lock().unwrap().entry(sig).or_insert(0) += 1;
                                } else {
                                    stop.store(true, Ordering::Relaxed);
                                    let mut g = failure.lock().unwrap();
                                    if g.as_ref().map_or(true, |o| i < o.0) {
                                        *g = Some((i, sig, msg));
                                    }
                                    break;
                                }
                            }
                            Verdict::Inconclusive(_) | Verdict::Discard(_) => acc.inconclusive += 1,
                        }
                    }
                    let mut m = merged.lock().unwrap();
                    m.evals += acc.evals;
                    m.nontrivial += acc.nontrivial;
                    m.inconclusive += acc.inconclusive;
                    for (k, v) in acc.classes {
                        *m.classes.entry(k).or_insert(0) += v;
                    }
                })
                .expect("spawn");
        }
    });
    let m = merged.into_inner().unwrap();
    let failed = failure.into_inner().unwrap();
    let sub = SubStats {
        name: name.to_string(),
        rule: format!("every assignment of deliver/drop/duplicate/delay to the first {k} client datagrams of the second connection x (accept|reject) x (Retry|no Retry) x (immediate|late accept with a 4000-byte incoming buffer), fixed workload (4 early streams of both directions with finish and reset, 2 early datagrams, remembered stream credit below the new one); non-trivial as in c17a"),
        evaluations: m.evals,
        distinct_nontrivial: m.nontrivial,
        discards: 0,
        inconclusive: m.inconclusive,
        exhaustive: failed.is_none() && m.inconclusive == 0,
        classes: m.classes.clone(),
        samples: vec![serde_json::to_value(enum_z(0, k, 0).x.net.faults_c2s).unwrap_or_default(), serde_json::to_value(enum_z(7, k, per - 1).x.net.faults_c2s).unwrap_or_default()],
        wall_s: started.elapsed().as_secs_f64(),
    };
    println!("  [{}] cases={} nontrivial={} inconclusive={} exhaustive={} {:.1}s classes={:?}", name, sub.evaluations, sub.distinct_nontrivial, sub.inconclusive, sub.exhaustive, sub.wall_s, sub.classes);
    report.add_sub(sub);
    match failed {
        Some((i, sig, msg)) => {
            report.fail_direct(name, &sig, msg, serde_json::to_value(enum_z(i / per, k, i % per)).unwrap());
            false
        }
        None => true,
    }
}

pub fn run(report: &Report) -> i32 {
    report.assume("SimCrypto (harness crypto::Session with session tickets carrying the server's transport parameters) stands in for TLS: the wire must be visible to the observer");
    report.assume("the first connection of every world is fault free; idle timeouts are disabled; Retry tokens do not expire; pad_to_mtu is off and zero-length server CIDs are not combined with Retry (known findings of C02/C09)");
    report.assume("after a rejection the application restarts its whole workload from scratch, as it would on a fresh connection; the twin world runs the same workload without a ticket");
    let rule = "proptest-generated two-connection worlds (remembered vs new limits x early workload x Retry x late accept x per-datagram fault streams on the early and handshake datagrams x driver schedules); non-trivial = the client reported Connected AND at least two 0-RTT packets were sent AND (an early or handshake datagram was dropped, duplicated or delayed, or a Retry occurred, or the Incoming was held before accept); distinct by scenario hash";
    run_prop(report, "c17a", &format!("server accepts early data: {rule}"), || arb_z(Policy::Accept), report.cases(30_000, 500_000), case);
    run_prop(report, "c17r", &format!("server rejects early data (each case also runs the twin without an early attempt): {rule}"), || arb_z(Policy::Reject), report.cases(18_000, 250_000), case);
    run_prop(
        report,
        "c17p",
        "server accepts early data although it reduced a remembered limit: the client must end with a connection error; non-trivial = at least two 0-RTT packets were sent",
        || arb_z(Policy::AcceptReduced),
        report.cases(1_200, 15_000),
        case,
    );
    let k = match report.opts.tier {
        Tier::Quick => 4,
        Tier::Thorough => 8,
    };
    run_subsets(report, k);
    report.finish("generated-input search (proptest) plus an exhaustive enumeration of fault assignments to the first client datagrams, against the content model, an independent credit ledger and a twin world")
}
