//! C11 — stream operations follow the QUIC stream state machine.
//!
//! One connection between two sans-IO endpoints on the simulated network (loss-free, in-order,
//! SimCrypto so the wire is transparent to the observer). After the handshake the check owns both
//! `Connection` objects and applies a *history*: application operations of side A (client) and
//! side B (server) on streams, interleaved with explicit network steps (carry everything A has to
//! say to B once, the same for B to A, or drive both ways to quiescence). Every operation outcome
//! and every application event is compared with a reference model written from RFC 9000 section 3
//! and the rustdoc of `SendStream`, `RecvStream`, `Chunks`, `StreamEvent`, `WriteError`,
//! `FinishError`, `ReadError`, `ClosedStream`. Where those texts leave several outcomes open the
//! model returns a set and the check is membership.

use crate::core::*;
use crate::simnet::*;
use crate::spec::*;
use proptest::prelude::*;
use quinn_proto::{Connection, Dir, Event, FinishError, ReadError, ReadableError, StreamEvent, StreamId, VarInt, WriteError};
use serde::{Deserialize, Serialize};
use serde_json::{json, Value};
use std::collections::BTreeMap;
use std::sync::atomic::{AtomicBool, AtomicU64, Ordering};
use std::sync::Mutex;
use std::time::Instant;

// ---------------------------------------------------------------------------------------------
// Histories
// ---------------------------------------------------------------------------------------------

/// One application operation. `sid` is the raw QUIC stream id (bit 0: initiated by B/server, bit 1:
/// unidirectional, rest: index). An operation on a stream whose handle the acting application does
/// not hold (it neither opened nor accepted it), or on a half that does not exist on that side, is
/// outside the domain and skipped.
#[derive(Clone, Copy, Debug, Serialize, Deserialize, PartialEq, Eq, Hash)]
pub enum Op {
    Open { bidi: bool },
    Accept { bidi: bool },
    /// one `write` of `n` bytes
    Write { sid: u64, n: u8 },
    /// `write` 7-byte pieces until something other than Ok comes back
    WriteFull { sid: u64 },
    Finish { sid: u64 },
    Reset { sid: u64, code: u32 },
    Stop { sid: u64, code: u32 },
    /// `read(ordered)`, one `next(3)`, finalize
    ReadSome { sid: u64, ordered: bool },
    /// `read(ordered)`, `next(usize::MAX)` until something other than data comes back, finalize
    ReadAll { sid: u64, ordered: bool },
    /// `SendStream::stopped()`
    Stopped { sid: u64 },
    /// `RecvStream::received_reset()`
    RecvReset { sid: u64 },
    Prio { sid: u64, p: i8 },
}

#[derive(Clone, Copy, Debug, Serialize, Deserialize, PartialEq, Eq, Hash)]
pub enum Step {
    A(Op),
    B(Op),
    /// time advances 30 ms (all due timers serviced), then everything A has to transmit is
    /// delivered to B; B's answers stay inside B
    AtoB,
    BtoA,
    /// AtoB, BtoA rounds until neither side transmits anything
    Sync,
}

#[derive(Clone, Debug, Serialize, Deserialize, PartialEq)]
pub struct Hist {
    /// max_concurrent_{bidi,uni}_streams of both endpoints
    pub limit: u8,
    /// stream_receive_window of both endpoints (bytes)
    pub window: u16,
    /// true: the `sid` of an operation is a selector; it is resolved, when the step is reached, to
    /// the (sid mod n)-th of the n streams on which the operation is inside the domain
    #[serde(default)]
    pub relative: bool,
    pub steps: Vec<Step>,
}

pub const SA: usize = 0;
pub const SB: usize = 1;
const NET_STEP_US: u64 = 30_000;

pub fn mk_sid(init: usize, bidi: bool, idx: u64) -> u64 {
    (idx << 2) | if bidi { 0 } else { 2 } | init as u64
}
fn sid_init(s: u64) -> usize {
    (s & 1) as usize
}
fn sid_bidi(s: u64) -> bool {
    s & 2 == 0
}
fn sid_idx(s: u64) -> u64 {
    s >> 2
}
fn di(bidi: bool) -> usize {
    if bidi {
        0
    } else {
        1
    }
}
fn qdir(bidi: bool) -> Dir {
    if bidi {
        Dir::Bi
    } else {
        Dir::Uni
    }
}
fn qsid(s: u64) -> StreamId {
    StreamId::from(VarInt::from_u64(s).unwrap())
}
fn raw(id: StreamId) -> u64 {
    VarInt::from(id).into_inner()
}
/// Byte `o` of the data written by `side` on stream `s`
fn content(side: usize, s: u64, o: u64) -> u8 {
    (o.wrapping_mul(31).wrapping_add(s.wrapping_mul(7)).wrapping_add(side as u64 * 101) & 0xff) as u8
}

impl Op {
    fn sid(&self) -> Option<u64> {
        match *self {
            Op::Open { .. } | Op::Accept { .. } => None,
            Op::Write { sid, .. }
            | Op::WriteFull { sid }
            | Op::Finish { sid }
            | Op::Reset { sid, .. }
            | Op::Stop { sid, .. }
            | Op::ReadSome { sid, .. }
            | Op::ReadAll { sid, .. }
            | Op::Stopped { sid }
            | Op::RecvReset { sid }
            | Op::Prio { sid, .. } => Some(sid),
        }
    }
    fn with_sid(&self, s: u64) -> Op {
        match *self {
            Op::Open { .. } | Op::Accept { .. } => *self,
            Op::Write { n, .. } => Op::Write { sid: s, n },
            Op::WriteFull { .. } => Op::WriteFull { sid: s },
            Op::Finish { .. } => Op::Finish { sid: s },
            Op::Reset { code, .. } => Op::Reset { sid: s, code },
            Op::Stop { code, .. } => Op::Stop { sid: s, code },
            Op::ReadSome { ordered, .. } => Op::ReadSome { sid: s, ordered },
            Op::ReadAll { ordered, .. } => Op::ReadAll { sid: s, ordered },
            Op::Stopped { .. } => Op::Stopped { sid: s },
            Op::RecvReset { .. } => Op::RecvReset { sid: s },
            Op::Prio { p, .. } => Op::Prio { sid: s, p },
        }
    }
    fn is_send_op(&self) -> bool {
        matches!(self, Op::Write { .. } | Op::WriteFull { .. } | Op::Finish { .. } | Op::Reset { .. } | Op::Stopped { .. } | Op::Prio { .. })
    }
    fn kind(&self) -> &'static str {
        match self {
            Op::Open { .. } => "open",
            Op::Accept { .. } => "accept",
            Op::Write { .. } => "write",
            Op::WriteFull { .. } => "write-full",
            Op::Finish { .. } => "finish",
            Op::Reset { .. } => "reset",
            Op::Stop { .. } => "stop",
            Op::ReadSome { .. } => "read",
            Op::ReadAll { .. } => "read-all",
            Op::Stopped { .. } => "stopped",
            Op::RecvReset { .. } => "received-reset",
            Op::Prio { .. } => "set-priority",
        }
    }
}

fn fmt_op(op: &Op) -> String {
    match *op {
        Op::Open { bidi } => format!("open({})", if bidi { "bi" } else { "uni" }),
        Op::Accept { bidi } => format!("accept({})", if bidi { "bi" } else { "uni" }),
        Op::Write { sid, n } => format!("write(s{sid}, {n}B)"),
        Op::WriteFull { sid } => format!("write-until-blocked(s{sid})"),
        Op::Finish { sid } => format!("finish(s{sid})"),
        Op::Reset { sid, code } => format!("reset(s{sid}, {code})"),
        Op::Stop { sid, code } => format!("stop(s{sid}, {code})"),
        Op::ReadSome { sid, ordered } => format!("read-one(s{sid}, {})", if ordered { "ordered" } else { "unordered" }),
        Op::ReadAll { sid, ordered } => format!("read-all(s{sid}, {})", if ordered { "ordered" } else { "unordered" }),
        Op::Stopped { sid } => format!("stopped?(s{sid})"),
        Op::RecvReset { sid } => format!("received_reset?(s{sid})"),
        Op::Prio { sid, p } => format!("set_priority(s{sid}, {p})"),
    }
}

pub fn fmt_step(s: &Step) -> String {
    match s {
        Step::A(o) => format!("A.{}", fmt_op(o)),
        Step::B(o) => format!("B.{}", fmt_op(o)),
        Step::AtoB => "net A->B".into(),
        Step::BtoA => "net B->A".into(),
        Step::Sync => "net sync".into(),
    }
}

// ---------------------------------------------------------------------------------------------
// Outcomes and patterns
// ---------------------------------------------------------------------------------------------

#[derive(Clone, Copy, Debug, PartialEq, Eq)]
pub enum WEnd {
    Blocked,
    Stopped(u64),
    Closed,
}

#[derive(Clone, Copy, Debug, PartialEq, Eq)]
pub enum REnd {
    /// (read-one only) data was returned, nothing is known about what follows
    More,
    Blocked,
    Fin,
    Reset(u64),
}

/// Outcome class of one operation
#[derive(Clone, Copy, Debug, PartialEq, Eq)]
pub enum Out {
    Id(Option<u64>),
    Wrote(u64),
    WroteFull(u64, WEnd),
    Blocked,
    Stopped(u64),
    Closed,
    Done,
    Code(Option<u64>),
    Read(u64, REnd),
    IllegalOrdered,
}

#[derive(Clone, Copy, Debug, PartialEq, Eq)]
pub enum Pat {
    Is(Out),
    Wrote(u64, u64),
    WroteFull(u64, u64, WEnd),
    Read(u64, u64, REnd),
}

impl Pat {
    fn matches(&self, o: &Out) -> bool {
        match (*self, *o) {
            (Pat::Is(a), b) => a == b,
            (Pat::Wrote(lo, hi), Out::Wrote(n)) => lo <= n && n <= hi,
            (Pat::WroteFull(lo, hi, e), Out::WroteFull(n, f)) => lo <= n && n <= hi && e == f,
            (Pat::Read(lo, hi, e), Out::Read(n, f)) => lo <= n && n <= hi && e == f,
            _ => false,
        }
    }
}

// ---------------------------------------------------------------------------------------------
// Reference model
// ---------------------------------------------------------------------------------------------

#[derive(Clone, Copy, Debug, PartialEq, Eq, PartialOrd, Ord)]
pub enum Tri {
    No,
    Maybe,
    Yes,
}

/// Sending half of a stream, as known at the side that owns it
#[derive(Clone, Debug)]
struct SendHalf {
    held: bool,
    written: u64,
    /// finish() returned Ok
    fin: bool,
    /// reset() returned Ok with this code
    reset: Option<u64>,
    /// a STOP_SENDING for this stream has been delivered to this side (code)
    stop_rx: Option<u64>,
    /// an operation already reported Stopped(code) ("it has been implicitly reset")
    stop_reported: bool,
    stopped_events: u32,
    /// a Stopped event is owed by the end of the current step
    stopped_required: bool,
    finished_events: u32,
    /// the FIN (and with it all data) has been carried to the peer
    fin_sent: bool,
    /// whether everything up to and including the FIN has been acknowledged
    acked: Tri,
    /// a RESET_STREAM (explicit, or implied by STOP_SENDING) has been carried to the peer
    reset_sent: bool,
    reset_acked: Tri,
    /// stream-level flow control credit known to this side: definitely at least / at most
    credit_lo: u64,
    credit_hi: u64,
    write_blocked: bool,
    /// something about this half has to go on the wire at the next flush
    wire_dirty: bool,
}

/// Receiving half of a stream, as known at the side that owns it
#[derive(Clone, Debug)]
struct RecvHalf {
    held: bool,
    /// contiguous bytes delivered
    data: u64,
    /// after a reset: the most that can ever be readable
    data_hi: u64,
    fin: bool,
    reset: Option<u64>,
    /// the FIN had been delivered before the RESET_STREAM was
    fin_before_reset: bool,
    read: u64,
    /// the reader observed the terminal outcome
    terminal: bool,
    stopped: Option<u64>,
    /// whether a STOP_SENDING has to follow the stop(): Yes if the final size was unknown
    stop_sends: Tri,
    stop_flushed: bool,
    unordered: bool,
    /// a STREAM or RESET_STREAM frame for this stream has been delivered to this side
    data_frames_seen: bool,
    /// a read returned IllegalOrderedRead on this half
    illegal_seen: bool,
}

#[derive(Clone, Debug)]
struct MStream {
    init: usize,
    bidi: bool,
    /// indexed by side; a half that does not exist on that side is never touched
    send: [SendHalf; 2],
    recv: [RecvHalf; 2],
}

#[derive(Clone, Debug, Default)]
struct MSide {
    /// next index to open, by direction (0 bidi, 1 uni)
    opened: [u64; 2],
    accepted: [u64; 2],
    /// number of peer-initiated streams this side has learned of
    seen_remote: [u64; 2],
    /// stream count limit this side may open up to (peer's transport parameter / MAX_STREAMS)
    max_streams: [u64; 2],
    /// a MAX_STREAMS raising the limit has been delivered
    avail_ok: [bool; 2],
    /// has something to transmit (state-changing op since its last flush, or owes an ACK)
    dirty: bool,
}

#[derive(Clone, Debug)]
pub struct Model {
    limit: u64,
    window: u64,
    streams: BTreeMap<u64, MStream>,
    side: [MSide; 2],
}

/// Frames of one direction of one network step, as decoded by the observer
pub type Frames = Vec<OF>;

type Bad = (String, String);

fn bad(sig: &str, msg: String) -> Bad {
    (sig.to_string(), msg)
}

impl SendHalf {
    fn new(window: u64) -> Self {
        Self {
            held: false,
            written: 0,
            fin: false,
            reset: None,
            stop_rx: None,
            stop_reported: false,
            stopped_events: 0,
            stopped_required: false,
            finished_events: 0,
            fin_sent: false,
            acked: Tri::No,
            reset_sent: false,
            reset_acked: Tri::No,
            credit_lo: window,
            credit_hi: window,
            write_blocked: false,
            wire_dirty: false,
        }
    }
    /// Whether this half is terminal for the purpose of stream accounting (RFC 9000 figure 2: "Data
    /// Recvd" = everything including the FIN acknowledged, "Reset Recvd" = RESET_STREAM
    /// acknowledged). A half that was reset or stopped but whose RESET_STREAM has not been
    /// acknowledged is still "Reset Sent"/"Send" and counts.
    fn terminal(&self) -> Tri {
        let by_fin = if self.fin { self.acked } else { Tri::No };
        let by_reset = if self.reset_sent { self.reset_acked } else { Tri::No };
        by_fin.max(by_reset)
    }
}

impl RecvHalf {
    fn new() -> Self {
        Self {
            held: false,
            data: 0,
            data_hi: 0,
            fin: false,
            reset: None,
            fin_before_reset: false,
            read: 0,
            terminal: false,
            stopped: None,
            stop_sends: Tri::No,
            stop_flushed: false,
            unordered: false,
            data_frames_seen: false,
            illegal_seen: false,
        }
    }
    fn closed(&self) -> bool {
        self.terminal || self.stopped.is_some()
    }
    fn terminal_acct(&self) -> Tri {
        if self.terminal {
            return Tri::Yes;
        }
        if self.stopped.is_some() && (self.fin || self.reset.is_some()) {
            // RFC 9000 section 3.5: STOP_SENDING does not change the state of the receiving part; a
            // stopped half becomes terminal when the RESET_STREAM (or the FIN) arrives and the final
            // size is known. Until then the stream still counts.
            return Tri::Yes;
        }
        Tri::No
    }
}

impl Model {
    pub fn new(h: &Hist) -> Self {
        let mut m = Self { limit: h.limit as u64, window: h.window as u64, streams: BTreeMap::new(), side: [MSide::default(), MSide::default()] };
        for s in 0..2 {
            m.side[s].max_streams = [m.limit, m.limit];
        }
        m
    }

    fn has_send(st: &MStream, side: usize) -> bool {
        st.bidi || st.init == side
    }
    fn has_recv(st: &MStream, side: usize) -> bool {
        st.bidi || st.init != side
    }

    /// Whether `op` by `side` is inside the domain (handle held, half exists)
    pub fn in_domain(&self, side: usize, op: &Op) -> bool {
        match op {
            Op::Open { .. } | Op::Accept { .. } => true,
            _ => {
                let Some(st) = self.streams.get(&op.sid().unwrap()) else { return false };
                if op.is_send_op() {
                    Self::has_send(st, side) && st.send[side].held
                } else {
                    Self::has_recv(st, side) && st.recv[side].held
                }
            }
        }
    }

    /// Resolve a selector operation (see `Hist::relative`)
    pub fn resolve(&self, side: usize, op: &Op) -> Option<Op> {
        let Some(sel) = op.sid() else { return Some(*op) };
        let cands: Vec<u64> = self.streams.keys().copied().filter(|s| self.in_domain(side, &op.with_sid(*s))).collect();
        if cands.is_empty() {
            return None;
        }
        Some(op.with_sid(cands[(sel % cands.len() as u64) as usize]))
    }

    fn write_pats(&self, sh: &SendHalf, n: u64, full: bool) -> Vec<Pat> {
        let closed = |e: WEnd| -> Pat {
            if full {
                Pat::WroteFull(0, 0, e)
            } else {
                Pat::Is(match e {
                    WEnd::Blocked => Out::Blocked,
                    WEnd::Stopped(c) => Out::Stopped(c),
                    WEnd::Closed => Out::Closed,
                })
            }
        };
        if let Some(c) = sh.stop_rx {
            if sh.reset.is_none() && !sh.fin && !sh.stop_reported {
                return vec![closed(WEnd::Stopped(c))];
            }
            return vec![closed(WEnd::Stopped(c)), closed(WEnd::Closed)];
        }
        if sh.reset.is_some() || sh.fin {
            return vec![closed(WEnd::Closed)];
        }
        let lo = sh.credit_lo.saturating_sub(sh.written);
        let hi = sh.credit_hi.saturating_sub(sh.written);
        if full {
            vec![Pat::WroteFull(lo, hi, WEnd::Blocked)]
        } else {
            let mut v = vec![];
            if hi > 0 {
                v.push(Pat::Wrote(lo.min(n).max(1), hi.min(n)));
            }
            if lo == 0 {
                v.push(Pat::Is(Out::Blocked));
            }
            v
        }
    }

    /// The outcomes the documentation allows for `op` by `side` in the current state
    pub fn allowed(&self, side: usize, op: &Op) -> Vec<Pat> {
        let d = |bidi: bool| di(bidi);
        match *op {
            Op::Open { bidi } => {
                let next = self.side[side].opened[d(bidi)];
                if next < self.side[side].max_streams[d(bidi)] {
                    vec![Pat::Is(Out::Id(Some(mk_sid(side, bidi, next))))]
                } else {
                    vec![Pat::Is(Out::Id(None))]
                }
            }
            Op::Accept { bidi } => {
                let next = self.side[side].accepted[d(bidi)];
                if next < self.side[side].seen_remote[d(bidi)] {
                    vec![Pat::Is(Out::Id(Some(mk_sid(1 - side, bidi, next))))]
                } else {
                    vec![Pat::Is(Out::Id(None))]
                }
            }
            Op::Write { sid, n } => self.write_pats(&self.streams[&sid].send[side], n as u64, false),
            Op::WriteFull { sid } => self.write_pats(&self.streams[&sid].send[side], 0, true),
            Op::Finish { sid } => {
                let sh = &self.streams[&sid].send[side];
                if let Some(c) = sh.stop_rx {
                    if sh.reset.is_none() && !sh.fin && !sh.stop_reported {
                        return vec![Pat::Is(Out::Stopped(c))];
                    }
                    return vec![Pat::Is(Out::Stopped(c)), Pat::Is(Out::Closed)];
                }
                if sh.reset.is_some() || sh.fin {
                    return vec![Pat::Is(Out::Closed)];
                }
                vec![Pat::Is(Out::Done)]
            }
            Op::Reset { sid, .. } => {
                let sh = &self.streams[&sid].send[side];
                if sh.reset.is_some() {
                    return vec![Pat::Is(Out::Closed)];
                }
                if sh.fin && sh.acked == Tri::Yes {
                    return vec![Pat::Is(Out::Closed)];
                }
                if sh.stop_rx.is_some() || (sh.fin && sh.acked == Tri::Maybe) {
                    // WriteError::Stopped: "it has been implicitly reset"; RFC 9000 3.5 lets the
                    // application answer STOP_SENDING with its own reset
                    return vec![Pat::Is(Out::Done), Pat::Is(Out::Closed)];
                }
                vec![Pat::Is(Out::Done)]
            }
            Op::Stopped { sid } => {
                let sh = &self.streams[&sid].send[side];
                let code = Pat::Is(Out::Code(sh.stop_rx));
                if sh.reset.is_some() {
                    return vec![Pat::Is(Out::Closed), code];
                }
                if sh.fin && sh.acked == Tri::Yes {
                    return vec![Pat::Is(Out::Closed)];
                }
                if (sh.fin && sh.acked == Tri::Maybe) || (sh.stop_rx.is_some() && (sh.stop_reported || sh.fin)) {
                    return vec![Pat::Is(Out::Closed), code];
                }
                vec![code]
            }
            Op::Prio { sid, .. } => {
                let sh = &self.streams[&sid].send[side];
                if sh.fin && sh.acked == Tri::Yes && sh.reset.is_none() {
                    return vec![Pat::Is(Out::Closed)];
                }
                if sh.reset.is_some() || sh.stop_rx.is_some() || (sh.fin && sh.acked == Tri::Maybe) {
                    return vec![Pat::Is(Out::Done), Pat::Is(Out::Closed)];
                }
                vec![Pat::Is(Out::Done)]
            }
            Op::Stop { sid, .. } => {
                let rh = &self.streams[&sid].recv[side];
                if rh.closed() {
                    vec![Pat::Is(Out::Closed)]
                } else {
                    vec![Pat::Is(Out::Done)]
                }
            }
            Op::RecvReset { sid } => {
                let rh = &self.streams[&sid].recv[side];
                if rh.closed() {
                    return vec![Pat::Is(Out::Closed)];
                }
                match rh.reset {
                    // RFC 9000 3.2: a RESET_STREAM arriving in "Data Recvd" may be ignored
                    Some(c) if rh.fin_before_reset => vec![Pat::Is(Out::Code(Some(c))), Pat::Is(Out::Code(None))],
                    Some(c) => vec![Pat::Is(Out::Code(Some(c)))],
                    None => vec![Pat::Is(Out::Code(None))],
                }
            }
            Op::ReadSome { sid, ordered } | Op::ReadAll { sid, ordered } => {
                let all = matches!(op, Op::ReadAll { .. });
                let rh = &self.streams[&sid].recv[side];
                if rh.closed() {
                    return vec![Pat::Is(Out::Closed)];
                }
                if ordered && rh.unordered {
                    return vec![Pat::Is(Out::IllegalOrdered)];
                }
                let avail = rh.data.saturating_sub(rh.read);
                let mut v = vec![];
                if let Some(c) = rh.reset {
                    // RFC 9000 3.2: on RESET_STREAM the receiver may discard data not yet read, or
                    // deliver it first
                    let hi = rh.data_hi.saturating_sub(rh.read);
                    if all {
                        v.push(Pat::Read(0, hi, REnd::Reset(c)));
                        if rh.fin_before_reset {
                            v.push(Pat::Read(avail, avail, REnd::Fin));
                        }
                    } else {
                        v.push(Pat::Read(0, 0, REnd::Reset(c)));
                        if hi > 0 {
                            v.push(Pat::Read(1, hi.min(3), REnd::More));
                        }
                        if rh.fin_before_reset && avail == 0 {
                            v.push(Pat::Read(0, 0, REnd::Fin));
                        }
                    }
                    return v;
                }
                if all {
                    v.push(Pat::Read(avail, avail, if rh.fin { REnd::Fin } else { REnd::Blocked }));
                } else if avail > 0 {
                    v.push(Pat::Read(1, avail.min(3), REnd::More));
                } else {
                    v.push(Pat::Read(0, 0, if rh.fin { REnd::Fin } else { REnd::Blocked }));
                }
                v
            }
        }
    }

    /// State change caused by `op` with outcome `out` (which has been checked to be allowed).
    /// Returns whether anything changed.
    pub fn apply(&mut self, side: usize, op: &Op, out: &Out) -> bool {
        let window = self.window;
        match (*op, *out) {
            (Op::Open { bidi }, Out::Id(Some(id))) => {
                self.side[side].opened[di(bidi)] += 1;
                let st = self.streams.entry(id).or_insert_with(|| MStream {
                    init: side,
                    bidi,
                    send: [SendHalf::new(window), SendHalf::new(window)],
                    recv: [RecvHalf::new(), RecvHalf::new()],
                });
                st.send[side].held = true;
                if bidi {
                    st.recv[side].held = true;
                }
                true
            }
            (Op::Accept { bidi }, Out::Id(Some(id))) => {
                self.side[side].accepted[di(bidi)] += 1;
                if let Some(st) = self.streams.get_mut(&id) {
                    st.recv[side].held = true;
                    if bidi {
                        st.send[side].held = true;
                    }
                }
                true
            }
            (Op::Write { sid, .. }, Out::Wrote(n)) | (Op::WriteFull { sid }, Out::WroteFull(n, WEnd::Blocked)) => {
                let sh = &mut self.streams.get_mut(&sid).unwrap().send[side];
                sh.written += n;
                // learn the credit from a short count
                if matches!(out, Out::WroteFull(..)) {
                    sh.credit_lo = sh.written;
                    sh.credit_hi = sh.written;
                    sh.write_blocked = true;
                }
                if n > 0 {
                    sh.wire_dirty = true;
                    self.side[side].dirty = true;
                }
                n > 0
            }
            (Op::Write { sid, .. }, Out::Blocked) => {
                let sh = &mut self.streams.get_mut(&sid).unwrap().send[side];
                sh.credit_hi = sh.written;
                sh.credit_lo = sh.written;
                sh.write_blocked = true;
                false
            }
            (Op::Write { sid, .. } | Op::WriteFull { sid } | Op::Finish { sid }, Out::Stopped(_) | Out::WroteFull(_, WEnd::Stopped(_))) => {
                let sh = &mut self.streams.get_mut(&sid).unwrap().send[side];
                let was = sh.stop_reported;
                sh.stop_reported = true;
                !was
            }
            (Op::Finish { sid }, Out::Done) => {
                let sh = &mut self.streams.get_mut(&sid).unwrap().send[side];
                sh.fin = true;
                sh.wire_dirty = true;
                self.side[side].dirty = true;
                true
            }
            (Op::Reset { sid, code }, Out::Done) => {
                let sh = &mut self.streams.get_mut(&sid).unwrap().send[side];
                sh.reset = Some(code as u64);
                sh.wire_dirty = true;
                self.side[side].dirty = true;
                true
            }
            (Op::Stop { sid, code }, Out::Done) => {
                let rh = &mut self.streams.get_mut(&sid).unwrap().recv[side];
                rh.stopped = Some(code as u64);
                rh.stop_sends = if rh.fin || rh.reset.is_some() { Tri::Maybe } else { Tri::Yes };
                self.side[side].dirty = true;
                true
            }
            (Op::RecvReset { sid }, Out::Code(Some(_))) => {
                let rh = &mut self.streams.get_mut(&sid).unwrap().recv[side];
                rh.terminal = true;
                self.side[side].dirty = true;
                true
            }
            (Op::ReadSome { sid, .. } | Op::ReadAll { sid, .. }, Out::IllegalOrdered) => {
                self.streams.get_mut(&sid).unwrap().recv[side].illegal_seen = true;
                false
            }
            (Op::ReadSome { sid, ordered } | Op::ReadAll { sid, ordered }, Out::Read(n, end)) => {
                let rh = &mut self.streams.get_mut(&sid).unwrap().recv[side];
                rh.read += n;
                if !ordered {
                    rh.unordered = true;
                }
                let mut changed = n > 0 || !ordered;
                if matches!(end, REnd::Fin | REnd::Reset(_)) {
                    rh.terminal = true;
                    changed = true;
                }
                if changed {
                    self.side[side].dirty = true;
                }
                changed
            }
            _ => false,
        }
    }

    /// Upper bound on the number of `init`-initiated streams of direction `bidi` that the other side
    /// may consider closed (`maybe` included or not)
    fn freed(&self, at: usize, bidi: bool, with_maybe: bool) -> u64 {
        self.freed_where(at, bidi, with_maybe, |_| true)
    }

    fn freed_where(&self, at: usize, bidi: bool, with_maybe: bool, pred: impl Fn(&MStream) -> bool) -> u64 {
        let mut n = 0;
        for (id, st) in &self.streams {
            if st.init == at || st.bidi != bidi || sid_idx(*id) >= self.side[at].seen_remote[di(bidi)] || !pred(st) {
                continue;
            }
            let r = st.recv[at].terminal_acct();
            let s = if st.bidi { st.send[at].terminal() } else { Tri::Yes };
            let both = r.min(s);
            if both == Tri::Yes || (with_maybe && both == Tri::Maybe) {
                n += 1;
            }
        }
        n
    }

    /// Allowed interval for `remote_open_streams(dir)` at side `at`
    pub fn remote_open_bounds(&self, at: usize, bidi: bool) -> (u64, u64) {
        let seen = self.side[at].seen_remote[di(bidi)];
        (seen - self.freed(at, bidi, true), seen - self.freed(at, bidi, false))
    }

    /// Everything `from` has to say is carried to the other side. `frames` is what the observer saw
    /// on the wire (None: prediction mode used by the enumerator).
    pub fn deliver(&mut self, from: usize, frames: Option<&Frames>) -> Result<(), Bad> {
        let to = 1 - from;
        let window = self.window;
        // -- wire-level facts from the observer
        let mut stop_frames: BTreeMap<u64, u64> = BTreeMap::new();
        let mut reset_frames: BTreeMap<u64, u64> = BTreeMap::new();
        if let Some(fr) = frames {
            for f in fr {
                let touched = match *f {
                    OF::Stream { id, .. } | OF::ResetStream { id, .. } => {
                        if let OF::ResetStream { code, .. } = *f {
                            reset_frames.insert(id, code);
                        }
                        if let Some(st) = self.streams.get_mut(&id) {
                            st.recv[to].data_frames_seen = true;
                        }
                        Some(id)
                    }
                    OF::StopSending { id, code } => {
                        stop_frames.insert(id, code);
                        Some(id)
                    }
                    OF::MaxStreamData { id, max } => {
                        if let Some(st) = self.streams.get_mut(&id) {
                            let sh = &mut st.send[to];
                            if max > sh.credit_hi {
                                sh.credit_hi = max;
                            }
                            if max > sh.credit_lo {
                                sh.credit_lo = max;
                            }
                        }
                        Some(id)
                    }
                    OF::StreamDataBlocked { id, .. } => Some(id),
                    OF::MaxStreams { bidi, max } => {
                        // "not before": the sender of this frame may only count streams it is
                        // entitled to consider closed
                        let hi = self.limit + self.freed(from, bidi, true);
                        if max > hi {
                            let lost = self.streams.values().any(|st| st.init != from && st.bidi == bidi && st.recv[from].illegal_seen);
                            return Err(bad(
                                if lost { LOST_AFTER_ILLEGAL } else { "c11/max-streams-early" },
                                format!(
                                    "{} sent MAX_STREAMS({}) = {max} but at most {} of the peer's streams can be closed on both halves (limit {}): a stream stopped counting against the concurrency limit too early",
                                    side_name(from),
                                    if bidi { "bidi" } else { "uni" },
                                    hi - self.limit,
                                    self.limit
                                ),
                            ));
                        }
                        let s = &mut self.side[to];
                        if max > s.max_streams[di(bidi)] {
                            s.max_streams[di(bidi)] = max;
                            s.avail_ok[di(bidi)] = true;
                        }
                        None
                    }
                    _ => None,
                };
                if let Some(id) = touched {
                    if sid_init(id) == from {
                        let d = di(sid_bidi(id));
                        if !self.streams.contains_key(&id) || sid_idx(id) >= self.side[from].opened[d] {
                            return Err(bad("c11/frame-for-unopened-stream", format!("{} sent {f:?} for a stream its application never opened", side_name(from))));
                        }
                        let s = &mut self.side[to];
                        s.seen_remote[d] = s.seen_remote[d].max(sid_idx(id) + 1);
                    }
                }
            }
        }
        let carries = self.side[from].dirty;
        for (id, st) in self.streams.iter_mut() {
            // -- channel from -> to
            if Self::has_send(st, from) {
                let (sh, rh) = (&mut st.send[from], &mut st.recv[to]);
                // A reset reaches the peer when the application called reset(). quinn-proto leaves the
                // RESET_STREAM that RFC 9000 3.5 requires in answer to STOP_SENDING to the application
                // (WriteError::Stopped calls the stream "implicitly reset"): it is taken into account
                // only if the observer sees it on the wire.
                let frame_code = reset_frames.get(id).copied();
                if sh.reset.is_none() && frame_code.is_some() && sh.stop_rx.is_none() {
                    return Err(bad(
                        "c11/spurious-reset-stream",
                        format!("{} sent RESET_STREAM(s{id}) although its application never reset the stream and the peer never stopped it", side_name(from)),
                    ));
                }
                let resetting = sh.reset.or(if sh.reset_sent { None } else { frame_code });
                if let Some(code) = resetting {
                    if !sh.reset_sent {
                        sh.reset_sent = true;
                        if rh.reset.is_none() {
                            rh.fin_before_reset = rh.fin;
                            rh.reset = Some(code);
                            rh.data_hi = rh.data.max(sh.written);
                        }
                    }
                } else if !sh.reset_sent {
                    rh.data = sh.written;
                    rh.data_hi = rh.data_hi.max(rh.data);
                    if sh.fin {
                        rh.fin = true;
                        sh.fin_sent = true;
                    }
                }
                if frames.is_none() && sh.wire_dirty && st.init == from {
                    let d = di(st.bidi);
                    self.side[to].seen_remote[d] = self.side[to].seen_remote[d].max(sid_idx(*id) + 1);
                }
                sh.wire_dirty = false;
            }
            // -- channel to -> from: acknowledgements and STOP_SENDING travel from -> to
            if Self::has_send(st, to) {
                let (sh, rh) = (&mut st.send[to], &mut st.recv[from]);
                if sh.fin_sent && sh.acked == Tri::No {
                    sh.acked = Tri::Maybe;
                }
                if sh.reset_sent && sh.reset_acked == Tri::No {
                    sh.reset_acked = Tri::Maybe;
                }
                let mut got: Option<u64> = None;
                if let Some(code) = rh.stopped {
                    if !rh.stop_flushed {
                        rh.stop_flushed = true;
                        match frames {
                            Some(_) => match stop_frames.get(id) {
                                Some(c) => got = Some(*c),
                                None => {
                                    if rh.stop_sends == Tri::Yes {
                                        return Err(bad(
                                            "c11/stop-sending-missing",
                                            format!("{} stopped s{id} with code {code} before the final size was known, yet no STOP_SENDING frame was transmitted", side_name(from)),
                                        ));
                                    }
                                }
                            },
                            None => {
                                if rh.stop_sends == Tri::Yes {
                                    got = Some(code);
                                }
                            }
                        }
                        if frames.is_none() && st.init == from && st.bidi && got.is_some() {
                            let d = di(st.bidi);
                            self.side[to].seen_remote[d] = self.side[to].seen_remote[d].max(sid_idx(*id) + 1);
                        }
                    } else if let Some(c) = stop_frames.get(id) {
                        // retransmission
                        got = Some(*c);
                    }
                } else if let Some(c) = stop_frames.get(id) {
                    return Err(bad("c11/spurious-stop-sending", format!("{} sent STOP_SENDING(s{id}, {c}) although its application never stopped the stream", side_name(from))));
                }
                if let Some(c) = got {
                    if Some(c) != rh.stopped {
                        return Err(bad("c11/stop-sending-code", format!("STOP_SENDING(s{id}) carries code {c}, the application stopped with {:?}", rh.stopped)));
                    }
                    let fully_closed = (sh.fin && sh.acked == Tri::Yes) || sh.reset_acked == Tri::Yes;
                    if sh.stop_rx.is_none() && !fully_closed {
                        sh.stop_rx = Some(c);
                        // RFC 9000 3.5: STOP_SENDING is ignored unless the stream is "Ready"/"Send"
                        // ("Data Sent": the reset may be deferred)
                        if sh.reset.is_none() && !(sh.fin && sh.acked != Tri::No) && sh.held {
                            sh.stopped_required = true;
                        }
                    }
                }
            }
        }
        if carries {
            self.side[to].dirty = true;
        }
        self.side[from].dirty = false;
        // prediction mode: MAX_STREAMS follows the definite closures
        if frames.is_none() {
            for bidi in [true, false] {
                let v = self.limit + self.freed(from, bidi, false);
                if v > self.side[to].max_streams[di(bidi)] {
                    self.side[to].max_streams[di(bidi)] = v;
                }
            }
            for st in self.streams.values_mut() {
                if Self::has_send(st, to) {
                    let c = st.recv[from].read + window;
                    if st.recv[from].read > 0 && c > st.send[to].credit_hi {
                        st.send[to].credit_hi = c;
                    }
                }
            }
        }
        Ok(())
    }

    /// After a drive to quiescence the credit for every stream that is closed for certain has reached
    /// the peer (the histories use limits <= 3, far below any batching threshold an implementation
    /// may apply to MAX_STREAMS)
    pub fn check_credit_after_sync(&self) -> Result<(), Bad> {
        for at in 0..2 {
            for bidi in [true, false] {
                let need = self.limit + self.freed(at, bidi, false);
                let have = self.side[1 - at].max_streams[di(bidi)];
                if have < need {
                    // streams whose receiving half was closed by stop() after the RESET_STREAM had
                    // arrived (no STOP_SENDING and hence no further traffic follows)
                    let quiet = self.freed_where(at, bidi, false, |st| st.recv[at].stopped.is_some() && st.recv[at].stop_sends == Tri::Maybe && st.recv[at].reset.is_some());
                    return Err(bad(
                        if have >= need - quiet { NO_CREDIT_AFTER_STOP } else { "c11/max-streams-not-raised" },
                        format!(
                            "after driving the connection to quiescence {} has announced MAX_STREAMS({}) = {have} although {} of the peer's streams are closed on both halves (limit {}): closed streams still count against the concurrency limit",
                            side_name(at),
                            if bidi { "bidi" } else { "uni" },
                            need - self.limit,
                            self.limit
                        ),
                    ));
                }
            }
        }
        Ok(())
    }

    /// After a drive to quiescence everything that was sent has been acknowledged
    pub fn quiesced(&mut self) {
        for st in self.streams.values_mut() {
            for sh in st.send.iter_mut() {
                if sh.fin_sent && sh.reset.is_none() {
                    sh.acked = Tri::Yes;
                }
                if sh.fin_sent && sh.reset.is_some() && sh.acked == Tri::No {
                    sh.acked = Tri::Maybe;
                }
                if sh.reset_sent {
                    sh.reset_acked = Tri::Yes;
                }
            }
        }
        self.side[0].dirty = false;
        self.side[1].dirty = false;
    }

    pub fn on_event(&mut self, at: usize, ev: &StreamEvent) -> Result<(), Bad> {
        let who = side_name(at);
        match *ev {
            StreamEvent::Opened { dir } => {
                let d = di(dir == Dir::Bi);
                if self.side[at].seen_remote[d] <= self.side[at].accepted[d] {
                    return Err(bad("c11/opened-unused", format!("{who}: Opened{{{dir:?}}} although the peer has used no stream of that kind that was not accepted yet")));
                }
            }
            StreamEvent::Readable { id } => {
                let id = raw(id);
                let ok = self.streams.get(&id).is_some_and(|st| Self::has_recv(st, at) && st.recv[at].data_frames_seen);
                if !ok {
                    return Err(bad("c11/readable-unused", format!("{who}: Readable{{s{id}}} although no STREAM or RESET_STREAM frame for it was ever delivered")));
                }
            }
            StreamEvent::Writable { id } => {
                let id = raw(id);
                let ok = self.streams.get(&id).is_some_and(|st| Self::has_send(st, at));
                if !ok {
                    return Err(bad("c11/writable-unknown", format!("{who}: Writable{{s{id}}} for a stream without a local sending half")));
                }
            }
            StreamEvent::Finished { id } => {
                let id = raw(id);
                let Some(st) = self.streams.get_mut(&id).filter(|st| Self::has_send(st, at)) else {
                    return Err(bad("c11/finished-unknown", format!("{who}: Finished{{s{id}}} for a stream without a local sending half")));
                };
                let sh = &mut st.send[at];
                if sh.finished_events > 0 {
                    return Err(bad("c11/finished-twice", format!("{who}: Finished{{s{id}}} emitted a second time")));
                }
                if !sh.fin {
                    return Err(bad("c11/finished-without-finish", format!("{who}: Finished{{s{id}}} although no finish() succeeded on it")));
                }
                if !sh.fin_sent || sh.acked == Tri::No {
                    return Err(bad(
                        "c11/finished-before-ack",
                        format!("{who}: Finished{{s{id}}} although the peer cannot have acknowledged the FIN yet (FIN carried to the peer: {}, packets carried back since: none)", sh.fin_sent),
                    ));
                }
                sh.finished_events += 1;
                sh.acked = Tri::Yes;
            }
            StreamEvent::Stopped { id, error_code } => {
                let id = raw(id);
                let code = error_code.into_inner();
                let Some(st) = self.streams.get_mut(&id).filter(|st| Self::has_send(st, at)) else {
                    return Err(bad("c11/stopped-unknown", format!("{who}: Stopped{{s{id}}} for a stream without a local sending half")));
                };
                let sh = &mut st.send[at];
                if sh.stopped_events > 0 {
                    return Err(bad("c11/stopped-twice", format!("{who}: Stopped{{s{id}, {code}}} emitted a second time")));
                }
                match sh.stop_rx {
                    None => return Err(bad("c11/stopped-without-stop", format!("{who}: Stopped{{s{id}, {code}}} although no STOP_SENDING for it was delivered"))),
                    Some(c) if c != code => return Err(bad("c11/stopped-code", format!("{who}: Stopped{{s{id}, {code}}} but the peer stopped with code {c}"))),
                    _ => {}
                }
                sh.stopped_events += 1;
                sh.stopped_required = false;
            }
            StreamEvent::Available { dir } => {
                let d = di(dir == Dir::Bi);
                if !self.side[at].avail_ok[d] {
                    return Err(bad("c11/available-early", format!("{who}: Available{{{dir:?}}} although no MAX_STREAMS raising the limit was delivered")));
                }
            }
        }
        Ok(())
    }

    /// Obligations that must have been met by the end of a step
    pub fn end_of_step(&mut self) -> Result<(), Bad> {
        for (id, st) in self.streams.iter_mut() {
            for at in 0..2 {
                if st.send[at].stopped_required {
                    st.send[at].stopped_required = false;
                    return Err(bad(
                        "c11/stopped-event-missing",
                        format!("{}: STOP_SENDING(s{id}, {:?}) was delivered while the sending half was open, but no Stopped event was emitted", side_name(at), st.send[at].stop_rx),
                    ));
                }
            }
        }
        Ok(())
    }
}

fn side_name(s: usize) -> &'static str {
    if s == SA {
        "A"
    } else {
        "B"
    }
}

// ---------------------------------------------------------------------------------------------
// Executor
// ---------------------------------------------------------------------------------------------

pub struct Exec {
    pub w: World,
    pub k: [usize; 2],
}

fn net_spec(h: &Hist) -> NetSpec {
    let mut net = NetSpec::default();
    for tc in [&mut net.client_tc, &mut net.server_tc] {
        tc.max_bidi = h.limit as u64;
        tc.max_uni = h.limit as u64;
        tc.stream_recv_window = h.window as u64;
        tc.mtud = None;
        tc.idle_ms = None;
        tc.keep_alive_ms = None;
        tc.gso = false;
    }
    net.client_ep.allow_mtud = false;
    net.server_ep.allow_mtud = false;
    net
}

impl Exec {
    pub fn new(h: &Hist) -> Result<Self, CaseOut> {
        let mut w = World::new(net_spec(h));
        w.record = false;
        w.observe = false;
        let empty = ConnLoad { client: SideLoad::default(), server: SideLoad::default() };
        let cl = match w.connect(CLIENT_EP, empty) {
            Ok(k) => k,
            Err(e) => return Err(CaseOut::inconclusive(format!("connect failed: {e:?}"))),
        };
        w.run(1_000_000, |_| false);
        let Some(sv) = w.conns[cl].peer else { return Err(CaseOut::inconclusive("handshake did not complete")) };
        for k in [cl, sv] {
            let c = &w.conns[k];
            if c.c.is_handshaking() || c.c.is_closed() || c.lost_at.is_some() || !c.app.connected {
                return Err(CaseOut::inconclusive("handshake did not complete"));
            }
        }
        if !w.queue.is_empty() {
            return Err(CaseOut::inconclusive("link not empty after the handshake"));
        }
        w.record = true;
        w.observe = true;
        w.trace.clear();
        Ok(Self { w, k: [cl, sv] })
    }

    fn conn(&mut self, side: usize) -> &mut Connection {
        &mut self.w.conns[self.k[side]].c
    }

    /// One directional network step; returns the frames carried and the number of datagrams
    pub fn net(&mut self, from: usize) -> (Frames, usize) {
        self.w.manual_advance(NET_STEP_US);
        self.w.trace.clear();
        let kf = self.k[from];
        let n = self.w.manual_flush(kf);
        let to_ep = self.w.conns[self.k[1 - from]].ep;
        self.w.manual_deliver_to(to_ep);
        let mut frames = vec![];
        for r in &self.w.trace {
            if let Rec::Tx { conn, dgrams, .. } = r {
                if *conn == kf {
                    for d in dgrams {
                        for p in &d.pkts {
                            for f in p.frames.iter().flatten() {
                                if !matches!(f, OF::Padding(_)) {
                                    frames.push(f.clone());
                                }
                            }
                        }
                    }
                }
            }
        }
        self.w.trace.clear();
        (frames, n)
    }

    pub fn events(&mut self, side: usize) -> Result<Vec<StreamEvent>, Bad> {
        let mut v = vec![];
        while let Some(e) = self.conn(side).poll() {
            match e {
                Event::Stream(s) => v.push(s),
                Event::ConnectionLost { reason } => {
                    return Err(bad("c11/connection-lost", format!("{} lost the connection although both applications only performed stream operations: {reason:?}", side_name(side))))
                }
                _ => {}
            }
        }
        Ok(v)
    }

    /// Perform one in-domain operation. `read_off` is the model's read offset of the stream half
    /// (for content checking).
    pub fn op(&mut self, side: usize, op: &Op, read_off: u64, write_off: u64) -> Result<Out, Bad> {
        let c = self.conn(side);
        Ok(match *op {
            Op::Open { bidi } => Out::Id(c.streams().open(qdir(bidi)).map(raw)),
            Op::Accept { bidi } => Out::Id(c.streams().accept(qdir(bidi)).map(raw)),
            Op::Write { sid, n } => {
                let data: Vec<u8> = (0..n as u64).map(|i| content(side, sid, write_off + i)).collect();
                match c.send_stream(qsid(sid)).write(&data) {
                    Ok(k) => Out::Wrote(k as u64),
                    Err(WriteError::Blocked) => Out::Blocked,
                    Err(WriteError::Stopped(c)) => Out::Stopped(c.into_inner()),
                    Err(WriteError::ClosedStream) => Out::Closed,
                }
            }
            Op::WriteFull { sid } => {
                let mut total = 0u64;
                loop {
                    let data: Vec<u8> = (0..7u64).map(|i| content(side, sid, write_off + total + i)).collect();
                    match c.send_stream(qsid(sid)).write(&data) {
                        Ok(0) => return Err(bad("c11/write-zero", format!("write on s{sid} returned Ok(0) for a non-empty buffer"))),
                        Ok(k) => total += k as u64,
                        Err(WriteError::Blocked) => break Out::WroteFull(total, WEnd::Blocked),
                        Err(WriteError::Stopped(c)) => break Out::WroteFull(total, WEnd::Stopped(c.into_inner())),
                        Err(WriteError::ClosedStream) => break Out::WroteFull(total, WEnd::Closed),
                    }
                    if total > 1 << 20 {
                        return Err(bad("c11/write-unbounded", format!("more than 1 MiB accepted on s{sid} without Blocked")));
                    }
                }
            }
            Op::Finish { sid } => match c.send_stream(qsid(sid)).finish() {
                Ok(()) => Out::Done,
                Err(FinishError::Stopped(c)) => Out::Stopped(c.into_inner()),
                Err(FinishError::ClosedStream) => Out::Closed,
            },
            Op::Reset { sid, code } => match c.send_stream(qsid(sid)).reset(VarInt::from_u32(code)) {
                Ok(()) => Out::Done,
                Err(_) => Out::Closed,
            },
            Op::Stop { sid, code } => match c.recv_stream(qsid(sid)).stop(VarInt::from_u32(code)) {
                Ok(()) => Out::Done,
                Err(_) => Out::Closed,
            },
            Op::Stopped { sid } => match c.send_stream(qsid(sid)).stopped() {
                Ok(v) => Out::Code(v.map(|c| c.into_inner())),
                Err(_) => Out::Closed,
            },
            Op::RecvReset { sid } => match c.recv_stream(qsid(sid)).received_reset() {
                Ok(v) => Out::Code(v.map(|c| c.into_inner())),
                Err(_) => Out::Closed,
            },
            Op::Prio { sid, p } => match c.send_stream(qsid(sid)).set_priority(p as i32) {
                Ok(()) => Out::Done,
                Err(_) => Out::Closed,
            },
            Op::ReadSome { sid, ordered } | Op::ReadAll { sid, ordered } => {
                let all = matches!(op, Op::ReadAll { .. });
                let mut rs = c.recv_stream(qsid(sid));
                let mut chunks = match rs.read(ordered) {
                    Ok(ch) => ch,
                    Err(ReadableError::ClosedStream) => return Ok(Out::Closed),
                    Err(ReadableError::IllegalOrderedRead) => return Ok(Out::IllegalOrdered),
                };
                let mut total = 0u64;
                let mut problem: Option<String> = None;
                let end = loop {
                    match chunks.next(if all { usize::MAX } else { 3 }) {
                        Ok(Some(ch)) => {
                            if ch.bytes.is_empty() {
                                problem.get_or_insert(format!("empty chunk at offset {}", ch.offset));
                                break REnd::More;
                            }
                            if ch.offset != read_off + total {
                                problem.get_or_insert(format!("chunk at offset {} where {} was expected", ch.offset, read_off + total));
                            }
                            for (i, b) in ch.bytes.iter().enumerate() {
                                if *b != content(1 - side, sid, ch.offset + i as u64) {
                                    problem.get_or_insert(format!("byte at offset {} differs from what the peer wrote", ch.offset + i as u64));
                                }
                            }
                            total += ch.bytes.len() as u64;
                            if !all {
                                break REnd::More;
                            }
                        }
                        Ok(None) => break REnd::Fin,
                        Err(ReadError::Blocked) => break REnd::Blocked,
                        Err(ReadError::Reset(c)) => break REnd::Reset(c.into_inner()),
                    }
                };
                let _ = chunks.finalize();
                if let Some(p) = problem {
                    return Err(bad("c11/read-content", format!("read on s{sid}: {p}")));
                }
                Out::Read(total, end)
            }
        })
    }
}

/// Per-step record for failure messages
#[derive(Clone, Debug)]
struct Line {
    step: String,
    what: String,
}

fn render(lines: &[Line]) -> String {
    let mut s = String::new();
    for (i, l) in lines.iter().enumerate() {
        s += &format!("{:>3}. {:<34} {}\n", i + 1, l.step, l.what);
    }
    s
}

#[derive(Default)]
struct Facts {
    terminal_ops: u32,
    dependent: u32,
    skipped: u32,
    labels: Vec<&'static str>,
}

impl Facts {
    fn label(&mut self, l: &'static str) {
        if !self.labels.contains(&l) {
            self.labels.push(l);
        }
    }
}

/// Diagnostic labels (QV_C11_SETS): which member of a set-valued prediction the implementation took
fn intern(s: String) -> &'static str {
    static T: Mutex<BTreeMap<String, &'static str>> = Mutex::new(BTreeMap::new());
    let mut t = T.lock().unwrap();
    if let Some(v) = t.get(&s) {
        return v;
    }
    let l: &'static str = Box::leak(s.clone().into_boxed_str());
    t.insert(s, l);
    l
}

fn env_flag(name: &'static str) -> bool {
    static FLAGS: std::sync::OnceLock<(bool, bool)> = std::sync::OnceLock::new();
    let f = FLAGS.get_or_init(|| (std::env::var("QV_C11_DUMP").is_ok(), std::env::var("QV_C11_SETS").is_ok()));
    match name {
        "QV_C11_DUMP" => f.0,
        _ => f.1,
    }
}

const NO_CREDIT_AFTER_STOP: &str = "c11/max-streams-not-raised-after-stop-of-reset-stream";
const LOST_AFTER_ILLEGAL: &str = "c11/recv-half-lost-after-illegal-ordered-read";

fn check_accounting(ex: &mut Exec, m: &Model) -> Result<(), Bad> {
    for at in 0..2 {
        for bidi in [true, false] {
            let got = ex.conn(at).streams().remote_open_streams(qdir(bidi));
            let (lo, hi) = m.remote_open_bounds(at, bidi);
            if got < lo || got > hi {
                let why = if got < lo {
                    "a peer-initiated stream stopped counting against the concurrency limit although one of its halves is not terminal"
                } else {
                    "a peer-initiated stream still counts against the concurrency limit although both of its halves are terminal"
                };
                let lost = m.streams.values().any(|st| st.init != at && st.bidi == bidi && st.recv[at].illegal_seen);
                return Err(bad(
                    if lost {
                        LOST_AFTER_ILLEGAL
                    } else if got < lo {
                        "c11/concurrency-early"
                    } else {
                        "c11/concurrency-late"
                    },
                    format!("{}: remote_open_streams({}) = {got}, the model allows {lo}..={hi}: {why}", side_name(at), if bidi { "bidi" } else { "uni" }),
                ));
            }
        }
    }
    Ok(())
}

fn run_steps(h: &Hist, ex: &mut Exec, lines: &mut Vec<Line>, facts: &mut Facts) -> Result<(), Bad> {
    let mut m = Model::new(h);
    for st0 in &h.steps {
        let mut resolved = *st0;
        if h.relative {
            resolved = match st0 {
                Step::A(op) => m.resolve(SA, op).map(Step::A).unwrap_or(*st0),
                Step::B(op) => m.resolve(SB, op).map(Step::B).unwrap_or(*st0),
                other => *other,
            };
        }
        let st = &resolved;
        let mut line = Line { step: fmt_step(st), what: String::new() };
        let r = (|| -> Result<(), Bad> {
            match st {
                Step::A(op) | Step::B(op) => {
                    let side = if matches!(st, Step::A(_)) { SA } else { SB };
                    if !m.in_domain(side, op) {
                        facts.skipped += 1;
                        line.what = "(skipped: handle not held)".into();
                        return Ok(());
                    }
                    let allowed = m.allowed(side, op);
                    let (roff, woff) = match op.sid() {
                        Some(s) => (m.streams[&s].recv[side].read, m.streams[&s].send[side].written),
                        None => (0, 0),
                    };
                    let out = ex.op(side, op, roff, woff)?;
                    line.what = format!("{out:?}");
                    if !allowed.iter().any(|p| p.matches(&out)) {
                        line.what += &format!("   <-- model allows {allowed:?}");
                        if out == Out::Closed && !op.is_send_op() && op.sid().is_some_and(|s| m.streams[&s].recv[side].illegal_seen) {
                            return Err(bad(
                                LOST_AFTER_ILLEGAL,
                                format!("{} returned ClosedStream although the reader never saw a terminal outcome: the receiving half vanished when an earlier read() returned IllegalOrderedRead", fmt_step(st)),
                            ));
                        }
                        return Err(bad(&format!("c11/op-{}", op.kind()), format!("{} returned {out:?}; the stream state machine allows {allowed:?}", fmt_step(st))));
                    }
                    if allowed.len() > 1 {
                        facts.label("outcome-from-a-set");
                        if env_flag("QV_C11_SETS") {
                            facts.label(intern(format!("set {} {:?} -> {:?}", op.kind(), allowed, out)));
                        }
                    }
                    m.apply(side, op, &out);
                    match (op, &out) {
                        (Op::Finish { .. } | Op::Reset { .. } | Op::Stop { .. }, Out::Done) => facts.terminal_ops += 1,
                        _ => {}
                    }
                    match out {
                        Out::Read(n, e) => {
                            if n > 0 || matches!(e, REnd::Fin | REnd::Reset(_)) {
                                facts.dependent += 1;
                            }
                            match e {
                                REnd::Fin => facts.label("read-fin"),
                                REnd::Reset(_) => facts.label("read-reset"),
                                _ => {}
                            }
                        }
                        Out::Stopped(_) | Out::WroteFull(_, WEnd::Stopped(_)) => {
                            facts.dependent += 1;
                            facts.label("op-stopped");
                        }
                        Out::Code(Some(_)) => {
                            facts.dependent += 1;
                            facts.label("code-query");
                        }
                        Out::Id(Some(id)) => {
                            if matches!(op, Op::Accept { .. }) {
                                facts.dependent += 1;
                            } else if sid_idx(id) >= h.limit as u64 {
                                facts.dependent += 1;
                                facts.label("open-after-limit-raised");
                            }
                        }
                        Out::Id(None) if matches!(op, Op::Open { .. }) => facts.label("open-at-limit"),
                        Out::Blocked | Out::WroteFull(_, WEnd::Blocked) => facts.label("write-blocked"),
                        Out::Closed | Out::WroteFull(_, WEnd::Closed) => facts.label("closed-stream"),
                        _ => {}
                    }
                }
                Step::AtoB | Step::BtoA => {
                    let from = if matches!(st, Step::AtoB) { SA } else { SB };
                    let (frames, n) = ex.net(from);
                    line.what = format!("{n} datagram(s): {}", brief(&frames));
                    m.deliver(from, Some(&frames))?;
                }
                Step::Sync => {
                    let mut rounds = 0;
                    let mut desc = String::new();
                    loop {
                        rounds += 1;
                        let (fa, na) = ex.net(SA);
                        m.deliver(SA, Some(&fa))?;
                        poll_events(ex, &mut m, &mut desc, facts)?;
                        let (fb, nb) = ex.net(SB);
                        m.deliver(SB, Some(&fb))?;
                        if na + nb > 0 {
                            desc += &format!("[A->B {} | B->A {}] ", brief(&fa), brief(&fb));
                        }
                        if na + nb == 0 {
                            break;
                        }
                        poll_events(ex, &mut m, &mut desc, facts)?;
                        if rounds > 40 {
                            return Err(bad("c11/no-quiescence", "the connection pair still exchanges packets after 40 rounds without application activity".into()));
                        }
                    }
                    m.quiesced();
                    line.what = format!("{} round(s) {desc}", rounds);
                    m.check_credit_after_sync()?;
                }
            }
            let mut desc = String::new();
            let r = poll_events(ex, &mut m, &mut desc, facts);
            line.what += &desc;
            r?;
            m.end_of_step()?;
            if let Some(v) = ex.w.viol.first() {
                return Err(bad(&v.sig.clone(), v.msg.clone()));
            }
            check_accounting(ex, &m)
        })();
        lines.push(line);
        r?;
    }
    Ok(())
}

fn poll_events(ex: &mut Exec, m: &mut Model, desc: &mut String, facts: &mut Facts) -> Result<(), Bad> {
    for at in 0..2 {
        let evs = ex.events(at)?;
        for e in &evs {
            *desc += &format!(" {}!{e:?}", side_name(at));
        }
        for e in &evs {
            m.on_event(at, e)?;
            match e {
                StreamEvent::Finished { .. } => {
                    facts.dependent += 1;
                    facts.label("ev-finished")
                }
                StreamEvent::Stopped { .. } => {
                    facts.dependent += 1;
                    facts.label("ev-stopped")
                }
                StreamEvent::Available { .. } => facts.label("ev-available"),
                _ => {}
            }
        }
    }
    Ok(())
}

fn brief(fr: &Frames) -> String {
    let mut v = vec![];
    for f in fr {
        v.push(match f {
            OF::Ack { .. } => "ACK".to_string(),
            OF::Stream { id, offset, len, fin } => format!("STREAM(s{id} {offset}+{len}{})", if *fin { " FIN" } else { "" }),
            OF::ResetStream { id, code, final_size } => format!("RESET_STREAM(s{id} code {code} size {final_size})"),
            OF::StopSending { id, code } => format!("STOP_SENDING(s{id} code {code})"),
            OF::MaxStreamData { id, max } => format!("MAX_STREAM_DATA(s{id} {max})"),
            OF::MaxStreams { bidi, max } => format!("MAX_STREAMS({} {max})", if *bidi { "bi" } else { "uni" }),
            OF::StreamDataBlocked { id, limit } => format!("STREAM_DATA_BLOCKED(s{id} {limit})"),
            OF::StreamsBlocked { bidi, limit } => format!("STREAMS_BLOCKED({} {limit})", if *bidi { "bi" } else { "uni" }),
            OF::MaxData(v) => format!("MAX_DATA({v})"),
            OF::Ping => "PING".to_string(),
            other => format!("{other:?}").chars().take(24).collect(),
        });
    }
    v.join(" ")
}

/// Execute one history (pure function of `h`)
pub fn case(h: &Hist) -> CaseOut {
    let mut ex = match Exec::new(h) {
        Ok(e) => e,
        Err(o) => return o,
    };
    let mut lines = vec![];
    let mut facts = Facts::default();
    let r = catch(|| run_steps(h, &mut ex, &mut lines, &mut facts));
    let header = format!("max_concurrent_streams {} stream_receive_window {}; A = client, B = server\n", h.limit, h.window);
    match r {
        Err(p) => {
            let mut o = panic_to_case(p, false);
            if let Verdict::Fail { msg, .. } = &mut o.verdict {
                *msg = format!("{msg}\nhistory ({header}):\n{}     then: {}", render(&lines), h.steps.get(lines.len()).map(fmt_step).unwrap_or_default());
            }
            o
        }
        Ok(Err((sig, msg))) => CaseOut::fail(sig, format!("{msg}\n{header}{}", render(&lines))),
        Ok(Ok(())) => {
            let nontrivial = facts.terminal_ops >= 1 && facts.dependent >= 1;
            if env_flag("QV_C11_DUMP") {
                println!("{header}{}", render(&lines));
            }
            CaseOut { verdict: Verdict::Pass, labels: facts.labels.clone(), nontrivial, summary: Some(json!({"steps": h.steps.iter().map(fmt_step).collect::<Vec<_>>(), "skipped": facts.skipped})) }
        }
    }
}

// ---------------------------------------------------------------------------------------------
// Exhaustive enumeration of histories on one stream
// ---------------------------------------------------------------------------------------------

#[derive(Clone, Debug)]
pub struct EnumPlan {
    pub name: &'static str,
    pub init: usize,
    pub bidi: bool,
    pub limit: u8,
    pub window: u16,
    /// fixed steps executed before the enumerated part
    pub prefix: Vec<Step>,
    pub depth: usize,
    /// false: steps the model considers to change nothing may only be the last step of a history
    pub full_interior: bool,
}

fn on(side: usize, op: Op) -> Step {
    if side == SA {
        Step::A(op)
    } else {
        Step::B(op)
    }
}

/// The fixed prefix "stream opened, three bytes written and carried, accepted by the peer"
pub fn established(init: usize, bidi: bool) -> Vec<Step> {
    let s = mk_sid(init, bidi, 0);
    vec![on(init, Op::Open { bidi }), on(init, Op::Write { sid: s, n: 3 }), if init == SA { Step::AtoB } else { Step::BtoA }, on(1 - init, Op::Accept { bidi })]
}

fn alphabet(p: &EnumPlan) -> Vec<Step> {
    let s = mk_sid(p.init, p.bidi, 0);
    let (i, q) = (p.init, 1 - p.init);
    let mut v = vec![on(i, Op::Open { bidi: p.bidi }), on(q, Op::Accept { bidi: p.bidi })];
    let send_ops = |side: usize, v: &mut Vec<Step>| {
        v.push(on(side, Op::Write { sid: s, n: 3 }));
        v.push(on(side, Op::WriteFull { sid: s }));
        v.push(on(side, Op::Finish { sid: s }));
        v.push(on(side, Op::Reset { sid: s, code: 7 + side as u32 }));
        v.push(on(side, Op::Stopped { sid: s }));
        v.push(on(side, Op::Prio { sid: s, p: 1 }));
    };
    let recv_ops = |side: usize, v: &mut Vec<Step>| {
        v.push(on(side, Op::ReadSome { sid: s, ordered: true }));
        v.push(on(side, Op::ReadAll { sid: s, ordered: true }));
        v.push(on(side, Op::Stop { sid: s, code: 5 + side as u32 }));
        v.push(on(side, Op::RecvReset { sid: s }));
    };
    send_ops(i, &mut v);
    recv_ops(q, &mut v);
    if p.bidi {
        send_ops(q, &mut v);
        recv_ops(i, &mut v);
    }
    v.extend([Step::AtoB, Step::BtoA, Step::Sync]);
    // canonical order: A's operations, then B's, then the network
    v.sort_by_key(|s| match s {
        Step::A(_) => 0,
        Step::B(_) => 1,
        _ => 2,
    });
    v
}

/// Model-only execution of a step (prediction mode: the first allowed outcome is taken). Returns
/// None when the step is outside the domain, otherwise whether the model state changed.
fn predict(m: &mut Model, st: &Step) -> Option<bool> {
    match st {
        Step::A(op) | Step::B(op) => {
            let side = if matches!(st, Step::A(_)) { SA } else { SB };
            if !m.in_domain(side, op) {
                return None;
            }
            let pats = m.allowed(side, op);
            let out = match pats[0] {
                Pat::Is(o) => o,
                Pat::Wrote(_, hi) => Out::Wrote(hi),
                Pat::WroteFull(_, hi, e) => Out::WroteFull(hi, e),
                Pat::Read(_, hi, e) => Out::Read(hi, e),
            };
            Some(m.apply(side, op, &out))
        }
        Step::AtoB | Step::BtoA => {
            let from = if matches!(st, Step::AtoB) { SA } else { SB };
            if !m.side[from].dirty {
                return Some(false);
            }
            let _ = m.deliver(from, None);
            Some(true)
        }
        Step::Sync => {
            if !m.side[SA].dirty && !m.side[SB].dirty {
                return Some(false);
            }
            for _ in 0..2 {
                let _ = m.deliver(SA, None);
                let _ = m.deliver(SB, None);
            }
            m.quiesced();
            Some(true)
        }
    }
}

struct EnumCtx<'a> {
    plan: &'a EnumPlan,
    alpha: Vec<Step>,
    /// number of enumerated steps after which a subtree becomes a unit of work
    split: usize,
}

trait Visitor {
    /// called once per unit of work (subtree at the split level, or maximal history above it), in
    /// the same order by every visitor; false = not mine
    fn claim(&mut self) -> bool;
    /// a maximal history; false = stop the whole enumeration
    fn leaf(&mut self, hist: &[Step]) -> bool;
}

impl EnumCtx<'_> {
    /// Visit every maximal canonical history below `hist` (depth-first).
    /// Returns (number of children of this node, whether to go on).
    fn dfs(&self, m: &Model, hist: &mut Vec<Step>, left: usize, opens: u32, vis: &mut dyn Visitor) -> (u64, bool) {
        let mut children = 0u64;
        let level = hist.len() - self.plan.prefix.len();
        for st in &self.alpha {
            // partial-order reduction: between two network steps A's and B's operations act on
            // different Connection objects and commute; only "A's first" is visited
            // (the fixed prefix is not part of the enumeration and imposes no order)
            if let (true, Some(Step::B(_)), Step::A(_)) = (level > 0, hist.last(), st) {
                continue;
            }
            let is_open = matches!(st, Step::A(Op::Open { .. }) | Step::B(Op::Open { .. }));
            if is_open && opens >= 2 {
                continue;
            }
            let mut m2 = m.clone();
            let Some(changed) = predict(&mut m2, st) else { continue };
            let mut as_leaf = left == 1;
            if !changed {
                // a step that changes nothing is not repeated, and a network step that carries
                // nothing is dropped altogether
                if matches!(st, Step::AtoB | Step::BtoA | Step::Sync) || hist.last() == Some(st) {
                    continue;
                }
                if !self.plan.full_interior {
                    // reduced plan: only visited as the last step of the history ending here
                    as_leaf = true;
                }
            }
            hist.push(*st);
            children += 1;
            let mut go = true;
            let lvl = level + 1;
            if as_leaf {
                if lvl > self.split || vis.claim() {
                    go = vis.leaf(hist);
                }
            } else if lvl != self.split || vis.claim() {
                let (n, g) = self.dfs(&m2, hist, left - 1, opens + is_open as u32, vis);
                go = g;
                if n == 0 && go && (lvl >= self.split || vis.claim()) {
                    go = vis.leaf(hist);
                }
            }
            hist.pop();
            if !go {
                return (children, false);
            }
        }
        (children, true)
    }
}

/// Greedy minimisation of a failing history: drop steps while the same signature is reported
fn shrink_hist(h: &Hist, sig: &str) -> (Hist, String) {
    let mut cur = h.clone();
    let fails = |c: &Hist| -> Option<String> {
        let out = match catch(|| case(c)) {
            Ok(o) => o,
            Err(p) => panic_to_case(p, false),
        };
        match out.verdict {
            Verdict::Fail { sig: s, msg } if s == sig => Some(msg),
            _ => None,
        }
    };
    let mut msg = fails(&cur).unwrap_or_default();
    loop {
        let mut progress = false;
        let mut i = cur.steps.len();
        while i > 0 {
            i -= 1;
            let mut t = cur.clone();
            t.steps.remove(i);
            if let Some(mm) = fails(&t) {
                cur = t;
                msg = mm;
                progress = true;
            }
        }
        if !progress {
            break;
        }
    }
    (cur, msg)
}

struct Shared<'a> {
    report: &'a Report,
    plan: &'a EnumPlan,
    stop: AtomicBool,
    evals: AtomicU64,
    nontriv: AtomicU64,
    inconclusive: AtomicU64,
    claimed: Vec<AtomicBool>,
    samples: Mutex<Vec<Value>>,
    failure: Mutex<Option<(Hist, String, String)>>,
}

/// Counts the units of work (subtrees at the split level and maximal histories above it)
struct CountVis {
    units: usize,
}

impl Visitor for CountVis {
    fn claim(&mut self) -> bool {
        self.units += 1;
        false
    }
    fn leaf(&mut self, _h: &[Step]) -> bool {
        true
    }
}

struct WorkVis<'a, 'b> {
    sh: &'a Shared<'b>,
    unit: usize,
    local: BTreeMap<&'static str, u64>,
}

impl WorkVis<'_, '_> {
    fn run_one(&mut self, steps: &[Step]) -> bool {
        let sh = self.sh;
        if sh.stop.load(Ordering::Relaxed) {
            return false;
        }
        let h = Hist { limit: sh.plan.limit, window: sh.plan.window, relative: false, steps: steps.to_vec() };
        let out = match catch(|| case(&h)) {
            Ok(o) => o,
            Err(p) => panic_to_case(p, false),
        };
        sh.evals.fetch_add(1, Ordering::Relaxed);
        match out.verdict {
            Verdict::Pass => {
                if out.nontrivial {
                    sh.nontriv.fetch_add(1, Ordering::Relaxed);
                    if let Ok(mut s) = sh.samples.try_lock() {
                        if s.len() < 3 {
                            s.push(json!({"history": steps.iter().map(fmt_step).collect::<Vec<_>>(), "labels": out.labels}));
                        }
                    }
                }
                for l in out.labels {
                    *self.local.entry(l).or_insert(0) += 1;
                }
                true
            }
            Verdict::Fail { sig, msg } => {
                if sh.report.is_known(&sig) {
                    *sh.report.known_hits.lock().unwrap().entry(sig).or_insert(0) += 1;
                    return true;
                }
                sh.stop.store(true, Ordering::Relaxed);
                let mut f = sh.failure.lock().unwrap();
                if f.is_none() {
                    *f = Some((h, sig, msg));
                }
                false
            }
            Verdict::Discard(_) => true,
            Verdict::Inconclusive(_) => {
                sh.inconclusive.fetch_add(1, Ordering::Relaxed);
                true
            }
        }
    }
}

impl Visitor for WorkVis<'_, '_> {
    fn claim(&mut self) -> bool {
        let i = self.unit;
        self.unit += 1;
        !self.sh.stop.load(Ordering::Relaxed) && !self.sh.claimed[i].swap(true, Ordering::Relaxed)
    }
    fn leaf(&mut self, h: &[Step]) -> bool {
        self.run_one(h)
    }
}

const SPLIT: usize = 3;

/// Count the histories of a plan without executing them
pub fn count_plan(plan: &EnumPlan) -> u64 {
    struct C(u64);
    impl Visitor for C {
        fn claim(&mut self) -> bool {
            true
        }
        fn leaf(&mut self, _h: &[Step]) -> bool {
            self.0 += 1;
            true
        }
    }
    let ctx = EnumCtx { plan, alpha: alphabet(plan), split: usize::MAX };
    let (m0, opens0) = plan_start(plan);
    let mut c = C(0);
    let mut h = plan.prefix.clone();
    ctx.dfs(&m0, &mut h, plan.depth, opens0, &mut c);
    c.0
}

fn plan_start(plan: &EnumPlan) -> (Model, u32) {
    let base = Hist { limit: plan.limit, window: plan.window, relative: false, steps: plan.prefix.clone() };
    let mut m0 = Model::new(&base);
    for st in &plan.prefix {
        let _ = predict(&mut m0, st);
    }
    let opens0 = plan.prefix.iter().filter(|s| matches!(s, Step::A(Op::Open { .. }) | Step::B(Op::Open { .. }))).count() as u32;
    (m0, opens0)
}

fn run_enum(report: &Report, plan: &EnumPlan, rule: &str) -> bool {
    if !report.wants(plan.name) {
        return true;
    }
    let started = Instant::now();
    let split = plan.depth.min(SPLIT);
    let ctx = EnumCtx { plan, alpha: alphabet(plan), split };
    let (m0, opens0) = plan_start(plan);
    let mut cv = CountVis { units: 0 };
    ctx.dfs(&m0, &mut plan.prefix.clone(), plan.depth, opens0, &mut cv);
    let sh = Shared {
        report,
        plan,
        stop: AtomicBool::new(false),
        evals: AtomicU64::new(0),
        nontriv: AtomicU64::new(0),
        inconclusive: AtomicU64::new(0),
        claimed: (0..cv.units).map(|_| AtomicBool::new(false)).collect(),
        samples: Mutex::new(vec![]),
        failure: Mutex::new(None),
    };
    let classes: Mutex<BTreeMap<String, u64>> = Mutex::new(BTreeMap::new());
    std::thread::scope(|scope| {
        for _ in 0..report.opts.threads.max(1) {
            scope.spawn(|| {
                let mut vis = WorkVis { sh: &sh, unit: 0, local: BTreeMap::new() };
                ctx.dfs(&m0, &mut plan.prefix.clone(), plan.depth, opens0, &mut vis);
                let mut c = classes.lock().unwrap();
                for (k, v) in vis.local {
                    *c.entry(k.to_string()).or_insert(0) += v;
                }
            });
        }
    });
    let failed = sh.failure.into_inner().unwrap();
    let sub = SubStats {
        name: plan.name.to_string(),
        rule: rule.to_string(),
        evaluations: sh.evals.load(Ordering::Relaxed),
        distinct_nontrivial: sh.nontriv.load(Ordering::Relaxed),
        discards: 0,
        inconclusive: sh.inconclusive.load(Ordering::Relaxed),
        exhaustive: failed.is_none(),
        classes: classes.into_inner().unwrap(),
        samples: sh.samples.into_inner().unwrap(),
        wall_s: started.elapsed().as_secs_f64(),
    };
    println!(
        "  [{}] histories={} nontrivial={} inconclusive={} exhaustive={} {:.1}s classes={:?}",
        plan.name, sub.evaluations, sub.distinct_nontrivial, sub.inconclusive, sub.exhaustive, sub.wall_s, sub.classes
    );
    report.add_sub(sub);
    match failed {
        Some((h, sig, _msg)) => {
            let (small, msg) = shrink_hist(&h, &sig);
            report.fail_direct(plan.name, &sig, msg, serde_json::to_value(&small).unwrap());
            false
        }
        None => true,
    }
}

// ---------------------------------------------------------------------------------------------
// Random histories on up to three streams
// ---------------------------------------------------------------------------------------------

fn arb_sid() -> impl Strategy<Value = u64> {
    // a selector, see `Hist::relative`
    0u64..6
}

fn arb_op() -> impl Strategy<Value = Op> {
    prop_oneof![
        3 => any::<bool>().prop_map(|bidi| Op::Open { bidi }),
        3 => any::<bool>().prop_map(|bidi| Op::Accept { bidi }),
        4 => (arb_sid(), 1u8..12).prop_map(|(sid, n)| Op::Write { sid, n }),
        1 => arb_sid().prop_map(|sid| Op::WriteFull { sid }),
        3 => arb_sid().prop_map(|sid| Op::Finish { sid }),
        2 => (arb_sid(), 0u32..50).prop_map(|(sid, code)| Op::Reset { sid, code }),
        2 => (arb_sid(), 50u32..100).prop_map(|(sid, code)| Op::Stop { sid, code }),
        3 => (arb_sid(), prop_oneof![5 => Just(true), 1 => Just(false)]).prop_map(|(sid, ordered)| Op::ReadSome { sid, ordered }),
        3 => (arb_sid(), prop_oneof![5 => Just(true), 1 => Just(false)]).prop_map(|(sid, ordered)| Op::ReadAll { sid, ordered }),
        1 => arb_sid().prop_map(|sid| Op::Stopped { sid }),
        1 => arb_sid().prop_map(|sid| Op::RecvReset { sid }),
        1 => (arb_sid(), -2i8..3).prop_map(|(sid, p)| Op::Prio { sid, p }),
    ]
}

pub fn arb_hist() -> impl Strategy<Value = Hist> {
    let step = prop_oneof![
        5 => arb_op().prop_map(Step::A),
        5 => arb_op().prop_map(Step::B),
        2 => Just(Step::AtoB),
        2 => Just(Step::BtoA),
        2 => Just(Step::Sync),
    ];
    (prop_oneof![Just(1u8), Just(2), Just(3)], prop_oneof![Just(8u16), Just(16), Just(40)], prop::collection::vec(step, 1..=40)).prop_map(|(limit, window, steps)| Hist { limit, window, relative: true, steps })
}


pub fn run(report: &Report) -> i32 {
    report.assume("loss-free in-order link; every network step first advances the virtual clock by 30 ms (> max_ack_delay) and services due timers");
    report.assume("operations are applied only to stream handles the acting application obtained from open()/accept(); other operations in a history are skipped");
    if let Ok(s) = std::env::var("QV_C11_HIST") {
        let h: Hist = serde_json::from_str(&s).expect("QV_C11_HIST must be a Hist");
        std::env::set_var("QV_C11_DUMP", "1");
        let out = case(&h);
        println!("{:?}", out.verdict);
        return 0;
    }
    let rule = "non-trivial = at least one finish/reset/stop succeeded AND at least one operation or event whose outcome depends on the peer's operations having been carried by a network step (data/FIN/reset read, Stopped, accept, stop code, Finished, open beyond the initial limit)";
    // depth of each family: (quick, thorough), reduced by one per factor 10 of --scale below 1
    let adj = {
        let sc = report.opts.scale;
        if sc >= 1.0 {
            0
        } else if sc >= 0.1 {
            1
        } else if sc >= 0.01 {
            2
        } else {
            3
        }
    };
    let thorough = report.opts.tier == Tier::Thorough;
    let pick = |q: usize, t: usize| -> usize { (if thorough { t } else { q }).saturating_sub(adj).max(2) };
    // (family, established prefix, full interior, depth bidi, depth uni)
    let families: [(&str, bool, bool, usize, usize); 4] = [
        ("exh", false, true, pick(6, 7), pick(7, 8)),
        ("est", true, true, pick(4, 5), pick(5, 6)),
        ("long", false, false, pick(8, 9), pick(9, 10)),
        ("estlong", true, false, pick(5, 7), pick(7, 9)),
    ];
    for (fam, est, full, d_bidi, d_uni) in families {
        for (init, bidi) in [(SA, true), (SA, false), (SB, true), (SB, false)] {
            let name: &'static str = intern(format!("c11-{fam}-{}-{}", if init == SA { "a" } else { "b" }, if bidi { "bidi" } else { "uni" }));
            let mut depth = if bidi { d_bidi } else { d_uni };
            if thorough && fam == "exh" && bidi && init == SA && adj == 0 {
                // the design's "L = 8 thorough" for one initiator (the other one runs L = 7)
                depth = 8;
            }
            let plan = EnumPlan { name, init, bidi, limit: 1, window: 16, prefix: if est { established(init, bidi) } else { vec![] }, depth, full_interior: full };
            let rule_e = format!(
                "ALL histories of {depth} steps{} on one {}-initiated {} stream over the alphabet {{A,B: open, accept, write 3 B, write until blocked, finish, reset, stopped?, set_priority, read one chunk, read all, stop, received_reset?; net: A->B, B->A, sync}}, max_concurrent_streams 1, stream window 16; reductions: A's and B's operations between two network steps are only taken in the order A-then-B (they act on different Connection objects), a network step that has nothing to carry is dropped, a step that changes nothing is not repeated, at most two open(){}; {rule}",
                if est { " following the fixed prefix open, write 3 B, deliver, accept" } else { "" },
                if init == SA { "client" } else { "server" },
                if bidi { "bidirectional" } else { "unidirectional" },
                if full { "" } else { "; steps that change nothing (queries, failing operations) only as the LAST step of a history" }
            );
            if std::env::var("QV_C11_COUNT").is_ok() {
                println!("{name} depth {depth}: {} histories", count_plan(&plan));
                continue;
            }
            run_enum(report, &plan, &rule_e);
        }
    }
    run_prop(report, "c11-random", &format!("proptest-generated histories of up to 40 steps over the same alphabet (plus unordered reads, all stream kinds at once, stream selectors resolved against the handles held), max_concurrent_streams 1..3, stream window 8/16/40; {rule}"), arb_hist, report.cases(200_000, 2_000_000), case);
    report.finish("exhaustive enumeration of bounded histories on one stream plus generated histories on up to three streams, against a reference model of the stream state machine")
}
