//! C07 — unvalidated addresses are never sent more than 3x what they sent; stateless responses
//! are bounded.
//!
//! The 3x inequality is checked by the link itself (simnet `AmpLedger`) on every datagram any
//! server connection emits, in every check; this check drives the situations that stress it:
//! large server flights, lost client flights (only server timers fire), duplicated Initials,
//! harness-crafted Initials of every size from spoofed addresses, and garbage that provokes
//! stateless resets.

use super::xfer::*;
use crate::core::*;
use crate::simcrypto;
use crate::simnet::*;
use crate::spec::*;
use crate::wire;
use proptest::prelude::*;
use quinn_proto::{ConnectionId, Side};
use serde::{Deserialize, Serialize};

#[derive(Clone, Debug, Serialize, Deserialize)]
pub struct Spoof {
    pub at_us: u32,
    /// datagram size to aim for (1..=1500)
    pub size: u16,
    pub host: u8,
    /// carry a well-formed SimCrypto client hello (so the server creates a connection) or a PING
    pub hello: bool,
    pub copies: u8,
    /// later datagrams from the same spoofed address: a small genuine-looking Initial (PING, next
    /// packet numbers) followed by this many junk bytes in the same datagram (coalesced remainder)
    #[serde(default)]
    pub followups: Vec<u16>,
    /// destination connection ID length chosen by the "client" (default: 8..=16 bytes)
    #[serde(default)]
    pub dcid_len: Option<u8>,
    /// the last `first_tail` bytes of the first datagram are junk after the Initial packet (coalesced
    /// remainder) instead of padding inside it
    #[serde(default)]
    pub first_tail: u16,
    /// the coalesced remainders (first datagram and follow-ups) are not junk but a run of small,
    /// well-formed Handshake-typed packets that cannot be authenticated (a peer may coalesce any
    /// number of packets; every one of them is counted once)
    #[serde(default)]
    pub tail_shells: bool,
}

#[derive(Clone, Debug, Serialize, Deserialize)]
pub struct Garbage {
    pub at_us: u32,
    pub size: u16,
    pub host: u8,
}

#[derive(Clone, Debug, Serialize, Deserialize)]
pub struct Amp {
    pub x: Xfer,
    pub spoofs: Vec<Spoof>,
    pub garbage: Vec<Garbage>,
}

pub fn arb_amp() -> impl Strategy<Value = Amp> {
    let g = XferGen { max_faults: 40, aux_ops: 1, rustls_share: 10, max_streams: 2, max_total: 30_000, ..XferGen::default() };
    let spoof = (0u32..3_000_000, prop_oneof![1u16..1200, Just(1199u16), Just(1200u16), 1200u16..=1500], 3u8..40, any::<bool>(), 1u8..4)
        .prop_map(|(at_us, size, host, hello, copies)| Spoof { at_us, size, host, hello, copies, followups: vec![], dcid_len: None, first_tail: 0, tail_shells: false });
    let spoof = (spoof, prop::collection::vec(prop_oneof![0u16..100, 900u16..1400], 0..4), prop_oneof![3 => Just(None), 1 => (0u8..8).prop_map(Some), 1 => (8u8..=20).prop_map(Some)], prop_oneof![2 => Just(0u16), 1 => 1u16..1100], any::<bool>()).prop_map(|(mut s, f, dl, ft, sh)| {
        s.followups = f;
        s.dcid_len = dl;
        s.first_tail = ft;
        s.tail_shells = sh;
        s
    });
    let garb = (0u32..3_000_000, prop_oneof![1u16..64, 20u16..23, 64u16..1500], 3u8..40).prop_map(|(at_us, size, host)| Garbage { at_us, size, host });
    (arb_xfer(g), prop::collection::vec(spoof, 0..6), prop::collection::vec(garb, 0..8), prop_oneof![Just(0u16), 0u16..16_000], any::<bool>(), prop::option::weighted(0.3, (0u32..1_500_000, 0u8..30))).prop_map(
        |(mut x, spoofs, garbage, flight_pad, heavy_loss, server_close)| {
            x.net.srv.flight_pad = flight_pad;
            // a server application that gives up on the connection, possibly while its flight is still held
            // back by the limit: the CONNECTION_CLOSE counts like everything else
            if let Some((at_us, reason_len)) = server_close {
                x.server.ops.push(TimedOp { at_us, op: AuxOp::Close { code: 7, reason_len } });
                x.server.ops.sort_by_key(|o| o.at_us);
            }
            x.net.mtu_steps.clear();
            // known finding (zero-length server CIDs + Retry duplicate the connection), excluded by construction
            if x.net.server_ep.cid_len == 0 {
                x.net.srv.retry = false;
            }
            if heavy_loss {
                // lose most of the client's early datagrams so that only server timers fire
                for (i, f) in x.net.faults_c2s.iter_mut().enumerate() {
                    if i > 0 && i % 3 != 0 {
                        *f = Fault::Drop;
                    }
                }
            }
            Amp { x, spoofs, garbage }
        },
    )
}

fn client_hello(scid: &[u8]) -> Vec<u8> {
    // SimCrypto message 1: [tag=1][len u24][has_ticket u8][ticket u64][transport parameters]
    let mut tp = Vec::new();
    // initial_source_connection_id (0x0f) must echo the SCID
    wire::put_var(&mut tp, 0x0f);
    wire::put_var(&mut tp, scid.len() as u64);
    tp.extend_from_slice(scid);
    let mut body = vec![0u8; 9];
    body.extend_from_slice(&tp);
    let mut m = vec![1u8];
    m.extend_from_slice(&(body.len() as u32).to_be_bytes()[1..]);
    m.extend_from_slice(&body);
    m
}

fn craft_initial(seed: u64, size: usize, hello: bool, dcid_len: Option<u8>, tail: usize, shells: bool) -> Vec<u8> {
    // the Initial packet itself is padded to size - tail, then `tail` bytes of coalesced remainder follow
    let tail = tail.min(size.saturating_sub(100));
    let mut d = craft_initial_pn(seed, size - tail, hello, 0, dcid_len);
    push_tail(&mut d, seed, 0x7a12, tail, shells, dcid_len);
    d
}

fn spoof_ids(seed: u64, dcid_len: Option<u8>) -> (Vec<u8>, [u8; 8]) {
    let a = crate::core::mix(seed, 0xd1);
    let b = crate::core::mix(seed, 0xd2);
    let mut dcid = a.to_le_bytes().to_vec();
    dcid.extend_from_slice(&b.to_le_bytes()[..(a % 9) as usize]);
    if let Some(n) = dcid_len {
        dcid.extend_from_slice(&crate::core::mix(seed, 0xd4).to_le_bytes());
        dcid.truncate(n as usize);
    }
    (dcid, crate::core::mix(seed, 0xd3).to_le_bytes())
}

/// `n` bytes of coalesced remainder: junk, or a run of small Handshake-typed packets protected with a
/// key the server does not have
fn push_tail(d: &mut Vec<u8>, seed: u64, salt: u64, n: usize, shells: bool, dcid_len: Option<u8>) {
    let end = d.len() + n;
    let mut r = crate::core::mix(seed, salt);
    if shells {
        let (dcid, scid) = spoof_ids(seed, dcid_len);
        let payload = wire::encode_frames(&[wire::Frame::Ping]);
        let mut pn = 0;
        loop {
            r = crate::core::mix(r, 2);
            let want = 44 + (r % 40) as usize;
            if d.len() + want + 44 > end {
                break;
            }
            let mut out = Vec::new();
            wire::build_packet(
                &wire::BuildPkt { ty: wire::PktType::Handshake, version: 1, dcid: &dcid, scid: &scid, token: &[], pn, pn_len: 1, key_phase: false, payload: &payload, key: r | 1, min_len: want, first_byte_xor: 0 },
                &mut out,
            );
            pn += 1;
            d.extend_from_slice(&out);
        }
    }
    while d.len() < end {
        r = crate::core::mix(r, 1);
        d.push(r as u8);
    }
}

fn craft_initial_pn(seed: u64, size: usize, hello: bool, pn: u64, dcid_len: Option<u8>) -> Vec<u8> {
    let (dcid, scid) = spoof_ids(seed, dcid_len);
    let payload = if hello {
        wire::encode_frames(&[wire::Frame::Crypto { offset: 0, data: client_hello(&scid) }])
    } else {
        wire::encode_frames(&[wire::Frame::Ping])
    };
    let key = simcrypto::level_key(simcrypto::conn_key(&ConnectionId::new(&dcid)), 0, Side::Client);
    let mut out = Vec::new();
    wire::build_packet(
        &wire::BuildPkt {
            ty: wire::PktType::Initial,
            version: 1,
            dcid: &dcid,
            scid: &scid,
            token: &[],
            pn,
            pn_len: 1,
            key_phase: false,
            payload: &payload,
            key,
            min_len: size,
            first_byte_xor: 0,
        },
        &mut out,
    );
    out
}

pub fn case(a: &Amp) -> CaseOut {
    let x = &a.x;
    let sim = x.net.crypto == CryptoKind::Sim;
    let mut w = World::new(x.net.clone());
    let _ = w.connect(CLIENT_EP, ConnLoad { client: x.client.clone(), server: x.server.clone() });
    let server_addr = w.eps[SERVER_EP].addrs[0];
    // schedule crafted Initials and garbage
    let mut crafted: Vec<(u64, usize, bool)> = vec![]; // (dgram id, size, hello)
    if sim {
        for (i, s) in a.spoofs.iter().enumerate() {
            let bytes = craft_initial(crate::core::mix(x.net.seed, i as u64), s.size as usize, s.hello, s.dcid_len, s.first_tail as usize, s.tail_shells);
            for c in 0..s.copies as u64 {
                let id = w.inject(s.at_us as u64 + c * 700, server_addr, addr_v6(0x100 + s.host as u16, 7000 + i as u16), bytes.clone());
                crafted.push((id, bytes.len(), s.hello));
            }
            // follow-up datagrams to the connection the hello created: small Initial + junk remainder
            if s.hello && s.size >= 1200 {
                for (j, tail) in s.followups.iter().enumerate() {
                    let mut d = craft_initial_pn(crate::core::mix(x.net.seed, i as u64), 0, false, 1 + j as u64, s.dcid_len);
                    push_tail(&mut d, crate::core::mix(x.net.seed, i as u64), 0x7a11 + j as u64, *tail as usize, s.tail_shells, s.dcid_len);
                    w.inject(s.at_us as u64 + 20_000 + 30_000 * j as u64, server_addr, addr_v6(0x100 + s.host as u16, 7000 + i as u16), d);
                }
            }
        }
    }
    let mut garbage_ids = vec![];
    for (i, g) in a.garbage.iter().enumerate() {
        let mut bytes = vec![0x40u8 | ((i as u8) & 0x3f)];
        let mut s = crate::core::mix(x.net.seed, 0x6a00 + i as u64);
        while bytes.len() < g.size as usize {
            s = crate::core::mix(s, 1);
            bytes.push(s as u8);
        }
        bytes.truncate(g.size.max(1) as usize);
        let id = w.inject(g.at_us as u64, server_addr, addr_v6(0x200 + g.host as u16, 8000), bytes);
        garbage_ids.push(id);
    }
    let open_before = w.eps[SERVER_EP].ep.open_connections();
    let _ = open_before;
    w.run(40_000_000, |w| w.queue.is_empty() && w.now > 5_000_000 && workload_complete(w));
    if w.hit_step_limit {
        return CaseOut::inconclusive("step limit");
    }
    for v in w.collect_violations() {
        if v.sig.starts_with("c07/") || v.sig.starts_with("drive/") {
            return CaseOut::fail(v.sig, v.msg);
        }
    }
    // small Initials create no state and get no reply
    let mut small_initials = 0;
    let mut resets: Vec<(u64, usize, usize)> = vec![];
    let mut last_rx: std::collections::BTreeMap<u64, usize> = Default::default();
    for r in &w.trace {
        match r {
            Rec::Rx { dgram_id, routed, size, injected: true, .. } => {
                last_rx.insert(*dgram_id, *size);
                if let Some((_, sz, _)) = crafted.iter().find(|(id, _, _)| id == dgram_id) {
                    if *sz < 1200 {
                        small_initials += 1;
                        if !matches!(routed, Routed::Nothing) {
                            return CaseOut::fail(
                                "c07/small-initial-created-state-or-reply",
                                format!("a supported-version Initial in a {sz}-byte datagram was answered/accepted: routed {routed:?}"),
                            );
                        }
                    }
                }
            }
            Rec::TxEp { t, ep, size, inciting_size, dgram, .. } if *ep == SERVER_EP && *inciting_size > 0 => {
                // stateless reset = short-header-looking response
                let is_reset = dgram.pkts.first().map_or(true, |p| p.ty == wire::PktType::Short) && sim || (!sim && *size < 1200 && *inciting_size > 0 && dgram.pkts.first().map_or(true, |p| p.ty == wire::PktType::Short));
                if is_reset {
                    if *size >= *inciting_size {
                        return CaseOut::fail("c07/reset-not-smaller", format!("t={t}: stateless reset of {size} bytes in response to a {inciting_size}-byte datagram"));
                    }
                    resets.push((*t, *size, *inciting_size));
                }
            }
            _ => {}
        }
    }
    let min_gap = x.net.server_ep.min_reset_interval_ms as u64 * 1000;
    for p in resets.windows(2) {
        if p[1].0 < p[0].0 + min_gap {
            return CaseOut::fail(
                "c07/reset-rate",
                format!("stateless resets at {} us and {} us are closer than min_reset_interval {} us", p[0].0, p[1].0, min_gap),
            );
        }
    }
    // crafted small Initials must not have created connections: count server conns
    let server_conns = w.conns.iter().filter(|c| c.side.is_server()).count();
    let big_hellos = {
        let mut ids: Vec<u64> = crafted.iter().filter(|(_, sz, _)| *sz >= 1200).map(|(id, _, _)| *id).collect();
        ids.dedup();
        ids.len()
    };
    // (once a server application has closed and the connection has drained, a late copy of the client's
    // Initial legitimately starts a new one)
    let server_closes = x.server.ops.iter().any(|o| matches!(o.op, AuxOp::Close { .. }));
    if server_conns > 1 + big_hellos && !server_closes {
        return CaseOut::fail(
            "c07/unexpected-connections",
            format!("{server_conns} server connections exist but only 1 genuine client and {big_hellos} crafted Initials of >= 1200 bytes were sent"),
        );
    }
    let mut labels = vec![];
    let blocked: u32 = w.conns.iter().map(|c| c.amp.blocked_then_resumed).sum();
    let at_limit = w.conns.iter().any(|c| c.amp.was_at_limit || c.amp.blocked_then_resumed > 0);
    let max_ratio = w.conns.iter().map(|c| c.amp.max_ratio_x100).max().unwrap_or(0);
    if blocked > 0 {
        labels.push("blocked-then-resumed");
    }
    if at_limit {
        labels.push("reached-3x-limit");
    }
    if small_initials > 0 {
        labels.push("small-initial");
    }
    if !resets.is_empty() {
        labels.push("stateless-reset");
    }
    if server_conns > 1 {
        labels.push("spoofed-connection");
    }
    if x.net.srv.retry {
        labels.push("retry");
    }
    if x.net.srv.flight_pad > 3000 {
        labels.push("large-flight");
    }
    if !sim {
        labels.push("rustls");
    }
    let timers_unvalidated = w.conns.iter().filter(|c| c.side.is_server()).any(|c| c.amp.validated.values().all(|v| !*v) && c.amp.sent.values().sum::<u64>() > 0);
    if timers_unvalidated {
        labels.push("never-validated");
    }
    let sum = serde_json::json!({"server_conns": server_conns, "max_sent_over_recvd_x100_while_unvalidated": max_ratio, "blocked_then_resumed": blocked, "stateless_resets": resets.len(), "small_initials": small_initials, "flight_pad": x.net.srv.flight_pad});
    CaseOut { verdict: Verdict::Pass, labels, nontrivial: at_limit || blocked > 0, summary: Some(sum) }
}

pub fn run(report: &Report) -> i32 {
    report.assume("the ledger credits every datagram the endpoint routed to (or buffered for) the connection, i.e. at least what quinn credits; an address counts as validated from the first genuine Handshake packet or PATH_RESPONSE delivered from it, or when Incoming::remote_address_validated() was true");
    report.assume("Version Negotiation and refusal (CONNECTION_CLOSE) responses are not bounded by the statement and are not asserted");
    run_prop(
        report,
        "c07",
        "proptest-generated handshakes with server flights of 0..16 kB (certificate-chain stand-in) or rustls, lost/duplicated client flights, Retry on/off, delayed accept, plus harness-crafted Initials of 1..1500 bytes from spoofed addresses (valid client hello or PING) and garbage datagrams of 1..1500 bytes; oracles: per datagram emitted to an unvalidated address sent_before + 1 <= 3 x received_before, stateless reset strictly smaller than its trigger and at most one per min_reset_interval, sub-1200 Initials ignored without state; non-trivial = a server connection reached the 3x limit",
        arb_amp,
        report.cases(40_000, 1_500_000),
        case,
    );
    report.finish("generated-input search (proptest) with a link-side amplification ledger")
}
