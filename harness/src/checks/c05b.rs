//! C05 (sub-check c05b) — a sender facing a peer that is not quinn.
//!
//! quinn advertises one value for all three per-stream windows, so two quinn endpoints can never
//! tell whether the sender applies the right one of the peer's `initial_max_stream_data_*`
//! parameters to each kind of stream. Here the peer is the harness-written puppet: it advertises
//! generated, mutually different limits, opens streams towards the victim, raises limits with
//! MAX_STREAM_DATA / MAX_DATA / MAX_STREAMS at generated points, and keeps the credit ledger of
//! what it has put on the wire. The victim application writes as much as it can on every stream it
//! may write to. Oracle: every STREAM / RESET_STREAM the puppet receives stays within the stream
//! limit for that kind of stream, the connection limit and the stream-count limit the puppet has
//! sent so far.

use crate::core::*;
use crate::puppet::PuppetTp;
use crate::pw::PW;
use crate::simnet::NetSpec;
use crate::spec::TcSpec;
use crate::wire::{self, Frame};
use proptest::prelude::*;
use quinn_proto::{Dir, Side, StreamId, VarInt};
use serde::{Deserialize, Serialize};
use std::collections::BTreeMap;

#[derive(Clone, Debug, Serialize, Deserialize, PartialEq)]
pub enum Step {
    /// the victim application opens a stream (refused when the puppet's stream-count limit is used up)
    VOpen { uni: bool },
    /// the victim writes up to `len` bytes on the nth stream it may write to
    VWrite { nth: u8, len: u32 },
    VFinish { nth: u8 },
    VReset { nth: u8, code: u8 },
    /// the puppet opens its next bidirectional stream with `len` bytes; the victim accepts it
    POpen { len: u8 },
    /// the puppet raises the limit of the nth stream by `add` (0: repeats the current limit)
    PMaxStreamData { nth: u8, add: u32 },
    PMaxData { add: u32 },
    PMaxStreams { uni: bool, add: u8 },
}

#[derive(Clone, Debug, Serialize, Deserialize, PartialEq)]
pub struct Case {
    pub seed: u64,
    pub victim_client: bool,
    pub max_data: u32,
    pub msd_bidi_local: u32,
    pub msd_bidi_remote: u32,
    pub msd_uni: u32,
    pub max_streams_bidi: u8,
    pub max_streams_uni: u8,
    pub send_window: u32,
    pub steps: Vec<Step>,
}

struct Ledger {
    puppet_is_server: bool,
    tp: PuppetTp,
    msd_sent: BTreeMap<u64, u64>,
    max_data_sent: u64,
    max_streams_sent: [u64; 2], // [bidi, uni]
    highest: BTreeMap<u64, u64>,
    seen: usize,
}

impl Ledger {
    fn victim_initiated(&self, id: u64) -> bool {
        wire::sid_server_initiated(id) != self.puppet_is_server
    }
    fn kind(&self, id: u64) -> &'static str {
        match (wire::sid_uni(id), self.victim_initiated(id)) {
            (true, _) => "unidirectional",
            (false, true) => "sender-initiated bidirectional (initial_max_stream_data_bidi_remote)",
            (false, false) => "receiver-initiated bidirectional (initial_max_stream_data_bidi_local)",
        }
    }
    fn initial(&self, id: u64) -> u64 {
        match (wire::sid_uni(id), self.victim_initiated(id)) {
            (true, _) => self.tp.msd_uni,
            (false, true) => self.tp.msd_bidi_remote,
            (false, false) => self.tp.msd_bidi_local,
        }
    }
    fn limit(&self, id: u64) -> u64 {
        self.msd_sent.get(&id).copied().unwrap_or(0).max(self.initial(id))
    }
    fn check(&mut self, frames: &[(u64, usize, Frame)], what: &str) -> Result<(), CaseOut> {
        for (_, _, f) in &frames[self.seen..] {
            let (id, end, name) = match f {
                Frame::Stream { id, offset, data, .. } => (*id, offset + data.len() as u64, "STREAM"),
                Frame::ResetStream { id, final_size, .. } => (*id, *final_size, "RESET_STREAM"),
                _ => continue,
            };
            if self.victim_initiated(id) {
                let d = wire::sid_uni(id) as usize;
                if wire::sid_index(id) >= self.max_streams_sent[d] {
                    return Err(CaseOut::fail("c05/stream-count-exceeded", format!("{what}: {name} on stream {id} (index {}) but the peer was only ever granted {} {} streams", wire::sid_index(id), self.max_streams_sent[d], if d == 0 { "bidirectional" } else { "unidirectional" })));
                }
            }
            let lim = self.limit(id);
            if end > lim {
                return Err(CaseOut::fail("c05/stream-limit-exceeded", format!("{what}: {name} on stream {id} reaches offset {end}, the limit the receiver has granted for this {} stream is {lim}", self.kind(id))));
            }
            let h = self.highest.entry(id).or_insert(0);
            *h = (*h).max(end);
            let total: u64 = self.highest.values().sum();
            if total > self.max_data_sent {
                return Err(CaseOut::fail("c05/connection-limit-exceeded", format!("{what}: stream data up to a total of {total} bytes sent, the receiver granted max_data {}", self.max_data_sent)));
            }
        }
        self.seen = frames.len();
        Ok(())
    }
}

pub fn case(c: &Case) -> CaseOut {
    let mut spec = NetSpec::default();
    spec.seed = c.seed;
    let side = if c.victim_client { Side::Client } else { Side::Server };
    let tc = TcSpec { send_window: c.send_window as u64, idle_ms: None, keep_alive_ms: None, mtud: None, ..TcSpec::default() };
    if c.victim_client {
        spec.client_tc = tc;
    } else {
        spec.server_tc = tc;
    }
    let tp = PuppetTp {
        max_data: c.max_data as u64,
        msd_bidi_local: c.msd_bidi_local as u64,
        msd_bidi_remote: c.msd_bidi_remote as u64,
        msd_uni: c.msd_uni as u64,
        max_streams_bidi: c.max_streams_bidi as u64,
        max_streams_uni: c.max_streams_uni as u64,
        ..PuppetTp::default()
    };
    let mut pw = PW::new(spec, side, c.seed, 8, 12, tp.clone());
    pw.w.record = false;
    pw.w.observe = false;
    pw.w.check_amp = false;
    pw.start();
    if !pw.sync(3_000_000) {
        return CaseOut::inconclusive("step limit");
    }
    pw.sync(1_000_000);
    let Some(k) = pw.vk else {
        return CaseOut::fail("c05/harness/no-victim-connection", "the victim never created a connection for the puppet".to_string());
    };
    if !pw.w.conns[k].app.connected || !pw.p.established() {
        return CaseOut::fail("c05/harness/handshake", format!("handshake with the puppet did not complete: lost={:?} puppet closed={:?}", pw.w.conns[k].app.lost, pw.p.closed));
    }
    let mut led = Ledger {
        puppet_is_server: c.victim_client,
        msd_sent: BTreeMap::new(),
        max_data_sent: tp.max_data,
        max_streams_sent: [tp.max_streams_bidi, tp.max_streams_uni],
        highest: BTreeMap::new(),
        tp,
        seen: 0,
    };
    let mut writable: Vec<u64> = vec![]; // streams the victim application may write to
    let mut puppet_next_bidi = 0u64;
    let mut labels: Vec<&'static str> = vec![];
    let (mut wrote_on_peer_bidi, mut hit_limit, mut raised) = (false, false, false);
    let victim_max_bidi = pw.p.lim.max_streams[0];
    for (i, st) in c.steps.iter().enumerate() {
        let what = format!("step {i} {st:?}");
        match st {
            Step::VOpen { uni } => {
                let conn = &mut pw.w.conns[k].c;
                if let Some(id) = conn.streams().open(if *uni { Dir::Uni } else { Dir::Bi }) {
                    writable.push(u64::from(id));
                }
            }
            Step::VWrite { nth, len } => {
                if writable.is_empty() {
                    continue;
                }
                let id = writable[*nth as usize % writable.len()];
                let buf = vec![0x5au8; *len as usize];
                let conn = &mut pw.w.conns[k].c;
                match conn.send_stream(StreamId::from(VarInt::from_u64(id).unwrap())).write(&buf) {
                    Ok(n) => {
                        if !led.victim_initiated(id) && n > 0 {
                            wrote_on_peer_bidi = true;
                        }
                        if n < buf.len() {
                            hit_limit = true;
                        }
                    }
                    Err(quinn_proto::WriteError::Blocked) => hit_limit = true,
                    Err(_) => {}
                }
            }
            Step::VFinish { nth } => {
                if writable.is_empty() {
                    continue;
                }
                let id = writable[*nth as usize % writable.len()];
                let _ = pw.w.conns[k].c.send_stream(StreamId::from(VarInt::from_u64(id).unwrap())).finish();
            }
            Step::VReset { nth, code } => {
                if writable.is_empty() {
                    continue;
                }
                let id = writable[*nth as usize % writable.len()];
                let _ = pw.w.conns[k].c.send_stream(StreamId::from(VarInt::from_u64(id).unwrap())).reset(VarInt::from_u32(*code as u32));
            }
            Step::POpen { len } => {
                if puppet_next_bidi >= victim_max_bidi {
                    continue;
                }
                let id = wire::sid(c.victim_client, false, puppet_next_bidi);
                puppet_next_bidi += 1;
                let d = pw.p.packet(2, &[Frame::Stream { id, offset: 0, data: vec![1u8; *len as usize], fin: false, has_len: true, has_off: true }], 0);
                pw.send(d);
                if !pw.sync(500_000) {
                    return CaseOut::inconclusive("step limit");
                }
                while let Some(sid) = pw.w.conns[k].c.streams().accept(Dir::Bi) {
                    writable.push(u64::from(sid));
                }
            }
            Step::PMaxStreamData { nth, add } => {
                // only for streams that exist (MAX_STREAM_DATA for a stream the victim has not opened yet is a protocol violation)
                if writable.is_empty() {
                    continue;
                }
                let id = writable[*nth as usize % writable.len()];
                let v = led.limit(id) + *add as u64;
                led.msd_sent.insert(id, v);
                raised |= *add > 0;
                let d = pw.p.packet(2, &[Frame::MaxStreamData { id, max: v }], 0);
                pw.send(d);
            }
            Step::PMaxData { add } => {
                led.max_data_sent += *add as u64;
                raised |= *add > 0;
                let d = pw.p.packet(2, &[Frame::MaxData(led.max_data_sent)], 0);
                pw.send(d);
            }
            Step::PMaxStreams { uni, add } => {
                let d = *uni as usize;
                led.max_streams_sent[d] += *add as u64;
                let f = Frame::MaxStreams { bidi: !*uni, max: led.max_streams_sent[d] };
                let dg = pw.p.packet(2, &[f], 0);
                pw.send(dg);
            }
        }
        pw.touch();
        if !pw.sync(500_000) {
            return CaseOut::inconclusive("step limit");
        }
        if let Some(v) = pw.w.viol.first() {
            return CaseOut::fail(v.sig.clone(), v.msg.clone());
        }
        if let Err(o) = led.check(&pw.p.rx_frames, &what) {
            return o;
        }
        if pw.p.closed.is_some() || !pw.w.conns[k].app.lost.is_empty() {
            let r = format!("{:?} / {:?}", pw.p.closed, pw.w.conns[k].app.lost);
            return CaseOut::fail("c05/legal-peer-closed", format!("{what}: the connection ended although the peer only sent legal frames: {r}"));
        }
    }
    // let retransmissions and blocked data drain
    if !pw.sync(3_000_000) {
        return CaseOut::inconclusive("step limit");
    }
    if let Err(o) = led.check(&pw.p.rx_frames, "final drain") {
        return o;
    }
    if wrote_on_peer_bidi {
        labels.push("wrote-on-peer-initiated-bidi");
    }
    if hit_limit {
        labels.push("write-hit-a-limit");
    }
    if raised {
        labels.push("limit-raised");
    }
    let asym = c.msd_bidi_local != c.msd_bidi_remote;
    if asym {
        labels.push("asymmetric-bidi-windows");
    }
    let nontrivial = hit_limit && !led.highest.is_empty();
    CaseOut { verdict: Verdict::Pass, labels, nontrivial, summary: Some(serde_json::json!({"streams": led.highest.len(), "bytes": led.highest.values().sum::<u64>(), "steps": c.steps.len()})) }
}

fn arb_limit() -> impl Strategy<Value = u32> {
    prop_oneof![1 => Just(0u32), 3 => 1u32..64, 3 => 64u32..3000, 2 => 3000u32..40_000]
}

fn arb_step() -> impl Strategy<Value = Step> {
    let add = prop_oneof![1 => Just(0u32), 3 => 1u32..100, 3 => 100u32..5000];
    prop_oneof![
        3 => any::<bool>().prop_map(|uni| Step::VOpen { uni }),
        6 => (any::<u8>(), prop_oneof![1u32..50, 50u32..4000, 4000u32..60_000]).prop_map(|(nth, len)| Step::VWrite { nth, len }),
        1 => any::<u8>().prop_map(|nth| Step::VFinish { nth }),
        1 => (any::<u8>(), any::<u8>()).prop_map(|(nth, code)| Step::VReset { nth, code }),
        3 => (0u8..40).prop_map(|len| Step::POpen { len }),
        3 => (any::<u8>(), add.clone()).prop_map(|(nth, add)| Step::PMaxStreamData { nth, add }),
        2 => add.prop_map(|add| Step::PMaxData { add }),
        1 => (any::<bool>(), 0u8..4).prop_map(|(uni, add)| Step::PMaxStreams { uni, add }),
    ]
}

pub fn arb_case() -> impl Strategy<Value = Case> {
    (
        (any::<u64>(), any::<bool>(), prop_oneof![2 => 0u32..5000, 3 => 5000u32..200_000], arb_limit(), arb_limit(), arb_limit()),
        (0u8..6, 0u8..6, prop_oneof![Just(1_000_000u32), 1000u32..20_000]),
        prop::collection::vec(arb_step(), 1..30),
    )
        .prop_map(|((seed, victim_client, max_data, msd_bidi_local, msd_bidi_remote, msd_uni), (max_streams_bidi, max_streams_uni, send_window), steps)| Case {
            seed,
            victim_client,
            max_data,
            msd_bidi_local,
            msd_bidi_remote,
            msd_uni,
            max_streams_bidi,
            max_streams_uni,
            send_window,
            steps,
        })
}
