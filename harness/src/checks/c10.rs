//! C10 — every wire encoding round-trips, truncated packet numbers decode to the number sent,
//! coalesced packets split at the encoded boundaries, every decoder is total.
//!
//! Sub-checks (each is a `--only` name):
//!   c10a_varint   exhaustive/strided enumeration of variable-length integers
//!   c10b_pn       enumeration of packet-number windows around every size boundary
//!   c10b_pn_diff  expand() differential against RFC 9000 A.3 on arbitrary receiver states
//!   c10c_frames   proptest: every frame type, quinn<->quinn, quinn<->reference, byte equality
//!   c10d_packets  proptest: all header kinds, coalesced datagrams, quinn<->reference
//!   c10e_tparams  proptest: transport parameters write->read, reference decoder/encoder
//!   c10f_tokens   proptest: retry/validation tokens, bit flips, truncations, forged plaintexts
//!   c10f_cid      enumeration: HashedConnectionIdGenerator generate/validate, all CID lengths
//!   c10g_total    proptest: arbitrary bytes and mutated valid encodings into every decoder
//!
//! The reference side is `crate::wire` (written from the RFCs, shares no code with quinn) plus the
//! small transport-parameter reference codec at the end of this file.

use crate::core::*;
use crate::simcrypto::SimTokenKey;
use crate::wire;
use bytes::Bytes;
use proptest::prelude::*;
use quinn_proto::coding::Codec;
use quinn_proto::crypto::HandshakeTokenKey;
use quinn_proto::transport_parameters::TransportParameters;
use quinn_proto::verif::codec as qc;
use quinn_proto::{ConnectionId, ConnectionIdGenerator, HashedConnectionIdGenerator, Side, VarInt};
use serde::{Deserialize, Serialize};
use serde_json::{json, Value};
use std::collections::{BTreeMap, HashSet};
use std::net::{IpAddr, Ipv4Addr, Ipv6Addr, SocketAddr, SocketAddrV4, SocketAddrV6};
use std::sync::atomic::{AtomicBool, AtomicU64, Ordering};
use std::sync::Mutex;
use std::time::{Duration, Instant, UNIX_EPOCH};

const V62: u64 = (1 << 62) - 1;

// ---------------------------------------------------------------------------------------------
// Small helpers
// ---------------------------------------------------------------------------------------------

fn hex(b: &[u8]) -> String {
    let mut s = String::with_capacity(b.len() * 2);
    for x in b.iter().take(400) {
        s += &format!("{x:02x}");
    }
    if b.len() > 400 {
        s += &format!("..(+{} bytes)", b.len() - 400);
    }
    s
}

/// Stable signature of a panic: `panic@<quinn file>:<line>` when the panic site is in quinn;
/// otherwise (quinn called into std/bytes with a bad length or value) the site is named by the
/// decoder that was running and the panic message with digits removed, which does not change
/// with the toolchain or dependency version.
fn panic_sig(what: &str, p: &PanicInfo) -> String {
    let f = p.file.as_str();
    if let Some(i) = f.find("quinn-proto/").or_else(|| f.find("quinn-udp/")).or_else(|| f.find("quinn/src/")) {
        return format!("panic@{}:{}", &f[i..], p.line);
    }
    let msg: String = p.msg.chars().filter(|c| !c.is_ascii_digit()).take(60).collect();
    format!("panic@{}/{}", what.split_whitespace().next().unwrap_or(what), msg.trim())
}

/// Run a decoder (or an encoder fed with decoder output). In this check every panic raised while
/// library code runs on harness-supplied *bytes* is a violation, wherever the panic site is
/// (quinn calls into `bytes`/`std` with unchecked lengths are the typical way to get one).
fn guarded<R>(what: &str, input: &[u8], f: impl FnOnce() -> R) -> Result<R, CaseOut> {
    match catch(f) {
        Ok(r) => Ok(r),
        Err(p) => Err(CaseOut::fail(
            panic_sig(what, &p),
            format!("{what} panicked at {}:{}: {}\ninput ({} bytes): {}", p.file, p.line, p.msg, input.len(), hex(input)),
        )),
    }
}

macro_rules! tri {
    ($e:expr) => {
        match $e {
            Ok(v) => v,
            Err(out) => return out,
        }
    };
}

macro_rules! ensure {
    ($cond:expr, $sig:expr, $($fmt:tt)*) => {
        if !$cond {
            return CaseOut::fail($sig, format!($($fmt)*));
        }
    };
}

fn pass(labels: Vec<&'static str>, nontrivial: bool, summary: Value) -> CaseOut {
    CaseOut { verdict: Verdict::Pass, labels, nontrivial, summary: Some(summary) }
}

// ---------------------------------------------------------------------------------------------
// Parallel enumeration driver
// ---------------------------------------------------------------------------------------------

#[derive(Default)]
struct Acc {
    evals: u64,
    /// Non-trivial items that are distinct by construction
    nontrivial: u64,
    /// Keys of non-trivial items that an enumeration plan may visit more than once
    keys: HashSet<u64>,
    classes: BTreeMap<&'static str, u64>,
}

impl Acc {
    fn label(&mut self, l: &'static str) {
        *self.classes.entry(l).or_insert(0) += 1;
    }
}

/// Evaluate `f(i)` for every `i in 0..total` on all cores. `f` returns the outcome of item `i`
/// (only Pass/Fail are meaningful); the first failure stops the enumeration. Returns the stats and
/// whether the enumeration completed without failure.
fn par_enum<S, F>(report: &Report, name: &str, rule: &str, exhaustive: bool, total: u64, scenario: S, f: F) -> bool
where
    S: Fn(u64) -> Value + Sync,
    F: Fn(u64, &mut Acc) -> Result<(), (String, String)> + Sync,
{
    if !report.wants(name) {
        return true;
    }
    let started = Instant::now();
    let next = AtomicU64::new(0);
    let stop = AtomicBool::new(false);
    let fail: Mutex<Option<(u64, String, String)>> = Mutex::new(None);
    let merged: Mutex<Acc> = Mutex::new(Acc::default());
    const BLOCK: u64 = 4096;
    std::thread::scope(|scope| {
        for _ in 0..report.opts.threads.max(1) {
            scope.spawn(|| {
                let mut acc = Acc::default();
                loop {
                    if stop.load(Ordering::Relaxed) {
                        break;
                    }
                    let lo = next.fetch_add(BLOCK, Ordering::Relaxed);
                    if lo >= total {
                        break;
                    }
                    let hi = (lo + BLOCK).min(total);
                    let mut first: Option<(u64, String, String)> = None;
                    // failures with a listed known-finding signature are counted and skipped
                    let known = |sig: &str| {
                        if report.is_known(sig) {
                            *report.known_hits.lock().unwrap().entry(sig.to_string()).or_insert(0) += 1;
                            true
                        } else {
                            false
                        }
                    };
                    let snapshot = (acc.evals, acc.nontrivial, acc.classes.clone());
                    // (keys only grow by idempotent inserts: no snapshot needed)
                    let r = catch(|| {
                        for i in lo..hi {
                            acc.evals += 1;
                            if let Err((sig, msg)) = f(i, &mut acc) {
                                if !known(&sig) {
                                    first = Some((i, sig, msg));
                                    return;
                                }
                            }
                        }
                    });
                    if r.is_err() {
                        // an item panicked: redo the block item by item
                        (acc.evals, acc.nontrivial, acc.classes) = snapshot;
                        first = None;
                        for i in lo..hi {
                            acc.evals += 1;
                            let out = match catch(|| f(i, &mut acc)) {
                                Ok(r) => r,
                                Err(p) => Err((panic_sig(name, &p), format!("panic at {}:{}: {}", p.file, p.line, p.msg))),
                            };
                            if let Err((sig, msg)) = out {
                                if !known(&sig) {
                                    first = Some((i, sig, msg));
                                    break;
                                }
                            }
                        }
                    }
                    if let Some(x) = first {
                        stop.store(true, Ordering::Relaxed);
                        let mut g = fail.lock().unwrap();
                        if g.as_ref().map_or(true, |o| x.0 < o.0) {
                            *g = Some(x);
                        }
                        break;
                    }
                }
                let mut m = merged.lock().unwrap();
                m.evals += acc.evals;
                m.nontrivial += acc.nontrivial;
                m.keys.extend(acc.keys);
                for (k, v) in acc.classes {
                    *m.classes.entry(k).or_insert(0) += v;
                }
            });
        }
    });
    let m = merged.into_inner().unwrap();
    let failed = fail.into_inner().unwrap();
    let sub = SubStats {
        name: name.to_string(),
        rule: rule.to_string(),
        evaluations: m.evals,
        distinct_nontrivial: m.nontrivial + m.keys.len() as u64,
        discards: 0,
        inconclusive: 0,
        exhaustive: exhaustive && failed.is_none(),
        classes: m.classes.iter().map(|(k, v)| (k.to_string(), *v)).collect(),
        samples: vec![scenario(0), scenario(total / 2), scenario(total - 1)],
        wall_s: started.elapsed().as_secs_f64(),
    };
    println!(
        "  [{}] cases={} nontrivial={} exhaustive={} {:.1}s classes={:?}",
        name, sub.evaluations, sub.distinct_nontrivial, sub.exhaustive, sub.wall_s, sub.classes
    );
    report.add_sub(sub);
    match failed {
        Some((i, sig, msg)) => {
            report.fail_direct(name, &sig, msg, scenario(i));
            false
        }
        None => true,
    }
}

// ---------------------------------------------------------------------------------------------
// a. variable-length integers
// ---------------------------------------------------------------------------------------------

#[derive(Debug, Clone, Serialize, Deserialize)]
pub struct VarintCase {
    pub v: u64,
}

const VAR_BOUNDS: [u64; 5] = [0, 1 << 6, 1 << 14, 1 << 30, 1 << 62];

fn near_var_boundary(v: u64) -> bool {
    VAR_BOUNDS.iter().any(|&b| v.abs_diff(b) <= 2)
}

fn varint_check(v: u64, acc: Option<&mut Acc>) -> Result<(), (String, String)> {
    let fail = |sig: &str, msg: String| Err((format!("c10/varint/{sig}"), format!("v={v} (0x{v:x}): {msg}")));
    let q = match VarInt::from_u64(v) {
        Ok(q) => {
            if v > V62 {
                return fail("from_u64-accepts-out-of-range", "VarInt::from_u64 accepted a value >= 2^62".into());
            }
            q
        }
        Err(_) => {
            if v <= V62 {
                return fail("from_u64-rejects-in-range", "VarInt::from_u64 rejected a value < 2^62".into());
            }
            if VarInt::try_from(v as u128).is_ok() || VarInt::try_from(v).is_ok() {
                return fail("try_from-accepts-out-of-range", "TryFrom accepted a value >= 2^62".into());
            }
            // the 8-byte pattern with the two top bits forced decodes to the low 62 bits
            let mut w = Vec::new();
            wire::put_var_len(&mut w, v, 8);
            let d = VarInt::decode(&mut &w[..]).map(|x| x.into_inner());
            if d != Ok(v & V62) {
                return fail("decode8-mask", format!("8-byte pattern decoded to {d:?}, want {}", v & V62));
            }
            if let Some(a) = acc {
                a.label("out-of-range");
            }
            return Ok(());
        }
    };
    if q.into_inner() != v || u64::from(q) != v {
        return fail("into_inner", format!("into_inner gives {}", q.into_inner()));
    }
    let mut qb = Vec::with_capacity(8);
    q.encode(&mut qb);
    let minimal = wire::var_len(v);
    let size = qc::varint_size(q);
    if qb.len() != minimal || size != minimal {
        return fail("size", format!("encoded length {} size() {} minimal {}", qb.len(), size, minimal));
    }
    let mut wb = Vec::with_capacity(8);
    wire::put_var(&mut wb, v);
    if wb != qb {
        return fail("encode-bytes", format!("quinn encodes {} reference encodes {}", hex(&qb), hex(&wb)));
    }
    // quinn -> quinn, quinn -> reference
    let mut r = &qb[..];
    match VarInt::decode(&mut r) {
        Ok(d) if d.into_inner() == v && r.is_empty() => {}
        other => return fail("roundtrip", format!("decode(encode(v)) = {other:?}, {} bytes left", r.len())),
    }
    let mut rd = wire::Rd::new(&qb);
    if rd.var() != Ok(v) || rd.remaining() != 0 {
        return fail("reference-decode", "reference decoder disagrees on quinn's encoding".into());
    }
    // every prefix of the encoding is an error, trailing bytes are left alone
    for cut in 0..qb.len() {
        let mut r = &qb[..cut];
        if VarInt::decode(&mut r).is_ok() {
            return fail("truncated-accepted", format!("prefix of {cut} bytes of {} decoded", hex(&qb)));
        }
    }
    // reference -> quinn for every legal (also non-minimal) length, with trailing garbage
    for len in [1usize, 2, 4, 8] {
        if len < minimal {
            continue;
        }
        let mut w = Vec::with_capacity(10);
        wire::put_var_len(&mut w, v, len);
        w.extend_from_slice(&[0xff, 0x00]);
        let mut r = &w[..];
        match VarInt::decode(&mut r) {
            Ok(d) if d.into_inner() == v && r.len() == 2 => {}
            other => {
                return fail(
                    "nonminimal-decode",
                    format!("{len}-byte encoding {} decoded to {other:?} leaving {} bytes (want 2)", hex(&w[..len]), r.len()),
                )
            }
        }
        if len > 1 {
            let mut r = &w[..len - 1];
            if VarInt::decode(&mut r).is_ok() {
                return fail("truncated-accepted", format!("{}-byte prefix of a {len}-byte encoding decoded", len - 1));
            }
        }
    }
    if let Some(a) = acc {
        if near_var_boundary(v) && a.keys.insert(v) {
            a.label("size-boundary");
        }
        a.label(match minimal {
            1 => "1-byte",
            2 => "2-byte",
            4 => "4-byte",
            _ => "8-byte",
        });
    }
    Ok(())
}

pub fn case_varint(c: &VarintCase) -> CaseOut {
    match varint_check(c.v, None) {
        Ok(()) => CaseOut::pass(),
        Err((sig, msg)) => CaseOut::fail(sig, msg),
    }
}

/// The enumeration plan of sub-check a: index -> value. All 1- and 2-byte values, then the 4-byte
/// range (all of it in the thorough tier; both ends plus a seeded odd stride in quick), then
/// boundary-biased 8-byte values and a few values >= 2^62.
struct VarintPlan {
    four_exhaustive: bool,
    four_edge: u64,
    four_stride_n: u64,
    stride: u64,
    offset: u64,
    eight_n: u64,
    seed: u64,
}

impl VarintPlan {
    const SMALL: u64 = 1 << 14;
    const FOUR_LO: u64 = 1 << 14;
    const FOUR_HI: u64 = 1 << 30;
    fn new(report: &Report) -> Self {
        let seed = report.opts.seed;
        let thorough = report.opts.tier == Tier::Thorough;
        let span = Self::FOUR_HI - Self::FOUR_LO;
        Self {
            four_exhaustive: thorough,
            four_edge: report.cases(1 << 21, 0),
            four_stride_n: report.cases(1 << 22, 0),
            stride: (mix(seed, 0xa1) % span) | 1,
            offset: mix(seed, 0xa2) % span,
            eight_n: report.cases(1 << 22, 1 << 26),
            seed,
        }
    }
    fn four_n(&self) -> u64 {
        if self.four_exhaustive {
            Self::FOUR_HI - Self::FOUR_LO
        } else {
            2 * self.four_edge + self.four_stride_n
        }
    }
    fn total(&self) -> u64 {
        Self::SMALL + self.four_n() + self.eight_n
    }
    fn value(&self, i: u64) -> u64 {
        if i < Self::SMALL {
            return i;
        }
        let i = i - Self::SMALL;
        if i < self.four_n() {
            if self.four_exhaustive {
                return Self::FOUR_LO + i;
            }
            if i < self.four_edge {
                return Self::FOUR_LO + i;
            }
            if i < 2 * self.four_edge {
                return Self::FOUR_HI - 1 - (i - self.four_edge);
            }
            let k = i - 2 * self.four_edge;
            let span = Self::FOUR_HI - Self::FOUR_LO;
            return Self::FOUR_LO + (self.offset + k.wrapping_mul(self.stride)) % span;
        }
        let i = i - self.four_n();
        // 8-byte values: dense around 2^30, around every power of two, at the top, out of range,
        // then seeded values with a seeded number of significant bits
        match i {
            0..=65_535 => (1 << 30) - 32_768 + i,
            65_536..=131_071 => V62 - (i - 65_536),
            131_072..=139_263 => {
                let k = i - 131_072;
                let bit = 30 + (k / 256) % 32;
                ((1u64 << bit) + (k % 256)).wrapping_sub(128)
            }
            139_264..=139_775 => {
                let k = i - 139_264;
                match k % 4 {
                    0 => (1 << 62) + k / 4,
                    1 => u64::MAX - k / 4,
                    2 => (1 << 63) + k / 4,
                    _ => (3 << 62) - 1 - k / 4,
                }
            }
            _ => {
                let h = mix(self.seed, i);
                let bits = 31 + (h >> 58) % 32;
                (1u64 << (bits - 1)) | (mix(h, 1) & ((1u64 << (bits - 1)) - 1))
            }
        }
    }
}

fn run_varint(report: &Report) {
    let plan = VarintPlan::new(report);
    let exhaustive_4 = plan.four_exhaustive;
    par_enum(
        report,
        "c10a_varint",
        &format!(
            "enumeration: all 2^6 one-byte and 2^14 two-byte values, {} four-byte values, {} boundary-biased/seeded eight-byte values incl. values >= 2^62; per value: from_u64 domain, quinn encode == reference encode (bytes), size() == encoded length == minimal length, quinn decode and reference decode of it give v, every strict prefix is an error, the reference's 1/2/4/8-byte (non-minimal) encodings followed by garbage decode to v consuming exactly that length; non-trivial = value within 2 of an encoding-size boundary (0, 2^6, 2^14, 2^30, 2^62)",
            if exhaustive_4 { "all 2^30-2^14".to_string() } else { format!("{} (both ends of the range densely + seeded odd stride)", plan.four_n()) },
            plan.eight_n
        ),
        // exhaustive over the domain only for the 1/2/4-byte classes; the 8-byte class is sampled
        false,
        plan.total(),
        |i| json!(VarintCase { v: plan.value(i) }),
        |i, acc| varint_check(plan.value(i), Some(acc)),
    );
}

// ---------------------------------------------------------------------------------------------
// b. packet numbers
// ---------------------------------------------------------------------------------------------

#[derive(Debug, Clone, Serialize, Deserialize)]
pub struct PnCase {
    pub n: u64,
    pub largest_acked: u64,
}

/// d = n - largest_acked thresholds at which the encoded size grows (2d < 2^(8k))
const PN_THRESH: [u64; 4] = [1 << 7, 1 << 15, 1 << 23, 1 << 31];

/// Receiver states to try for packet `n` sent when `la` was the largest acknowledged: the
/// protocol window is [la+1 (la itself when nothing can have been acked), n + hwin - 1]; dense at
/// both ends, around n, and around every point where `expected` or `n` wraps the truncated field.
fn pn_expected_samples(n: u64, la: u64, len: usize, out: &mut Vec<u64>) {
    out.clear();
    let win = 1u64 << (8 * len);
    let hwin = win / 2;
    let mask = win - 1;
    let lo = if la == 0 { 0 } else { la + 1 };
    let hi = (n + hwin - 1).min(V62);
    let push = |c: u64, out: &mut Vec<u64>| {
        for k in 0..=6u64 {
            for e in [c.wrapping_add(k), c.wrapping_sub(k)] {
                if e >= lo && e <= hi && e <= V62 {
                    out.push(e);
                }
            }
        }
    };
    push(lo, out);
    push(hi, out);
    push(n, out);
    push(n + 1, out);
    let base = n & !mask;
    for c in [base, base + hwin, base + win, base.wrapping_sub(hwin), base.wrapping_sub(win), (n + hwin) & !mask, n.wrapping_sub(hwin - 1)] {
        push(c, out);
        push(c.wrapping_sub(1), out);
    }
    push(lo + (hi - lo) / 2, out);
    out.sort_unstable();
    out.dedup();
}

fn pn_check(n: u64, la: u64, acc: Option<&mut Acc>, scratch: &mut Vec<u64>) -> Result<(), (String, String)> {
    let fail = |sig: &str, msg: String| Err((format!("c10/pn/{sig}"), format!("n={n} largest_acked={la} (n-la={}): {msg}", n - la)));
    let (len, trunc) = qc::pn_new(n, la);
    let want_len = wire::pn_len_for(n, Some(la));
    if len != want_len {
        return fail("size", format!("PacketNumber::new chose {len} bytes, RFC 9000 17.1/A.2 requires {want_len}"));
    }
    let mask = (1u64 << (8 * len)) - 1;
    // (the in-memory U24 variant keeps the unmasked low 32 bits; only the low 24 are ever written)
    let trunc = trunc & mask;
    if trunc != n & mask {
        return fail("truncate", format!("truncated value {trunc:#x}, want {:#x}", n & mask));
    }
    let mut b = Vec::with_capacity(4);
    qc::pn_encode(len, trunc, &mut b);
    if b[..] != n.to_be_bytes()[8 - len..] {
        return fail("encode-bytes", format!("encoded {} want {}", hex(&b), hex(&n.to_be_bytes()[8 - len..])));
    }
    if qc::pn_decode_len((len - 1) as u8) != len || qc::pn_decode_len(0xfc | (len - 1) as u8) != len {
        return fail("decode_len", "decode_len(first byte) disagrees with the encoded length".into());
    }
    b.push(0xa5);
    match qc::pn_decode(len, &b) {
        Ok((t, used)) if t == trunc && used == len => {}
        other => return fail("decode", format!("decode gives {other:?}, want ({trunc}, {len})")),
    }
    pn_expected_samples(n, la, len, scratch);
    for &e in scratch.iter() {
        let got = qc::pn_expand(len, trunc, e);
        if got != n {
            return fail("expand", format!("receiver expecting {e} (largest received {}) expands {len}-byte {trunc:#x} to {got}", e as i128 - 1));
        }
        let r = wire::expand_pn(e.checked_sub(1), trunc, len);
        if r != n {
            return fail("reference-expand", format!("REFERENCE expands to {r} for expected {e}"));
        }
    }
    if let Some(a) = acc {
        a.evals += scratch.len() as u64;
        let d = n - la;
        if (PN_THRESH.iter().any(|&t| d.abs_diff(t) <= 2) || d <= 2) && a.keys.insert(mix(n, la)) {
            a.label("size-boundary");
        }
        a.label(match len {
            1 => "1-byte",
            2 => "2-byte",
            3 => "3-byte",
            _ => "4-byte",
        });
    }
    Ok(())
}

pub fn case_pn(c: &PnCase) -> CaseOut {
    if c.n < c.largest_acked || c.n - c.largest_acked >= 1 << 31 || c.n > V62 {
        return CaseOut::discard("outside the encodable domain");
    }
    match pn_check(c.n, c.largest_acked, None, &mut Vec::new()) {
        Ok(()) => CaseOut::pass(),
        Err((sig, msg)) => CaseOut::fail(sig, msg),
    }
}

fn pn_largest_acked_values() -> Vec<u64> {
    let mut v = vec![0u64, 1, 2, 3, 100];
    for k in [7u32, 8, 15, 16, 23, 24, 31, 32, 33, 40, 48, 61] {
        for d in [-2i64, -1, 0, 1] {
            v.push(((1u64 << k) as i64 + d) as u64);
        }
    }
    // the top of the packet number space: n stays <= 2^62 - 1
    v.push(V62 - (1 << 31));
    v.push(V62 - (1 << 32) - 12_345);
    v.sort_unstable();
    v.dedup();
    v
}

fn run_pn(report: &Report) {
    let window: u64 = match report.opts.tier {
        Tier::Quick => ((1u64 << 15) as f64 * report.opts.scale.min(4.0)).max(64.0) as u64,
        Tier::Thorough => 1 << 17,
    };
    let las = pn_largest_acked_values();
    // d-ranges: [0, window) and a window centred on each threshold, clipped to [0, 2^31)
    let mut ranges: Vec<(u64, u64)> = vec![(0, window)];
    for t in PN_THRESH {
        let lo = t.saturating_sub(window / 2);
        let hi = (t + window / 2).min(1 << 31);
        ranges.push((lo, hi));
    }
    let per_la: u64 = ranges.iter().map(|r| r.1 - r.0).sum();
    let total = per_la * las.len() as u64;
    let locate = |i: u64| -> PnCase {
        let la = las[(i / per_la) as usize];
        let mut k = i % per_la;
        for &(lo, hi) in &ranges {
            if k < hi - lo {
                // keep n inside the packet number space
                let d = (lo + k).min(V62 - la);
                return PnCase { n: la + d, largest_acked: la };
            }
            k -= hi - lo;
        }
        unreachable!()
    };
    par_enum(
        report,
        "c10b_pn",
        &format!(
            "enumeration: {} largest_acked values around 0, 2^7..2^61 and the top of the number space x every n with n-largest_acked in [0,{window}) or within {} of an encoding-size threshold (2^7, 2^15, 2^23, 2^31); per (n, largest_acked): size == RFC 9000 A.2 size (reference), truncated value, big-endian bytes, decode_len, decode -> same truncated value and length; for every sampled receiver state `expected` in [largest_acked+1 (or 0), n+hwin-1] (7 values at each end, around n, and around every wrap point of the truncated field): quinn expand == n and reference (RFC A.3) expand == n; evaluations count every (n, largest_acked, expected) triple; non-trivial = n-largest_acked within 2 of a size threshold",
            las.len(),
            window / 2
        ),
        // the n - largest_acked windows are complete; largest_acked and the receiver states are samples
        false,
        total,
        |i| json!(locate(i)),
        |i, acc| {
            let c = locate(i);
            let mut scratch = Vec::with_capacity(128);
            pn_check(c.n, c.largest_acked, Some(acc), &mut scratch)
        },
    );
}

#[derive(Debug, Clone, Serialize, Deserialize)]
pub struct PnDiffCase {
    pub len: u8,
    pub truncated: u32,
    pub expected: u64,
}

pub fn case_pn_diff(c: &PnDiffCase) -> CaseOut {
    let len = c.len as usize;
    let win = 1u64 << (8 * len);
    let t = c.truncated as u64 & (win - 1);
    // RFC A.3 assumes packet numbers below 2^62; keep one window of headroom
    if c.expected > V62 - win {
        return CaseOut::discard("receiver state at the very top of the number space");
    }
    let q = qc::pn_expand(len, t, c.expected);
    let r = wire::expand_pn(c.expected.checked_sub(1), t, len);
    ensure!(q == r, "c10/pn/expand-differs-from-rfc", "len={len} truncated={t:#x} expected={}: quinn {q}, RFC 9000 A.3 {r}", c.expected);
    // the result carries the truncated bits and lies in the half-open window around expected
    ensure!(q & (win - 1) == t, "c10/pn/expand-low-bits", "expanded {q} does not end in {t:#x}");
    let hwin = win / 2;
    let in_window = q + hwin > c.expected && q <= c.expected + hwin;
    ensure!(in_window || q < win, "c10/pn/expand-outside-window", "expanded {q} not within ({} - {hwin}, {} + {hwin}]", c.expected, c.expected);
    let edge = c.expected < win || (c.expected & (win - 1)) <= 1 || (c.expected & (win - 1)) >= win - 2 || t.abs_diff(c.expected & (win - 1)).abs_diff(hwin) <= 1;
    pass(vec![if edge { "edge" } else { "interior" }], edge, json!({"len": len, "truncated": t, "expected": c.expected, "expanded": q}))
}

fn arb_pn_diff() -> impl Strategy<Value = PnDiffCase> {
    let expected = prop_oneof![
        2 => 0u64..70_000,
        2 => (prop::sample::select(vec![8u32, 16, 24, 32, 33, 40, 48, 61]), -300i64..300).prop_map(|(k, d)| ((1u64 << k) as i64 + d) as u64),
        1 => (prop::sample::select(vec![7u32, 15, 23, 31]), -300i64..300).prop_map(|(k, d)| ((1u64 << k) as i64 + d) as u64),
        2 => 0u64..(1 << 34),
        1 => 0u64..V62,
    ];
    (1u8..=4, expected, any::<u32>(), 0u8..4, -3i64..=3).prop_map(|(len, expected, raw, mode, d)| {
        let win = 1u64 << (8 * len as u32);
        let e = expected & (win - 1);
        // bias the truncated value to the places where the three branches of A.3 meet
        let t = match mode {
            0 => raw as u64,
            1 => (e as i64 + d) as u64,
            2 => (e as i64 + (win / 2) as i64 + d) as u64,
            _ => (d.unsigned_abs()).wrapping_sub((d < 0) as u64),
        } & (win - 1);
        PnDiffCase { len, truncated: t as u32, expected }
    })
}

// ---------------------------------------------------------------------------------------------
// Shared value strategies
// ---------------------------------------------------------------------------------------------

/// Boundary-biased integers below 2^62
fn arb_v62() -> impl Strategy<Value = u64> {
    let bounds = vec![0u64, 1, 63, 64, 16_383, 16_384, (1 << 30) - 1, 1 << 30, V62 - 1, V62];
    prop_oneof![
        3 => 0u64..64,
        3 => prop::sample::select(bounds),
        2 => (prop::sample::select(vec![6u32, 14, 30, 62]), -3i64..=3).prop_map(|(k, d)| (((1u64 << k) as i64 + d) as u64).min(V62)),
        2 => 64u64..16_384,
        1 => 16_384u64..(1 << 30),
        1 => (1u64 << 30)..=V62,
    ]
}

/// Byte strings whose length is biased to the varint length boundaries
fn arb_data(max: usize) -> impl Strategy<Value = Vec<u8>> {
    let big = max.max(70);
    let len = prop_oneof![
        4 => 0usize..20,
        3 => prop::sample::select(vec![0usize, 1, 62, 63, 64, 65]),
        2 => 20usize..big,
        1 => prop::sample::select(vec![16_383usize.min(max), 16_384usize.min(max), big]),
    ];
    (len, any::<u8>(), any::<u8>()).prop_map(|(n, a, b)| (0..n).map(|i| a.wrapping_add((i as u8).wrapping_mul(b | 1))).collect())
}

fn arb_cid(min: usize) -> impl Strategy<Value = Vec<u8>> {
    let len = prop_oneof![3 => min..=20usize, 1 => Just(min), 1 => Just(20usize), 1 => Just(8usize)];
    (len, any::<u64>()).prop_map(|(n, s)| (0..n).map(|i| mix(s, i as u64) as u8).collect())
}

// ---------------------------------------------------------------------------------------------
// c. frames
// ---------------------------------------------------------------------------------------------

#[derive(Debug, Clone, Serialize, Deserialize)]
pub struct FramesCase {
    /// Generated as reference frames (`has_len`/`has_off` say how the *reference* encoder writes
    /// them; quinn's encoder chooses `has_off` itself)
    pub frames: Vec<wire::Frame>,
    /// Space offered to CONNECTION_CLOSE/APPLICATION_CLOSE encoders (they truncate the reason)
    pub close_room: u16,
}

fn arb_ack() -> impl Strategy<Value = wire::Frame> {
    let largest = prop_oneof![2 => arb_v62(), 3 => 1_000u64..1_000_000, 1 => 0u64..200];
    let small = || prop_oneof![4 => 0u64..4, 2 => 0u64..64, 1 => 62u64..66, 1 => 0u64..20_000];
    let n_extra = prop_oneof![3 => 0usize..4, 2 => 0usize..=64, 1 => Just(64usize), 1 => Just(0usize)];
    (
        largest,
        arb_v62(),
        small(),
        n_extra.prop_flat_map(move |n| prop::collection::vec((small(), small()), n)),
        prop::option::of((arb_v62(), arb_v62(), arb_v62())),
    )
        .prop_map(|(largest, delay, first, more, ecn)| {
            let first = first.min(largest);
            let mut ranges = vec![(largest - first, largest)];
            let mut smallest = largest - first;
            for (gap, len) in more {
                let Some(hi) = smallest.checked_sub(gap + 2) else { break };
                let len = len.min(hi);
                ranges.push((hi - len, hi));
                smallest = hi - len;
            }
            wire::Frame::Ack { largest, delay, ranges, ecn }
        })
}

fn arb_frame() -> impl Strategy<Value = wire::Frame> {
    use wire::Frame as F;
    let v = arb_v62;
    prop_oneof![
        1 => (1usize..20).prop_map(F::Padding),
        1 => Just(F::Ping),
        4 => arb_ack(),
        2 => (v(), v(), v()).prop_map(|(id, code, final_size)| F::ResetStream { id, code, final_size }),
        2 => (v(), v()).prop_map(|(id, code)| F::StopSending { id, code }),
        2 => (v(), arb_data(1200)).prop_map(|(offset, data)| F::Crypto { offset: offset.min(V62 - data.len() as u64), data }),
        2 => arb_data(300).prop_map(|token| F::NewToken { token }),
        6 => (v(), prop_oneof![2 => Just(0u64), 3 => v()], arb_data(16_500), any::<bool>(), any::<bool>(), any::<bool>()).prop_map(
            |(id, offset, data, fin, has_len, has_off)| {
                let offset = offset.min(V62 - data.len() as u64);
                F::Stream { id, offset, data, fin, has_len, has_off: has_off || offset != 0 }
            }
        ),
        1 => v().prop_map(F::MaxData),
        1 => (v(), v()).prop_map(|(id, max)| F::MaxStreamData { id, max }),
        1 => (any::<bool>(), v()).prop_map(|(bidi, max)| F::MaxStreams { bidi, max }),
        1 => v().prop_map(F::DataBlocked),
        1 => (v(), v()).prop_map(|(id, limit)| F::StreamDataBlocked { id, limit }),
        1 => (any::<bool>(), v()).prop_map(|(bidi, limit)| F::StreamsBlocked { bidi, limit }),
        3 => (v(), v(), arb_cid(1), any::<[u8; 16]>()).prop_map(|(a, b, cid, reset_token)| F::NewConnectionId {
            seq: a.max(b),
            retire_prior_to: a.min(b),
            cid,
            reset_token
        }),
        1 => v().prop_map(F::RetireConnectionId),
        1 => any::<u64>().prop_map(F::PathChallenge),
        1 => any::<u64>().prop_map(F::PathResponse),
        3 => (v(), prop_oneof![Just(0u64), v()], arb_data(400)).prop_map(|(code, frame_type, reason)| F::ConnectionClose { code, frame_type, reason }),
        3 => (v(), arb_data(400)).prop_map(|(code, reason)| F::ApplicationClose { code, reason }),
        1 => Just(F::HandshakeDone),
        2 => (v(), v(), v(), v()).prop_map(|(seq, threshold, max_ack_delay, reordering)| F::AckFrequency { seq, threshold, max_ack_delay, reordering }),
        1 => Just(F::ImmediateAck),
        3 => (arb_data(1300), any::<bool>()).prop_map(|(data, has_len)| F::Datagram { data, has_len }),
    ]
}

pub fn arb_frames_case() -> impl Strategy<Value = FramesCase> {
    let n = prop_oneof![3 => Just(1usize), 3 => 2usize..=6];
    (n.prop_flat_map(|n| prop::collection::vec(arb_frame(), n)), prop_oneof![3 => Just(u16::MAX), 2 => 26u16..600]).prop_map(|(mut frames, close_room)| {
        // a frame without a length field extends to the end of the packet: only the last may omit it
        let last = frames.len() - 1;
        for f in &mut frames[..last] {
            match f {
                wire::Frame::Stream { has_len, .. } | wire::Frame::Datagram { has_len, .. } => *has_len = true,
                _ => {}
            }
        }
        FramesCase { frames, close_room }
    })
}

fn frame_to_v(f: &wire::Frame, out: &mut Vec<qc::VFrame>) {
    use qc::VFrame as V;
    use wire::Frame as F;
    out.push(match f.clone() {
        F::Padding(n) => {
            for _ in 0..n {
                out.push(V::Padding);
            }
            return;
        }
        F::Ping => V::Ping,
        F::Ack { largest, delay, ranges, ecn } => V::Ack { largest, delay, ranges, ecn },
        F::ResetStream { id, code, final_size } => V::ResetStream { id, code, final_size },
        F::StopSending { id, code } => V::StopSending { id, code },
        F::Crypto { offset, data } => V::Crypto { offset, data },
        F::NewToken { token } => V::NewToken { token },
        F::Stream { id, offset, data, fin, .. } => V::Stream { id, offset, fin, data },
        F::MaxData(v) => V::MaxData(v),
        F::MaxStreamData { id, max } => V::MaxStreamData { id, max },
        F::MaxStreams { bidi, max } => V::MaxStreams { bidi, max },
        F::DataBlocked(v) => V::DataBlocked(v),
        F::StreamDataBlocked { id, limit } => V::StreamDataBlocked { id, limit },
        F::StreamsBlocked { bidi, limit } => V::StreamsBlocked { bidi, limit },
        F::NewConnectionId { seq, retire_prior_to, cid, reset_token } => V::NewConnectionId { seq, retire_prior_to, cid, reset_token },
        F::RetireConnectionId(s) => V::RetireConnectionId(s),
        F::PathChallenge(t) => V::PathChallenge(t),
        F::PathResponse(t) => V::PathResponse(t),
        F::ConnectionClose { code, frame_type, reason } => V::ConnectionClose { code, frame_type, reason },
        F::ApplicationClose { code, reason } => V::ApplicationClose { code, reason },
        F::HandshakeDone => V::HandshakeDone,
        F::AckFrequency { seq, threshold, max_ack_delay, reordering } => V::AckFrequency { seq, threshold, max_ack_delay, reordering },
        F::ImmediateAck => V::ImmediateAck,
        F::Datagram { data, .. } => V::Datagram { data },
        F::Raw(_) => return,
    });
}

/// What the reference decoder reports for a sequence of frames: PADDING runs merged, STREAM
/// `has_off` as found on the wire
fn normalise(frames: &[wire::Frame], off_as_quinn: bool) -> Vec<wire::Frame> {
    let mut out: Vec<wire::Frame> = Vec::new();
    for f in frames {
        match (f, out.last_mut()) {
            (wire::Frame::Padding(n), Some(wire::Frame::Padding(m))) => *m += n,
            (wire::Frame::Stream { id, offset, data, fin, has_len, has_off }, _) => out.push(wire::Frame::Stream {
                id: *id,
                offset: *offset,
                data: data.clone(),
                fin: *fin,
                has_len: *has_len,
                has_off: if off_as_quinn { *offset != 0 } else { *has_off || *offset != 0 },
            }),
            _ => out.push(f.clone()),
        }
    }
    out
}

fn enc_opts(f: &wire::Frame, close_room: usize) -> qc::EncOpts {
    let has_len = match f {
        wire::Frame::Stream { has_len, .. } | wire::Frame::Datagram { has_len, .. } => *has_len,
        _ => true,
    };
    qc::EncOpts { stream_len: has_len, datagram_len: has_len, close_max_len: close_room }
}

fn first_diff<T: PartialEq + std::fmt::Debug>(a: &[T], b: &[T]) -> String {
    for (i, (x, y)) in a.iter().zip(b.iter()).enumerate() {
        if x != y {
            let (sx, sy) = (format!("{x:?}"), format!("{y:?}"));
            return format!("frame #{i}:\n   got  {}\n   want {}", &sx[..sx.len().min(600)], &sy[..sy.len().min(600)]);
        }
    }
    format!("lengths differ: got {} want {}", a.len(), b.len())
}

fn frame_labels(frames: &[wire::Frame], labels: &mut Vec<&'static str>, optional: &mut bool, boundary: &mut bool) {
    let hit = std::cell::Cell::new(false);
    let edge = |v: u64| {
        if near_var_boundary(v) && v > 2 {
            hit.set(true);
        }
    };
    for f in frames {
        labels.push(f.kind());
        match f {
            wire::Frame::Ack { ranges, ecn, largest, .. } => {
                edge(*largest);
                if ecn.is_some() {
                    labels.push("ack-ecn");
                    *optional = true;
                }
                if ranges.len() > 1 {
                    labels.push("ack-multirange");
                    *optional = true;
                }
                if ranges.len() == 65 {
                    labels.push("ack-64-extra-ranges");
                }
            }
            wire::Frame::Stream { offset, fin, has_len, data, id, .. } => {
                edge(*offset);
                edge(*id);
                edge(data.len() as u64);
                if *offset != 0 {
                    labels.push("stream-off");
                    *optional = true;
                }
                if *has_len {
                    labels.push("stream-len");
                    *optional = true;
                }
                if *fin {
                    labels.push("stream-fin");
                    *optional = true;
                }
            }
            wire::Frame::Datagram { has_len, data } => {
                edge(data.len() as u64);
                if *has_len {
                    labels.push("datagram-len");
                    *optional = true;
                }
            }
            wire::Frame::ConnectionClose { frame_type, reason, code } => {
                edge(*code);
                edge(reason.len() as u64);
                if *frame_type != 0 {
                    labels.push("close-frame-type");
                    *optional = true;
                }
            }
            wire::Frame::NewConnectionId { cid, seq, .. } => {
                edge(*seq);
                if cid.len() == 1 || cid.len() == 20 {
                    hit.set(true);
                }
            }
            wire::Frame::Crypto { offset, data } => {
                edge(*offset);
                edge(data.len() as u64);
            }
            wire::Frame::NewToken { token } => edge(token.len() as u64),
            wire::Frame::ApplicationClose { code, reason } => {
                edge(*code);
                edge(reason.len() as u64);
            }
            wire::Frame::ResetStream { id, code, final_size } => {
                edge(*id);
                edge(*code);
                edge(*final_size);
            }
            wire::Frame::MaxData(v) | wire::Frame::DataBlocked(v) | wire::Frame::RetireConnectionId(v) => edge(*v),
            wire::Frame::MaxStreamData { id, max: v } | wire::Frame::StreamDataBlocked { id, limit: v } | wire::Frame::StopSending { id, code: v } => {
                edge(*id);
                edge(*v);
            }
            wire::Frame::MaxStreams { max: v, .. } | wire::Frame::StreamsBlocked { limit: v, .. } => edge(*v),
            wire::Frame::AckFrequency { seq, threshold, max_ack_delay, reordering } => {
                edge(*seq);
                edge(*threshold);
                edge(*max_ack_delay);
                edge(*reordering);
            }
            _ => {}
        }
    }
    if hit.get() {
        *boundary = true;
    }
}

pub fn case_frames(c: &FramesCase) -> CaseOut {
    if c.frames.is_empty() || c.frames.iter().any(|f| matches!(f, wire::Frame::Raw(_))) {
        return CaseOut::discard("empty payload / raw frame");
    }
    let big_room = u16::MAX as usize;
    let mut want_v = Vec::new();
    for f in &c.frames {
        frame_to_v(f, &mut want_v);
    }

    // (i) quinn encoder -> quinn decoder
    let mut qbytes = Vec::new();
    for f in &c.frames {
        let mut one = Vec::new();
        frame_to_v(f, &mut one);
        for v in &one {
            tri!(guarded("quinn frame encoder", &[], || qc::frame_encode(v, enc_opts(f, big_room), &mut qbytes)));
        }
    }
    let qd = tri!(guarded("frame::Iter", &qbytes, || qc::frames_decode(Bytes::from(qbytes.clone()))));
    ensure!(qd.error.is_none(), "c10/frames/quinn-rejects-own-encoding", "quinn's decoder rejected quinn's encoding: {:?}\nbytes {}", qd.error, hex(&qbytes));
    ensure!(qd.frames == want_v, "c10/frames/roundtrip", "decode(encode(frames)) differs, {}\nbytes {}", first_diff(&qd.frames, &want_v), hex(&qbytes));

    // (ii) quinn encoder -> reference decoder, field by field, and byte equality with the reference
    // encoder (both must produce minimal-length integers)
    let want_w = normalise(&c.frames, true);
    match wire::decode_frames(&qbytes) {
        Ok(w) => ensure!(w == want_w, "c10/frames/reference-decodes-differently", "reference decoder reads quinn's encoding differently, {}\nbytes {}", first_diff(&w, &want_w), hex(&qbytes)),
        Err(e) => return CaseOut::fail("c10/frames/reference-rejects-quinn-encoding", format!("reference decoder rejects quinn's encoding: {e:?}\nbytes {}", hex(&qbytes))),
    }
    let wbytes_norm = wire::encode_frames(&want_w);
    ensure!(wbytes_norm == qbytes, "c10/frames/encoders-differ", "quinn and the reference encode the same frames differently\n quinn     {}\n reference {}", hex(&qbytes), hex(&wbytes_norm));

    // (iii) reference encoder (explicit zero offsets allowed) -> quinn decoder
    let wbytes = wire::encode_frames(&c.frames);
    let want_w2 = normalise(&c.frames, false);
    match wire::decode_frames(&wbytes) {
        Ok(w) if w == want_w2 => {}
        other => {
            return CaseOut::fail(
                "c10/reference/self-roundtrip",
                format!("REFERENCE codec does not round-trip its own encoding: {:?}\nbytes {}", other.map(|w| first_diff(&w, &want_w2)), hex(&wbytes)),
            )
        }
    }
    let qd2 = tri!(guarded("frame::Iter", &wbytes, || qc::frames_decode(Bytes::from(wbytes.clone()))));
    ensure!(qd2.error.is_none(), "c10/frames/quinn-rejects-reference-encoding", "quinn's decoder rejected the reference encoding: {:?}\nbytes {}", qd2.error, hex(&wbytes));
    ensure!(qd2.frames == want_v, "c10/frames/quinn-decodes-reference-differently", "quinn reads the reference encoding differently, {}\nbytes {}", first_diff(&qd2.frames, &want_v), hex(&wbytes));

    // Frame::ty() of each decoded frame names the same type the reference saw (STREAM flag bits
    // as quinn would re-send them)
    for (t, v) in qd.tys.iter().zip(qd.frames.iter()) {
        let want = match v {
            qc::VFrame::Stream { offset, fin, .. } => 0x08 | (*fin as u64) | (((*offset != 0) as u64) << 2),
            qc::VFrame::Ack { .. } => 0x02,
            qc::VFrame::Datagram { .. } => 0x30,
            other => {
                let mut b = Vec::new();
                qc::frame_encode(other, qc::EncOpts { stream_len: true, datagram_len: true, close_max_len: big_room }, &mut b);
                wire::Rd::new(&b).var().unwrap()
            }
        };
        ensure!(*t == want, "c10/frames/ty", "Frame::ty() = {t:#x} for {v:?}, want {want:#x}");
    }

    // (iv) CONNECTION_CLOSE / APPLICATION_CLOSE honour the space they are given: the frame fits,
    // the reason is a prefix of the original, everything else is intact
    let mut labels: Vec<&'static str> = Vec::new();
    if let Some(f @ (wire::Frame::ConnectionClose { .. } | wire::Frame::ApplicationClose { .. })) = c.frames.last() {
        let room = c.close_room as usize;
        let mut one = Vec::new();
        frame_to_v(f, &mut one);
        let mut b = Vec::new();
        tri!(guarded("Close::encode", &[], || qc::frame_encode(&one[0], enc_opts(f, room), &mut b)));
        let d = tri!(guarded("frame::Iter", &b, || qc::frames_decode(Bytes::from(b.clone()))));
        ensure!(d.error.is_none() && d.frames.len() == 1, "c10/frames/close-truncated-undecodable", "truncated close frame does not decode: {d:?}");
        let ok = match (&d.frames[0], &one[0]) {
            (qc::VFrame::ConnectionClose { code: a, frame_type: b, reason: r }, qc::VFrame::ConnectionClose { code: x, frame_type: y, reason: s }) => a == x && b == y && s.starts_with(r),
            (qc::VFrame::ApplicationClose { code: a, reason: r }, qc::VFrame::ApplicationClose { code: x, reason: s }) => a == x && s.starts_with(r),
            _ => false,
        };
        ensure!(ok, "c10/frames/close-truncated-fields", "close frame encoded into {room} bytes decodes to {:?}, original {:?}", d.frames[0], one[0]);
        // CONNECTION_CLOSE: the library only produces the codes of its own table (< 0x200)
        let producible = match &one[0] {
            qc::VFrame::ConnectionClose { code, .. } => *code < 0x200,
            _ => true,
        };
        ensure!(
            b.len() <= room || !producible,
            "c10/frames/close-encode-exceeds-max-len",
            "Close::encode(max_len={room}) wrote {} bytes for {:?} with a {}-byte reason",
            b.len(),
            match &one[0] {
                qc::VFrame::ConnectionClose { code, frame_type, .. } => format!("CONNECTION_CLOSE code={code} frame_type={frame_type}"),
                qc::VFrame::ApplicationClose { code, .. } => format!("APPLICATION_CLOSE code={code}"),
                _ => String::new(),
            },
            match f {
                wire::Frame::ConnectionClose { reason, .. } | wire::Frame::ApplicationClose { reason, .. } => reason.len(),
                _ => 0,
            }
        );
        if b.len() < wire::encode_frames(std::slice::from_ref(f)).len() {
            labels.push("close-reason-truncated");
        }
    }

    let (mut optional, mut boundary) = (false, false);
    frame_labels(&c.frames, &mut labels, &mut optional, &mut boundary);
    if c.frames.len() > 1 {
        labels.push("multi-frame");
    }
    labels.sort_unstable();
    labels.dedup();
    let kinds: Vec<&str> = c.frames.iter().map(|f| f.kind()).collect();
    pass(labels, optional || boundary, json!({"frames": kinds, "bytes": qbytes.len()}))
}

// ---------------------------------------------------------------------------------------------
// d. packet headers and coalesced datagrams
// ---------------------------------------------------------------------------------------------

#[derive(Debug, Clone, Copy, PartialEq, Eq, Serialize, Deserialize)]
pub enum PktKind {
    Initial,
    Handshake,
    ZeroRtt,
    Short,
    Retry,
    VersionNegotiation,
}

#[derive(Debug, Clone, Serialize, Deserialize)]
pub struct PktSpec {
    pub kind: PktKind,
    /// Index into quinn's DEFAULT_SUPPORTED_VERSIONS
    pub version_idx: u8,
    pub dcid: Vec<u8>,
    pub scid: Vec<u8>,
    pub token: Vec<u8>,
    pub pn_len: u8,
    pub pn: u32,
    pub spin: bool,
    pub key_phase: bool,
    /// Low 7 bits of the first byte of a Version Negotiation packet
    pub random: u8,
    /// Bytes following the header: payload + 16-byte tag for protected packets (>= 20 so that the
    /// header protection sample exists), token + tag for Retry, version list for VN
    pub body_len: u16,
    pub body_seed: u8,
}

#[derive(Debug, Clone, Serialize, Deserialize)]
pub struct DgramCase {
    /// 0..=4 long-header packets, then optionally one packet without a Length field (Short, Retry,
    /// Version Negotiation), which therefore ends the datagram
    pub pkts: Vec<PktSpec>,
    pub grease_quic_bit: bool,
    /// Decode with the first packet's version removed from the supported list: must be refused
    pub unsupported: bool,
}

fn versions() -> &'static [u32] {
    quinn_proto::DEFAULT_SUPPORTED_VERSIONS
}

fn arb_pkt(kind: PktKind, short_cid_len: usize) -> impl Strategy<Value = PktSpec> {
    let token = match kind {
        PktKind::Initial => prop_oneof![2 => Just(vec![]), 3 => arb_data(300)].boxed(),
        _ => Just(vec![]).boxed(),
    };
    let dcid = match kind {
        PktKind::Short => (Just(short_cid_len), any::<u64>()).prop_map(|(n, s)| (0..n).map(|i| mix(s, i as u64) as u8).collect::<Vec<u8>>()).boxed(),
        _ => arb_cid(0).boxed(),
    };
    (
        (0u8..versions().len() as u8, dcid, arb_cid(0), token),
        (1u8..=4, prop_oneof![any::<u32>(), 0u32..300, Just(u32::MAX)], any::<bool>(), any::<bool>(), 0u8..128),
        (prop_oneof![3 => 20u16..60, 2 => 20u16..1400, 1 => Just(20u16), 1 => prop::sample::select(vec![59u16, 60, 61, 62, 63, 64, 65, 66, 16_000, 16_300])], any::<u8>()),
    )
        .prop_map(move |((version_idx, dcid, scid, token), (pn_len, pn, spin, key_phase, random), (body_len, body_seed))| {
            let pn = if pn_len == 4 { pn } else { pn & ((1u32 << (8 * pn_len)) - 1) };
            // Version Negotiation bodies are a whole number of versions
            let body_len = if kind == PktKind::VersionNegotiation { (body_len / 4 * 4).clamp(4, 1024) } else { body_len };
            PktSpec { kind, version_idx, dcid, scid, token, pn_len, pn, spin, key_phase, random, body_len, body_seed }
        })
}

pub fn arb_dgram_case() -> impl Strategy<Value = DgramCase> {
    let long_kind = || prop_oneof![Just(PktKind::Initial), Just(PktKind::Handshake), Just(PktKind::ZeroRtt)];
    let tail_kind = prop_oneof![4 => Just(Some(PktKind::Short)), 1 => Just(Some(PktKind::Retry)), 1 => Just(Some(PktKind::VersionNegotiation)), 3 => Just(None)];
    (0usize..=4, tail_kind, 0usize..=20, any::<bool>(), prop::bool::weighted(0.05))
        .prop_flat_map(move |(n_long, tail, short_cid_len, grease, unsupported)| {
            let n_long = if tail.is_none() { n_long.max(1) } else { n_long };
            let longs = prop::collection::vec(long_kind().prop_flat_map(move |k| arb_pkt(k, short_cid_len)), n_long);
            let tail = match tail {
                Some(k) => arb_pkt(k, short_cid_len).prop_map(Some).boxed(),
                None => Just(None).boxed(),
            };
            (longs, tail, Just(grease), Just(unsupported))
        })
        .prop_map(|(mut pkts, tail, grease_quic_bit, unsupported)| {
            pkts.extend(tail);
            DgramCase { pkts, grease_quic_bit, unsupported }
        })
}

fn pkt_body(p: &PktSpec) -> Vec<u8> {
    if p.kind == PktKind::VersionNegotiation {
        // a list of versions, none of them zero
        return (0..p.body_len as usize).map(|i| if i % 4 == 0 { 0x0a | p.body_seed } else { (i as u8).wrapping_mul(p.body_seed | 1) | 1 }).collect();
    }
    (0..p.body_len as usize).map(|i| p.body_seed.wrapping_add((i as u8).wrapping_mul(31))).collect()
}

fn pkt_header(p: &PktSpec) -> qc::VHeader {
    let version = versions()[p.version_idx as usize % versions().len()];
    let (pn_len, pn) = (p.pn_len as usize, p.pn as u64);
    match p.kind {
        PktKind::Initial => qc::VHeader::Initial { dcid: p.dcid.clone(), scid: p.scid.clone(), token: p.token.clone(), pn_len, pn, version },
        PktKind::Handshake | PktKind::ZeroRtt => qc::VHeader::Long { zero_rtt: p.kind == PktKind::ZeroRtt, dcid: p.dcid.clone(), scid: p.scid.clone(), pn_len, pn, version },
        PktKind::Short => qc::VHeader::Short { spin: p.spin, key_phase: p.key_phase, dcid: p.dcid.clone(), pn_len, pn },
        PktKind::Retry => qc::VHeader::Retry { dcid: p.dcid.clone(), scid: p.scid.clone(), version },
        PktKind::VersionNegotiation => qc::VHeader::VersionNegotiate { random: p.random & 0x7f, dcid: p.dcid.clone(), scid: p.scid.clone() },
    }
}

fn well_formed_dgram(c: &DgramCase) -> Result<usize, String> {
    if c.pkts.is_empty() || c.pkts.len() > 5 {
        return Err("packet count".into());
    }
    let mut short_len = 0;
    for (i, p) in c.pkts.iter().enumerate() {
        let last = i == c.pkts.len() - 1;
        let long = matches!(p.kind, PktKind::Initial | PktKind::Handshake | PktKind::ZeroRtt);
        if !long && !last {
            return Err("a packet without Length field is not last".into());
        }
        if p.dcid.len() > 20 || p.scid.len() > 20 || !(1..=4).contains(&p.pn_len) || (p.pn_len < 4 && p.pn >> (8 * p.pn_len) != 0) {
            return Err("field out of range".into());
        }
        if p.kind != PktKind::VersionNegotiation && p.kind != PktKind::Retry && p.body_len < 20 {
            return Err("body shorter than the header protection sample".into());
        }
        if long && p.body_len as usize + 4 >= 1 << 14 {
            return Err("body does not fit the two-byte Length field quinn reserves".into());
        }
        if p.kind == PktKind::VersionNegotiation && (p.body_len % 4 != 0 || p.body_len == 0) {
            return Err("version list".into());
        }
        if p.kind == PktKind::Retry && p.body_len < 16 {
            return Err("retry without integrity tag".into());
        }
        if p.kind == PktKind::Short {
            short_len = p.dcid.len();
        }
    }
    Ok(short_len)
}

pub fn case_dgram(c: &DgramCase) -> CaseOut {
    let local_cid_len = match well_formed_dgram(c) {
        Ok(n) => n,
        Err(e) => return CaseOut::discard(e),
    };
    // a VN packet whose first byte has the fixed bit clear needs a receiver that ignores that bit
    let grease = c.grease_quic_bit || c.pkts.iter().any(|p| p.kind == PktKind::VersionNegotiation && p.random & 0x40 == 0);

    // ---- encode with quinn, remembering what the encoder produced ----
    let mut dgram = Vec::new();
    let mut bounds = Vec::new(); // (start, header_len, end)
    for p in &c.pkts {
        let start = dgram.len();
        let h = pkt_header(p);
        let body = pkt_body(p);
        let hl = tri!(guarded("Header::encode/PartialEncode::finish", &[], || qc::packet_encode(&h, &body, &mut dgram)));
        ensure!(dgram.len() == start + hl + body.len(), "c10/packet/encode-length", "encoder wrote {} bytes for a {hl}-byte header and {}-byte body", dgram.len() - start, body.len());
        bounds.push((start, hl, dgram.len()));
    }

    if c.unsupported {
        let first = &c.pkts[0];
        if matches!(first.kind, PktKind::Short | PktKind::VersionNegotiation) {
            return CaseOut::discard("no version field to refuse");
        }
        let v = versions()[first.version_idx as usize % versions().len()];
        let sup: Vec<u32> = versions().iter().copied().filter(|&x| x != v).collect();
        let r = tri!(guarded("PartialDecode::new", &dgram, || qc::packet_decode(&dgram, local_cid_len, &sup, grease)));
        return match r {
            Err(e) if e.contains("unsupported version") => pass(vec!["unsupported-version"], false, json!({"version": v})),
            other => CaseOut::fail("c10/packet/unsupported-version-accepted", format!("version {v:#x} not in the supported list, decoder returned {other:?}")),
        };
    }

    // ---- split and decode with quinn ----
    let mut rest: Option<Vec<u8>> = Some(dgram.clone());
    for (i, p) in c.pkts.iter().enumerate() {
        let (start, hl, end) = bounds[i];
        let data = match rest.take() {
            Some(d) => d,
            None => return CaseOut::fail("c10/packet/coalesced-split", format!("decoder found no packet #{i}: it consumed the datagram after {i} of {} packets", c.pkts.len())),
        };
        ensure!(data[..] == dgram[start..], "c10/packet/coalesced-split", "packet #{i} handed to the decoder starts at the wrong offset: {} bytes left, want {}", data.len(), dgram.len() - start);
        let d = match tri!(guarded("PartialDecode::new/finish", &data, || qc::packet_decode(&data, local_cid_len, versions(), grease))) {
            Ok(d) => d,
            Err(e) => return CaseOut::fail("c10/packet/quinn-rejects-own-encoding", format!("packet #{i} {:?}: {e}\nbytes {}", p.kind, hex(&data))),
        };
        let want = pkt_header(p);
        ensure!(d.header == want, "c10/packet/header-roundtrip", "packet #{i}:\n   got  {:?}\n   want {:?}\nbytes {}", d.header, want, hex(&dgram[start..end]));
        ensure!(d.len == end - start, "c10/packet/coalesced-split", "packet #{i} {:?}: decoder says it is {} bytes long, encoder wrote {}", p.kind, d.len, end - start);
        ensure!(d.header_data[..] == dgram[start..start + hl], "c10/packet/header-bytes", "packet #{i}: header bytes differ / header length {} vs encoder {hl}", d.header_data.len());
        ensure!(d.payload[..] == dgram[start + hl..end], "c10/packet/payload", "packet #{i}: payload differs ({} bytes, want {})", d.payload.len(), end - start - hl);
        ensure!(d.early_dst_cid == p.dcid, "c10/packet/early-dcid", "packet #{i}: PartialDecode::dst_cid {:?} want {:?}", d.early_dst_cid, p.dcid);
        ensure!(d.reserved_bits_valid || p.kind == PktKind::VersionNegotiation, "c10/packet/reserved-bits", "packet #{i}: encoder set reserved bits");
        match &d.rest {
            Some(r) => ensure!(r[..] == dgram[end..] && !r.is_empty(), "c10/packet/coalesced-split", "packet #{i}: remainder is {} bytes, want {}", r.len(), dgram.len() - end),
            None => ensure!(end == dgram.len(), "c10/packet/coalesced-split", "packet #{i}: decoder reports no remainder but {} bytes follow", dgram.len() - end),
        }
        rest = d.rest;
    }
    ensure!(rest.is_none(), "c10/packet/coalesced-split", "bytes left after the last packet");

    // ---- quinn's bytes through the reference decoder ----
    let ws = wire::decode_datagram(&dgram, local_cid_len);
    ensure!(ws.len() == c.pkts.len(), "c10/packet/reference-split", "reference splits the datagram into {} packets, quinn wrote {}", ws.len(), c.pkts.len());
    for (i, (w, p)) in ws.iter().zip(c.pkts.iter()).enumerate() {
        let (start, hl, end) = bounds[i];
        let w = match w {
            Ok(w) => w,
            Err(e) => return CaseOut::fail("c10/packet/reference-rejects-quinn-encoding", format!("packet #{i} {:?}: {e:?}\nbytes {}", p.kind, hex(&dgram[start..end]))),
        };
        let kind = match w.ty {
            wire::PktType::Initial => PktKind::Initial,
            wire::PktType::ZeroRtt => PktKind::ZeroRtt,
            wire::PktType::Handshake => PktKind::Handshake,
            wire::PktType::Retry => PktKind::Retry,
            wire::PktType::Short => PktKind::Short,
            wire::PktType::VersionNegotiation => PktKind::VersionNegotiation,
        };
        let body = &dgram[start + hl..end];
        let mut ok = kind == p.kind && w.dcid == p.dcid && w.start == start && w.len == end - start;
        let mut what = format!("{:?}", (kind, &w.dcid, w.start, w.len));
        match p.kind {
            PktKind::Short => {
                ok &= w.pn_len == p.pn_len as usize && w.pn_trunc == p.pn as u64 && w.key_phase == p.key_phase && w.spin == p.spin && w.header_len == hl;
                ok &= [&w.payload[..], &w.tag[..]].concat() == body && w.first_byte & 0x40 != 0;
            }
            PktKind::Initial | PktKind::Handshake | PktKind::ZeroRtt => {
                ok &= w.version == versions()[p.version_idx as usize] && w.scid == p.scid && w.token == p.token;
                ok &= w.pn_len == p.pn_len as usize && w.pn_trunc == p.pn as u64 && w.header_len == hl;
                ok &= [&w.payload[..], &w.tag[..]].concat() == body && w.first_byte & 0x4c == 0x40;
                what += &format!(" version={:#x} scid={:?} token={} pn=({}, {}) hl={}", w.version, w.scid, w.token.len(), w.pn_len, w.pn_trunc, w.header_len);
            }
            PktKind::Retry => {
                ok &= w.version == versions()[p.version_idx as usize] && w.scid == p.scid && [&w.token[..], &w.tag[..]].concat() == body;
            }
            PktKind::VersionNegotiation => {
                let vs: Vec<u8> = w.versions.iter().flat_map(|v| v.to_be_bytes()).collect();
                ok &= w.version == 0 && w.scid == p.scid && vs == body && w.first_byte & 0x7f == p.random & 0x7f;
            }
        }
        ensure!(ok, "c10/packet/reference-decodes-differently", "packet #{i} {:?}: reference read {what}\nspec {p:?}\nbytes {}", p.kind, hex(&dgram[start..end.min(start + 120)]));
    }

    // ---- the reference's packets through quinn's decoder (protected packet types) ----
    let mut wd = Vec::new();
    let mut wb = Vec::new();
    for p in c.pkts.iter().filter(|p| !matches!(p.kind, PktKind::Retry | PktKind::VersionNegotiation)) {
        let start = wd.len();
        let payload = pkt_body(p);
        let payload = &payload[..payload.len() - 16];
        wire::build_packet(
            &wire::BuildPkt {
                ty: match p.kind {
                    PktKind::Initial => wire::PktType::Initial,
                    PktKind::Handshake => wire::PktType::Handshake,
                    PktKind::ZeroRtt => wire::PktType::ZeroRtt,
                    _ => wire::PktType::Short,
                },
                version: versions()[p.version_idx as usize],
                dcid: &p.dcid,
                scid: &p.scid,
                token: &p.token,
                pn: p.pn as u64 | 0x1_0000_0000,
                pn_len: p.pn_len as usize,
                key_phase: p.key_phase,
                payload,
                key: 7,
                min_len: 0,
                first_byte_xor: if p.kind == PktKind::Short && p.spin { 0x20 } else { 0 },
            },
            &mut wd,
        );
        wb.push((start, wd.len(), p, payload.to_vec()));
    }
    let mut rest: Option<Vec<u8>> = if wd.is_empty() { None } else { Some(wd.clone()) };
    for (i, (start, end, p, payload)) in wb.iter().enumerate() {
        let data = match rest.take() {
            Some(d) => d,
            None => return CaseOut::fail("c10/packet/coalesced-split-reference", format!("decoder consumed the reference-built datagram after {i} of {} packets", wb.len())),
        };
        let d = match tri!(guarded("PartialDecode::new/finish", &data, || qc::packet_decode(&data, local_cid_len, versions(), grease))) {
            Ok(d) => d,
            Err(e) => return CaseOut::fail("c10/packet/quinn-rejects-reference-encoding", format!("packet #{i} {:?}: {e}\nbytes {}", p.kind, hex(&data))),
        };
        let want = pkt_header(p);
        ensure!(d.header == want, "c10/packet/quinn-decodes-reference-differently", "packet #{i}:\n   got  {:?}\n   want {:?}\nbytes {}", d.header, want, hex(&wd[*start..*end]));
        ensure!(d.len == end - start && d.payload.len() == payload.len() + 16 && d.payload[..payload.len()] == payload[..], "c10/packet/quinn-decodes-reference-differently", "packet #{i}: length {} want {}, payload {} want {}", d.len, end - start, d.payload.len(), payload.len() + 16);
        ensure!(d.rest.as_ref().map_or(*end == wd.len(), |r| r[..] == wd[*end..]), "c10/packet/coalesced-split-reference", "packet #{i}: wrong remainder");
        rest = d.rest;
    }

    let mut labels: Vec<&'static str> = c
        .pkts
        .iter()
        .map(|p| match p.kind {
            PktKind::Initial => "initial",
            PktKind::Handshake => "handshake",
            PktKind::ZeroRtt => "0rtt",
            PktKind::Short => "short",
            PktKind::Retry => "retry",
            PktKind::VersionNegotiation => "version-negotiation",
        })
        .collect();
    let coalesced = c.pkts.len() > 1;
    let token = c.pkts.iter().any(|p| !p.token.is_empty());
    let edge_cid = c.pkts.iter().any(|p| [0, 20].contains(&p.dcid.len()) || (p.kind != PktKind::Short && [0, 20].contains(&p.scid.len())));
    if coalesced {
        labels.push(match c.pkts.len() {
            2 => "coalesced-2",
            3 => "coalesced-3",
            4 => "coalesced-4",
            _ => "coalesced-5",
        });
    }
    if token {
        labels.push("token");
    }
    if edge_cid {
        labels.push("cid-len-0-or-20");
    }
    for p in &c.pkts {
        if !matches!(p.kind, PktKind::Retry | PktKind::VersionNegotiation) {
            labels.push(match p.pn_len {
                1 => "pn-1",
                2 => "pn-2",
                3 => "pn-3",
                _ => "pn-4",
            });
        }
    }
    labels.sort_unstable();
    labels.dedup();
    pass(labels, coalesced || token || edge_cid, json!({"packets": c.pkts.iter().map(|p| format!("{:?}", p.kind)).collect::<Vec<_>>(), "bytes": dgram.len()}))
}

// ---------------------------------------------------------------------------------------------
// e. transport parameters
// ---------------------------------------------------------------------------------------------

#[derive(Debug, Clone, PartialEq, Eq, Serialize, Deserialize)]
pub struct PrefAddrSpec {
    pub v4: Option<([u8; 4], u16)>,
    pub v6: Option<([u8; 16], u16)>,
    pub cid: Vec<u8>,
    pub reset_token: [u8; 16],
}

/// The eleven integer parameters in quinn's table order, then everything else
#[derive(Debug, Clone, PartialEq, Eq, Serialize, Deserialize)]
pub struct TpSpec {
    pub max_idle_timeout: u64,
    pub max_udp_payload_size: u64,
    pub initial_max_data: u64,
    pub initial_max_stream_data_bidi_local: u64,
    pub initial_max_stream_data_bidi_remote: u64,
    pub initial_max_stream_data_uni: u64,
    pub initial_max_streams_bidi: u64,
    pub initial_max_streams_uni: u64,
    pub ack_delay_exponent: u64,
    pub max_ack_delay: u64,
    pub active_connection_id_limit: u64,
    pub disable_active_migration: bool,
    pub max_datagram_frame_size: Option<u64>,
    pub initial_src_cid: Option<Vec<u8>>,
    pub grease_quic_bit: bool,
    pub min_ack_delay: Option<u64>,
    pub original_dst_cid: Option<Vec<u8>>,
    pub retry_src_cid: Option<Vec<u8>>,
    pub stateless_reset_token: Option<[u8; 16]>,
    pub preferred_address: Option<PrefAddrSpec>,
    pub grease: Option<(u64, Vec<u8>)>,
    pub write_order: Option<Vec<u8>>,
}

#[derive(Debug, Clone, Serialize, Deserialize)]
pub struct TpCase {
    pub tp: TpSpec,
    /// The side that *reads* the parameters (a client reads what a server wrote)
    pub reader_is_server: bool,
    /// Integer-valued parameters written by the reference encoder use this many bytes when that
    /// is at least the minimal length (0 = minimal)
    pub ref_int_len: u8,
}

impl TpSpec {
    fn to_v(&self) -> qc::VTransportParams {
        qc::VTransportParams {
            max_idle_timeout: self.max_idle_timeout,
            max_udp_payload_size: self.max_udp_payload_size,
            initial_max_data: self.initial_max_data,
            initial_max_stream_data_bidi_local: self.initial_max_stream_data_bidi_local,
            initial_max_stream_data_bidi_remote: self.initial_max_stream_data_bidi_remote,
            initial_max_stream_data_uni: self.initial_max_stream_data_uni,
            initial_max_streams_bidi: self.initial_max_streams_bidi,
            initial_max_streams_uni: self.initial_max_streams_uni,
            ack_delay_exponent: self.ack_delay_exponent,
            max_ack_delay: self.max_ack_delay,
            active_connection_id_limit: self.active_connection_id_limit,
            disable_active_migration: self.disable_active_migration,
            max_datagram_frame_size: self.max_datagram_frame_size,
            initial_src_cid: self.initial_src_cid.clone(),
            grease_quic_bit: self.grease_quic_bit,
            min_ack_delay: self.min_ack_delay,
            original_dst_cid: self.original_dst_cid.clone(),
            retry_src_cid: self.retry_src_cid.clone(),
            stateless_reset_token: self.stateless_reset_token,
            preferred_address: self.preferred_address.as_ref().map(|p| qc::VPreferredAddress {
                address_v4: p.v4.map(|(ip, port)| SocketAddrV4::new(Ipv4Addr::from(ip), port)),
                address_v6: p.v6.map(|(ip, port)| SocketAddrV6::new(Ipv6Addr::from(ip), port, 0, 0)),
                connection_id: p.cid.clone(),
                stateless_reset_token: p.reset_token,
            }),
            grease: self.grease.clone(),
            write_order: self.write_order.clone(),
        }
    }
    fn from_v(v: &qc::VTransportParams) -> Self {
        Self {
            max_idle_timeout: v.max_idle_timeout,
            max_udp_payload_size: v.max_udp_payload_size,
            initial_max_data: v.initial_max_data,
            initial_max_stream_data_bidi_local: v.initial_max_stream_data_bidi_local,
            initial_max_stream_data_bidi_remote: v.initial_max_stream_data_bidi_remote,
            initial_max_stream_data_uni: v.initial_max_stream_data_uni,
            initial_max_streams_bidi: v.initial_max_streams_bidi,
            initial_max_streams_uni: v.initial_max_streams_uni,
            ack_delay_exponent: v.ack_delay_exponent,
            max_ack_delay: v.max_ack_delay,
            active_connection_id_limit: v.active_connection_id_limit,
            disable_active_migration: v.disable_active_migration,
            max_datagram_frame_size: v.max_datagram_frame_size,
            initial_src_cid: v.initial_src_cid.clone(),
            grease_quic_bit: v.grease_quic_bit,
            min_ack_delay: v.min_ack_delay,
            original_dst_cid: v.original_dst_cid.clone(),
            retry_src_cid: v.retry_src_cid.clone(),
            stateless_reset_token: v.stateless_reset_token,
            preferred_address: v.preferred_address.as_ref().map(|p| PrefAddrSpec {
                v4: p.address_v4.map(|a| (a.ip().octets(), a.port())),
                v6: p.address_v6.map(|a| (a.ip().octets(), a.port())),
                cid: p.connection_id.clone(),
                reset_token: p.stateless_reset_token,
            }),
            grease: v.grease.clone(),
            write_order: v.write_order.clone(),
        }
    }
    /// Integer parameters as (id, value, protocol default)
    fn ints(&self) -> [(u64, u64, u64); 11] {
        [
            (0x01, self.max_idle_timeout, 0),
            (0x03, self.max_udp_payload_size, 65_527),
            (0x04, self.initial_max_data, 0),
            (0x05, self.initial_max_stream_data_bidi_local, 0),
            (0x06, self.initial_max_stream_data_bidi_remote, 0),
            (0x07, self.initial_max_stream_data_uni, 0),
            (0x08, self.initial_max_streams_bidi, 0),
            (0x09, self.initial_max_streams_uni, 0),
            (0x0a, self.ack_delay_exponent, 3),
            (0x0b, self.max_ack_delay, 25),
            (0x0e, self.active_connection_id_limit, 2),
        ]
    }
    fn has_server_only(&self) -> bool {
        self.original_dst_cid.is_some() || self.retry_src_cid.is_some() || self.stateless_reset_token.is_some() || self.preferred_address.is_some()
    }
    fn optional_fields(&self) -> usize {
        self.ints().iter().filter(|(_, v, d)| v != d).count()
            + self.disable_active_migration as usize
            + self.max_datagram_frame_size.is_some() as usize
            + self.initial_src_cid.is_some() as usize
            + self.grease_quic_bit as usize
            + self.min_ack_delay.is_some() as usize
            + self.original_dst_cid.is_some() as usize
            + self.retry_src_cid.is_some() as usize
            + self.stateless_reset_token.is_some() as usize
            + self.preferred_address.is_some() as usize
    }
    /// RFC 9000 section 18.2 (+ RFC 9221, RFC 9287, draft-ietf-quic-ack-frequency) validity of
    /// received parameters, written independently of quinn. `None` = the documents leave it open.
    fn valid_for_reader(&self, reader_is_server: bool) -> Option<bool> {
        let mut ok = self.ack_delay_exponent <= 20
            && self.max_ack_delay < 1 << 14
            && self.active_connection_id_limit >= 2
            && self.max_udp_payload_size >= 1200
            && self.initial_max_streams_bidi <= 1 << 60
            && self.initial_max_streams_uni <= 1 << 60;
        if let Some(m) = self.min_ack_delay {
            ok &= m <= self.max_ack_delay.saturating_mul(1000);
        }
        if reader_is_server {
            ok &= !self.has_server_only();
        }
        if let Some(p) = &self.preferred_address {
            ok &= !p.cid.is_empty();
            if p.v4.is_none() && p.v6.is_none() && ok {
                return None;
            }
        }
        Some(ok)
    }
}

fn arb_int_param(default: u64, limit_lo: u64, limit_hi: u64) -> impl Strategy<Value = u64> {
    // default (= not sent), values at the protocol limits, boundary-biased others
    prop_oneof![
        30 => Just(default),
        20 => prop::sample::select(vec![limit_lo, limit_lo + 1, limit_hi, limit_hi.saturating_sub(1)]),
        30 => arb_v62().prop_map(move |v| if limit_hi < V62 && v > limit_hi { limit_lo + v % (limit_hi - limit_lo + 1) } else { v.max(limit_lo) }),
        // just outside the legal range, and anything
        2 => prop::sample::select(vec![limit_lo.saturating_sub(1), (limit_hi + 1).min(V62)]),
        1 => arb_v62(),
    ]
}

fn arb_pref_addr() -> impl Strategy<Value = PrefAddrSpec> {
    let v4 = prop::option::weighted(0.7, (any::<[u8; 4]>(), any::<u16>())).prop_map(|x| x.filter(|(ip, port)| *ip != [0; 4] || *port != 0));
    let v6 = prop::option::weighted(0.7, (any::<[u8; 16]>(), any::<u16>())).prop_map(|x| x.filter(|(ip, port)| *ip != [0; 16] || *port != 0));
    (v4, v6, prop_oneof![30 => arb_cid(1), 1 => Just(vec![])], any::<[u8; 16]>()).prop_map(|(v4, v6, cid, reset_token)| PrefAddrSpec { v4, v6, cid, reset_token })
}

pub fn arb_tp_case() -> impl Strategy<Value = TpCase> {
    let ints = (
        arb_int_param(0, 0, V62),
        arb_int_param(65_527, 1200, V62),
        arb_int_param(0, 0, V62),
        arb_int_param(0, 0, V62),
        arb_int_param(0, 0, V62),
        arb_int_param(0, 0, V62),
        arb_int_param(0, 0, 1 << 60),
        arb_int_param(0, 0, 1 << 60),
        arb_int_param(3, 0, 20),
        arb_int_param(25, 0, (1 << 14) - 1),
        arb_int_param(2, 2, V62),
    );
    let opt = |p: f64| prop::bool::weighted(p);
    let common = (
        opt(0.3),
        prop::option::weighted(0.4, arb_v62()),
        prop::option::weighted(0.6, arb_cid(0)),
        opt(0.3),
        prop::option::weighted(0.4, prop_oneof![2 => 0u64..30_000, 1 => arb_v62()]),
    );
    let server_only = prop_oneof![
        2 => Just((None, None, None, None)),
        3 => (prop::option::weighted(0.6, arb_cid(0)), prop::option::weighted(0.4, arb_cid(0)), prop::option::weighted(0.5, any::<[u8; 16]>()), prop::option::weighted(0.5, arb_pref_addr())),
    ];
    let grease = prop::option::weighted(0.5, (0u64..((1u64 << 62) - 27) / 31, prop::collection::vec(any::<u8>(), 0..=16)).prop_map(|(n, p)| (31 * n + 27, p)));
    let order = prop::option::weighted(0.6, Just((0..qc::TP_ORDER_LEN as u8).collect::<Vec<u8>>()).prop_shuffle());
    (ints, common, server_only, grease, order, any::<bool>(), prop_oneof![3 => Just(0u8), 1 => prop::sample::select(vec![1u8, 2, 4, 8])]).prop_map(
        |(i, (dam, mdfs, iscid, gqb, mad), (odcid, rscid, srt, pa), grease, write_order, reader_is_server, ref_int_len)| {
            let mut tp = TpSpec {
                max_idle_timeout: i.0,
                max_udp_payload_size: i.1,
                initial_max_data: i.2,
                initial_max_stream_data_bidi_local: i.3,
                initial_max_stream_data_bidi_remote: i.4,
                initial_max_stream_data_uni: i.5,
                initial_max_streams_bidi: i.6,
                initial_max_streams_uni: i.7,
                ack_delay_exponent: i.8,
                max_ack_delay: i.9,
                active_connection_id_limit: i.10,
                disable_active_migration: dam,
                max_datagram_frame_size: mdfs,
                initial_src_cid: iscid,
                grease_quic_bit: gqb,
                min_ack_delay: mad,
                original_dst_cid: odcid,
                retry_src_cid: rscid,
                stateless_reset_token: srt,
                preferred_address: pa,
                grease,
                write_order,
            };
            // mostly keep min_ack_delay consistent with max_ack_delay so that the case is accepted
            if let Some(m) = tp.min_ack_delay {
                if m > tp.max_ack_delay.saturating_mul(1000) && m % 16 != 0 {
                    tp.min_ack_delay = Some(m % (tp.max_ack_delay.saturating_mul(1000) + 1));
                }
            }
            // a server (reading client parameters) sees server-only parameters only sometimes
            let reader_is_server = reader_is_server && (!tp.has_server_only() || tp.initial_max_data % 16 == 1);
            TpCase { tp, reader_is_server, ref_int_len }
        },
    )
}

fn tp_well_formed(t: &TpSpec) -> bool {
    let cid_ok = |c: &Option<Vec<u8>>| c.as_ref().map_or(true, |c| c.len() <= 20);
    t.ints().iter().all(|(_, v, _)| *v <= V62)
        && t.max_datagram_frame_size.map_or(true, |v| v <= V62)
        && t.min_ack_delay.map_or(true, |v| v <= V62)
        && cid_ok(&t.initial_src_cid)
        && cid_ok(&t.original_dst_cid)
        && cid_ok(&t.retry_src_cid)
        && t.preferred_address.as_ref().map_or(true, |p| p.cid.len() <= 20 && p.v4 != Some(([0; 4], 0)) && p.v6 != Some(([0; 16], 0)))
        && t.grease.as_ref().map_or(true, |(id, p)| *id <= V62 && *id % 31 == 27 && p.len() <= 16)
        && t.write_order.as_ref().map_or(true, |o| {
            let mut s = o.clone();
            s.sort_unstable();
            s == (0..qc::TP_ORDER_LEN as u8).collect::<Vec<u8>>()
        })
}

fn side(reader_is_server: bool) -> Side {
    if reader_is_server {
        Side::Server
    } else {
        Side::Client
    }
}

fn tp_read(reader_is_server: bool, bytes: &[u8]) -> Result<Result<(TpSpec, usize), String>, CaseOut> {
    guarded("TransportParameters::read", bytes, || {
        let mut r = bytes;
        match TransportParameters::read(side(reader_is_server), &mut r) {
            Ok(p) => Ok((TpSpec::from_v(&qc::tp_mirror(&p)), bytes.len() - r.len())),
            Err(e) => Err(format!("{e:?}")),
        }
    })
}

pub fn case_tp(c: &TpCase) -> CaseOut {
    if !tp_well_formed(&c.tp) {
        return CaseOut::discard("not an encodable parameter set");
    }
    let t = &c.tp;
    let mut bytes = Vec::new();
    tri!(guarded("TransportParameters::write", &[], || qc::tp_make(&t.to_v()).write(&mut bytes)));
    // what a reader can get back: the reserved parameter is ignored and the order is not a value
    let mut want = t.clone();
    want.grease = None;
    want.write_order = None;

    // ---- the wire image, parameter by parameter, through the reference splitter ----
    let params = match ref_tp_split(&bytes) {
        Ok(p) => p,
        Err(e) => return CaseOut::fail("c10/tparams/reference-rejects-quinn-encoding", format!("{e}\nbytes {}", hex(&bytes))),
    };
    let mut expect_ids: Vec<u64> = Vec::new();
    {
        let ids = qc::tp_supported_ids();
        let identity: Vec<u8> = (0..qc::TP_ORDER_LEN as u8).collect();
        let present = ref_tp_expected(t);
        for idx in t.write_order.as_ref().unwrap_or(&identity) {
            let id = ids[*idx as usize];
            if id == 0x1b {
                if let Some((gid, _)) = &t.grease {
                    expect_ids.push(*gid);
                }
            } else if present.contains_key(&id) {
                expect_ids.push(id);
            }
        }
        let got_ids: Vec<u64> = params.iter().map(|p| p.0).collect();
        ensure!(got_ids == expect_ids, "c10/tparams/written-parameters", "parameters on the wire {got_ids:x?}\nexpected (in write order) {expect_ids:x?}");
        for (id, val) in &params {
            let w = match (&t.grease, present.get(id)) {
                (Some((gid, p)), _) if gid == id => p.clone(),
                (_, Some(w)) => w.clone(),
                _ => unreachable!(),
            };
            ensure!(*val == w, "c10/tparams/written-value", "parameter {id:#x} written as {} want {}", hex(val), hex(&w));
        }
    }

    // ---- quinn reads its own encoding ----
    let verdict = t.valid_for_reader(c.reader_is_server);
    let got = tri!(tp_read(c.reader_is_server, &bytes));
    let mut labels: Vec<&'static str> = vec![if c.reader_is_server { "reader-server" } else { "reader-client" }];
    match (&got, verdict) {
        (Ok((g, used)), Some(true) | None) => {
            ensure!(*used == bytes.len(), "c10/tparams/consumed", "read consumed {used} of {} bytes", bytes.len());
            ensure!(*g == want, "c10/tparams/roundtrip", "read(write(p)) differs\n   got  {g:?}\n   want {want:?}\nbytes {}", hex(&bytes));
            labels.push("accepted");
        }
        (Err(_), Some(false) | None) => labels.push("rejected-illegal-value"),
        (Ok(_), Some(false)) => return CaseOut::fail("c10/tparams/illegal-accepted", format!("parameters that RFC 9000 18.2 forbids were accepted by a {:?} reader: {t:?}", side(c.reader_is_server))),
        (Err(e), Some(true)) => return CaseOut::fail("c10/tparams/quinn-rejects-own-encoding", format!("{e} from a {:?} reader for legal parameters {t:?}\nbytes {}", side(c.reader_is_server), hex(&bytes))),
    }

    // ---- reference encoder -> quinn ----
    let rbytes = ref_tp_encode(t, 0);
    let got2 = tri!(tp_read(c.reader_is_server, &rbytes));
    match (&got2, verdict) {
        (Ok((g, _)), Some(true) | None) => ensure!(*g == want, "c10/tparams/quinn-decodes-reference-differently", "got {g:?}\nwant {want:?}\nbytes {}", hex(&rbytes)),
        (Err(_), Some(false) | None) => {}
        (Ok(_), Some(false)) => return CaseOut::fail("c10/tparams/illegal-accepted", format!("(reference encoding) {t:?}")),
        (Err(e), Some(true)) => return CaseOut::fail("c10/tparams/quinn-rejects-reference-encoding", format!("{e}\nbytes {}", hex(&rbytes))),
    }
    // ---- preferred_address on its own ----
    if let Some(p) = &t.preferred_address {
        let v = t.to_v().preferred_address.unwrap();
        let mut b = Vec::new();
        let announced = qc::preferred_address_write(&v, &mut b) as usize;
        ensure!(announced == b.len() && b.len() == 41 + p.cid.len(), "c10/tparams/preferred-address-size", "wire_size() {announced}, wrote {}, layout needs {}", b.len(), 41 + p.cid.len());
        b.extend_from_slice(&[1, 2, 3]);
        match tri!(guarded("PreferredAddress::read", &b, || qc::preferred_address_read(&b))) {
            Ok((g, used)) => ensure!(g == v && used == announced, "c10/tparams/preferred-address-roundtrip", "got {g:?} using {used} bytes, want {v:?} using {announced}"),
            Err(_) => ensure!(p.v4.is_none() && p.v6.is_none(), "c10/tparams/preferred-address-roundtrip", "read refused {v:?}"),
        }
        labels.push("preferred-address");
    }
    if t.has_server_only() {
        labels.push("server-only-fields");
    }
    if t.grease.is_some() {
        labels.push("grease");
    }
    if t.write_order.is_some() {
        labels.push("shuffled-order");
    }
    if t.min_ack_delay.is_some() {
        labels.push("min-ack-delay");
    }
    // RFC 9000 section 16: integers need not use the shortest encoding
    if c.ref_int_len != 0 && verdict == Some(true) {
        let nb = ref_tp_encode(t, c.ref_int_len as usize);
        if nb != rbytes {
            labels.push("non-minimal-integers");
            match tri!(tp_read(c.reader_is_server, &nb)) {
                Ok((g, _)) => ensure!(g == want, "c10/tparams/quinn-decodes-reference-differently", "(non-minimal integers) got {g:?}\nwant {want:?}\nbytes {}", hex(&nb)),
                Err(_e) => {
                    // Observation, not a violation of C10 as stated (the decoder returns an error, and
                    // the library itself never produces this encoding): quinn insists on the shortest
                    // varint encoding for integer parameter values although RFC 9000 section 16
                    // allows any length. Recorded in DESIGN.md.
                    labels.push("observation:non-minimal-integer-parameter-refused");
                }
            }
        }
    }

    let n = t.optional_fields();
    pass(labels, n >= 1 && got.is_ok(), json!({"optional_fields": n, "bytes": bytes.len(), "accepted": got.is_ok()}))
}

// ---- reference transport-parameter codec (RFC 9000 section 18, RFC 9221 3, RFC 9287 3,
// draft-ietf-quic-ack-frequency 3), independent of quinn ----

const TP_INT_IDS: [u64; 11] = [0x01, 0x03, 0x04, 0x05, 0x06, 0x07, 0x08, 0x09, 0x0a, 0x0b, 0x0e];
const TP_MIN_ACK_DELAY: u64 = 0xff04_de1b;
const TP_GREASE_QUIC_BIT: u64 = 0x2ab2;
const TP_MAX_DATAGRAM: u64 = 0x20;

fn ref_tp_split(bytes: &[u8]) -> Result<Vec<(u64, Vec<u8>)>, String> {
    let mut r = wire::Rd::new(bytes);
    let mut out = Vec::new();
    while r.remaining() > 0 {
        let id = r.var().map_err(|_| "truncated parameter id".to_string())?;
        let val = r.var_bytes().map_err(|_| format!("parameter {id:#x}: length exceeds the buffer"))?;
        out.push((id, val.to_vec()));
    }
    Ok(out)
}

fn var_bytes_min(v: u64) -> Vec<u8> {
    let mut b = Vec::new();
    wire::put_var(&mut b, v);
    b
}

fn pref_addr_bytes(p: &PrefAddrSpec) -> Vec<u8> {
    let mut b = Vec::new();
    let (ip4, port4) = p.v4.unwrap_or(([0; 4], 0));
    let (ip6, port6) = p.v6.unwrap_or(([0; 16], 0));
    b.extend_from_slice(&ip4);
    b.extend_from_slice(&port4.to_be_bytes());
    b.extend_from_slice(&ip6);
    b.extend_from_slice(&port6.to_be_bytes());
    b.push(p.cid.len() as u8);
    b.extend_from_slice(&p.cid);
    b.extend_from_slice(&p.reset_token);
    b
}

/// Parameters a sender of `t` puts on the wire (defaults are omitted), with minimal integers
fn ref_tp_expected(t: &TpSpec) -> BTreeMap<u64, Vec<u8>> {
    let mut m = BTreeMap::new();
    for (id, v, d) in t.ints() {
        if v != d {
            m.insert(id, var_bytes_min(v));
        }
    }
    if let Some(c) = &t.original_dst_cid {
        m.insert(0x00, c.clone());
    }
    if let Some(tok) = &t.stateless_reset_token {
        m.insert(0x02, tok.to_vec());
    }
    if t.disable_active_migration {
        m.insert(0x0c, vec![]);
    }
    if let Some(p) = &t.preferred_address {
        m.insert(0x0d, pref_addr_bytes(p));
    }
    if let Some(c) = &t.initial_src_cid {
        m.insert(0x0f, c.clone());
    }
    if let Some(c) = &t.retry_src_cid {
        m.insert(0x10, c.clone());
    }
    if let Some(v) = t.max_datagram_frame_size {
        m.insert(TP_MAX_DATAGRAM, var_bytes_min(v));
    }
    if t.grease_quic_bit {
        m.insert(TP_GREASE_QUIC_BIT, vec![]);
    }
    if let Some(v) = t.min_ack_delay {
        m.insert(TP_MIN_ACK_DELAY, var_bytes_min(v));
    }
    m
}

/// Reference encoder: ascending id order, an unknown parameter first; integer values on
/// `int_len` bytes where that is legal (0 = shortest)
fn ref_tp_encode(t: &TpSpec, int_len: usize) -> Vec<u8> {
    let mut out = Vec::new();
    // an unknown (reserved) parameter that every reader must skip
    wire::put_var(&mut out, 31 * 7 + 27);
    wire::put_var(&mut out, 3);
    out.extend_from_slice(&[0xde, 0xad, 0x42]);
    let is_int = |id: u64| TP_INT_IDS.contains(&id) || id == TP_MAX_DATAGRAM || id == TP_MIN_ACK_DELAY;
    for (id, val) in ref_tp_expected(t) {
        let val = if is_int(id) && int_len > val.len() {
            let v = wire::Rd::new(&val).var().unwrap();
            let mut b = Vec::new();
            wire::put_var_len(&mut b, v, int_len);
            b
        } else {
            val
        };
        wire::put_var(&mut out, id);
        wire::put_var(&mut out, val.len() as u64);
        out.extend_from_slice(&val);
    }
    out
}

#[derive(Debug, PartialEq)]
enum RefTp {
    Ok(Box<TpSpec>),
    /// The encoding or a value violates a MUST of the documents
    Reject(String),
    /// The documents leave the treatment open (duplicate parameters: "SHOULD" be an error)
    Open(String),
}

fn ref_tp_decode(bytes: &[u8], reader_is_server: bool) -> RefTp {
    // parameters are judged in stream order, so that the first violation is the one reported
    let mut params: Vec<(u64, Vec<u8>)> = Vec::new();
    let mut split_error = None;
    {
        let mut r = wire::Rd::new(bytes);
        while r.remaining() > 0 {
            let Ok(id) = r.var() else {
                split_error = Some("truncated parameter id".to_string());
                break;
            };
            match r.var_bytes() {
                Ok(v) => params.push((id, v.to_vec())),
                Err(_) => {
                    split_error = Some(format!("parameter {id:#x}: length exceeds the buffer"));
                    break;
                }
            }
        }
    }
    let mut t = TpSpec::from_v(&qc::tp_default());
    let mut seen: HashSet<u64> = HashSet::new();
    let whole_var = |id: u64, val: &[u8]| -> Result<u64, String> {
        let mut r = wire::Rd::new(val);
        match r.var() {
            Ok(v) if r.remaining() == 0 => Ok(v),
            Ok(_) => Err(format!("parameter {id:#x}: integer shorter than the parameter length")),
            Err(_) => Err(format!("parameter {id:#x}: integer longer than the parameter length")),
        }
    };
    let mut dup = None;
    for (id, val) in &params {
        let known = TP_INT_IDS.contains(id) || [0x00, 0x02, 0x0c, 0x0d, 0x0f, 0x10, TP_MAX_DATAGRAM, TP_GREASE_QUIC_BIT, TP_MIN_ACK_DELAY].contains(id);
        if !known {
            continue;
        }
        if !seen.insert(*id) {
            dup = Some(*id);
            continue;
        }
        let r: Result<(), String> = (|| {
            match *id {
                0x00 | 0x0f | 0x10 => {
                    if val.len() > 20 {
                        return Err(format!("parameter {id:#x}: connection id of {} bytes", val.len()));
                    }
                    let slot = match *id {
                        0x00 => &mut t.original_dst_cid,
                        0x0f => &mut t.initial_src_cid,
                        _ => &mut t.retry_src_cid,
                    };
                    *slot = Some(val.clone());
                }
                0x02 => t.stateless_reset_token = Some(val[..].try_into().map_err(|_| "stateless_reset_token is not 16 bytes".to_string())?),
                0x0c | TP_GREASE_QUIC_BIT => {
                    if !val.is_empty() {
                        return Err(format!("parameter {id:#x} must be empty"));
                    }
                    if *id == 0x0c {
                        t.disable_active_migration = true
                    } else {
                        t.grease_quic_bit = true
                    }
                }
                0x0d => {
                    if val.len() < 41 || val.len() != 41 + val[24] as usize || val[24] > 20 {
                        return Err(format!("preferred_address of {} bytes does not match its layout", val.len()));
                    }
                    let n = val[24] as usize;
                    let v4 = (val[0..4].try_into().unwrap(), u16::from_be_bytes([val[4], val[5]]));
                    let v6 = (val[6..22].try_into().unwrap(), u16::from_be_bytes([val[22], val[23]]));
                    t.preferred_address = Some(PrefAddrSpec {
                        v4: Some(v4).filter(|x| *x != ([0; 4], 0)),
                        v6: Some(v6).filter(|x| *x != ([0; 16], 0)),
                        cid: val[25..25 + n].to_vec(),
                        reset_token: val[25 + n..].try_into().unwrap(),
                    });
                }
                TP_MAX_DATAGRAM => t.max_datagram_frame_size = Some(whole_var(*id, val)?),
                TP_MIN_ACK_DELAY => t.min_ack_delay = Some(whole_var(*id, val)?),
                _ => {
                    let v = whole_var(*id, val)?;
                    match *id {
                        0x01 => t.max_idle_timeout = v,
                        0x03 => t.max_udp_payload_size = v,
                        0x04 => t.initial_max_data = v,
                        0x05 => t.initial_max_stream_data_bidi_local = v,
                        0x06 => t.initial_max_stream_data_bidi_remote = v,
                        0x07 => t.initial_max_stream_data_uni = v,
                        0x08 => t.initial_max_streams_bidi = v,
                        0x09 => t.initial_max_streams_uni = v,
                        0x0a => t.ack_delay_exponent = v,
                        0x0b => t.max_ack_delay = v,
                        _ => t.active_connection_id_limit = v,
                    }
                }
            }
            Ok(())
        })();
        if let Err(e) = r {
            return RefTp::Reject(e);
        }
    }
    if let Some(e) = split_error {
        return RefTp::Reject(e);
    }
    if let Some(id) = dup {
        return RefTp::Open(format!("parameter {id:#x} appears twice"));
    }
    match t.valid_for_reader(reader_is_server) {
        Some(true) => RefTp::Ok(Box::new(t)),
        Some(false) => RefTp::Reject("illegal value".into()),
        None => RefTp::Open("preferred_address without any address".into()),
    }
}

// ---------------------------------------------------------------------------------------------
// f. address-validation tokens and hashed connection IDs
// ---------------------------------------------------------------------------------------------

#[derive(Debug, Clone, Copy, PartialEq, Eq, Serialize, Deserialize)]
pub enum IpSpec {
    V4([u8; 4]),
    V6([u8; 16]),
}

impl IpSpec {
    fn ip(self) -> IpAddr {
        match self {
            IpSpec::V4(b) => IpAddr::V4(Ipv4Addr::from(b)),
            IpSpec::V6(b) => IpAddr::V6(Ipv6Addr::from(b)),
        }
    }
}

#[derive(Debug, Clone, Serialize, Deserialize)]
pub struct TokenCase {
    /// Retry token (address + original destination CID) or NEW_TOKEN validation token (IP)
    pub retry: bool,
    pub ip: IpSpec,
    pub port: u16,
    pub odcid: Vec<u8>,
    pub issued_secs: u64,
    pub subsec_nanos: u32,
    pub nonce: (u64, u64),
    pub key: u64,
    /// Use ring's HKDF/AES-256-GCM (quinn's default token key) instead of the SimCrypto key
    pub real_aead: bool,
}

pub fn arb_token_case() -> impl Strategy<Value = TokenCase> {
    let ip = prop_oneof![
        any::<[u8; 4]>().prop_map(IpSpec::V4),
        any::<[u8; 16]>().prop_map(IpSpec::V6),
        Just(IpSpec::V4([0; 4])),
        Just(IpSpec::V6([0; 16])),
        Just(IpSpec::V6([0xff; 16])),
        // structured IPv6 classes: IPv4-mapped (::ffff:a.b.c.d), IPv4-compatible, loopback, link-local
        any::<[u8; 4]>().prop_map(|a| IpSpec::V6([0, 0, 0, 0, 0, 0, 0, 0, 0, 0, 0xff, 0xff, a[0], a[1], a[2], a[3]])),
        any::<[u8; 4]>().prop_map(|a| IpSpec::V6([0, 0, 0, 0, 0, 0, 0, 0, 0, 0, 0, 0, a[0], a[1], a[2], a[3]])),
        Just(IpSpec::V6([0, 0, 0, 0, 0, 0, 0, 0, 0, 0, 0, 0, 0, 0, 0, 1])),
        any::<[u8; 8]>().prop_map(|a| IpSpec::V6([0xfe, 0x80, 0, 0, 0, 0, 0, 0, a[0], a[1], a[2], a[3], a[4], a[5], a[6], a[7]])),
    ];
    let secs = prop_oneof![3 => 1_600_000_000u64..2_000_000_000, 1 => 0u64..3, 1 => prop::sample::select(vec![u32::MAX as u64, u32::MAX as u64 + 1, 1 << 40, (1 << 33) - 1])];
    (any::<bool>(), ip, any::<u16>(), arb_cid(0), secs, prop_oneof![Just(0u32), 0u32..1_000_000_000], any::<(u64, u64)>(), any::<u64>(), prop::bool::weighted(0.3))
        .prop_map(|(retry, ip, port, odcid, issued_secs, subsec_nanos, nonce, key, real_aead)| TokenCase { retry, ip, port, odcid, issued_secs, subsec_nanos, nonce, key, real_aead })
}

fn token_key(key: u64, real: bool) -> Box<dyn HandshakeTokenKey> {
    if real {
        let mut master = [0u8; 64];
        for (i, c) in master.chunks_mut(8).enumerate() {
            c.copy_from_slice(&mix(key, i as u64).to_le_bytes());
        }
        Box::new(ring::hkdf::Salt::new(ring::hkdf::HKDF_SHA256, &[]).extract(&master))
    } else {
        Box::new(SimTokenKey(key))
    }
}

/// Seal `plaintext` the way `Token::encode` does, for the SimCrypto token key
fn sim_seal(key: u64, nonce: u128, plaintext: &[u8]) -> Vec<u8> {
    let mut buf = plaintext.to_vec();
    SimTokenKey(key).aead_from_hkdf(&nonce.to_le_bytes()).seal(&mut buf, &[]).unwrap();
    buf.extend_from_slice(&nonce.to_le_bytes());
    buf
}

pub fn case_token(c: &TokenCase) -> CaseOut {
    if c.odcid.len() > 20 || c.subsec_nanos >= 1_000_000_000 || c.issued_secs > 1 << 50 {
        return CaseOut::discard("outside the token domain");
    }
    let key = token_key(c.key, c.real_aead);
    let nonce = ((c.nonce.0 as u128) << 64) | c.nonce.1 as u128;
    let issued = UNIX_EPOCH + Duration::new(c.issued_secs, c.subsec_nanos);
    let payload = if c.retry {
        qc::VTokenPayload::Retry { address: SocketAddr::new(c.ip.ip(), c.port), orig_dst_cid: ConnectionId::new(&c.odcid), issued }
    } else {
        qc::VTokenPayload::Validation { ip: c.ip.ip(), issued }
    };
    // what comes back: whole seconds only (documented in the library's tests)
    let want = match payload {
        qc::VTokenPayload::Retry { address, orig_dst_cid, .. } => qc::VTokenPayload::Retry { address, orig_dst_cid, issued: UNIX_EPOCH + Duration::from_secs(c.issued_secs) },
        qc::VTokenPayload::Validation { ip, .. } => qc::VTokenPayload::Validation { ip, issued: UNIX_EPOCH + Duration::from_secs(c.issued_secs) },
    };
    let tok = tri!(guarded("Token::encode", &[], || qc::token_encode(&*key, nonce, &payload)));
    let plain_len = 1 + if c.retry { 1 + c.odcid.len() + 2 } else { 0 } + 1 + if matches!(c.ip, IpSpec::V4(_)) { 4 } else { 16 } + 8;
    ensure!(tok.len() == plain_len + 16 + 16, "c10/token/length", "token is {} bytes, layout (payload {plain_len} + tag 16 + nonce 16) needs {}", tok.len(), plain_len + 32);
    ensure!(tok[tok.len() - 16..] == nonce.to_le_bytes(), "c10/token/nonce-bytes", "nonce is not the trailing 16 bytes");
    match tri!(guarded("Token::decode", &tok, || qc::token_decode(&*key, &tok))) {
        Some((n, p)) => {
            ensure!(n == nonce, "c10/token/nonce", "decoded nonce {n:#x} want {nonce:#x}");
            ensure!(p == want, "c10/token/roundtrip", "decode(encode(t)) = {p:?}\nwant {want:?}");
        }
        None => return CaseOut::fail("c10/token/own-token-rejected", format!("decode refused the token just encoded: {payload:?}\nbytes {}", hex(&tok))),
    }
    // a different key never opens it
    let other = token_key(c.key ^ 0x5555, c.real_aead);
    ensure!(tri!(guarded("Token::decode", &tok, || qc::token_decode(&*other, &tok))).is_none(), "c10/token/wrong-key-accepted", "token opened with a different key");
    // every single-bit flip, every truncation, one byte more
    let mut flipped = 0u32;
    for bit in 0..tok.len() * 8 {
        let mut m = tok.clone();
        m[bit / 8] ^= 1 << (bit % 8);
        if let Some(x) = tri!(guarded("Token::decode", &m, || qc::token_decode(&*key, &m))) {
            return CaseOut::fail("c10/token/bitflip-accepted", format!("token with bit {bit} flipped decodes to {x:?}\noriginal {}\nmutated  {}", hex(&tok), hex(&m)));
        }
        flipped += 1;
    }
    for cut in 0..tok.len() {
        if let Some(x) = tri!(guarded("Token::decode", &tok[..cut], || qc::token_decode(&*key, &tok[..cut]))) {
            return CaseOut::fail("c10/token/truncated-accepted", format!("first {cut} bytes of the token decode to {x:?}"));
        }
    }
    for extra in [0u8, 0xff] {
        for front in [false, true] {
            let mut m = tok.clone();
            if front {
                m.insert(0, extra)
            } else {
                m.push(extra)
            }
            ensure!(tri!(guarded("Token::decode", &m, || qc::token_decode(&*key, &m))).is_none(), "c10/token/extended-accepted", "token with an extra byte accepted");
        }
    }
    let mut labels = vec![if c.retry { "retry" } else { "validation" }, if c.real_aead { "aes-gcm" } else { "sim-key" }, if matches!(c.ip, IpSpec::V4(_)) { "ipv4" } else { "ipv6" }];
    // correctly sealed but malformed plaintexts (possible with the SimCrypto key, whose seal the
    // harness can compute): trailing byte, missing last byte, unknown type, unknown address family
    if !c.real_aead {
        let plain = &tok[..plain_len];
        ensure!(sim_seal(c.key, nonce, plain) == tok, "c10/harness/sim-seal", "harness seal differs from Token::encode (harness bug)");
        let mut variants: Vec<(&'static str, Vec<u8>)> = vec![
            ("trailing-byte", [plain, &[0]].concat()),
            ("trailing-bytes", [plain, &[1, 2, 3, 4, 5, 6, 7, 8]].concat()),
            ("missing-last-byte", plain[..plain.len() - 1].to_vec()),
            ("empty", vec![]),
        ];
        let mut t = plain.to_vec();
        t[0] = 2;
        variants.push(("unknown-type", t));
        let mut t = plain.to_vec();
        t[1] = 2;
        variants.push(("unknown-address-family", t));
        if c.retry {
            // connection id length byte beyond the 20-byte maximum / beyond the buffer
            let off = 2 + if matches!(c.ip, IpSpec::V4(_)) { 4 } else { 16 } + 2;
            let mut t = plain.to_vec();
            t[off] = 21;
            variants.push(("cid-too-long", t));
            let mut t = plain.to_vec();
            t[off] = 20;
            if c.odcid.len() < 12 {
                variants.push(("cid-beyond-buffer", t));
            }
        }
        for (what, pt) in variants {
            let forged = sim_seal(c.key, nonce, &pt);
            if let Some(x) = tri!(guarded("Token::decode", &forged, || qc::token_decode(&*key, &forged))) {
                return CaseOut::fail(format!("c10/token/malformed-plaintext-accepted/{what}"), format!("authentic token with {what} plaintext {} decodes to {x:?}", hex(&pt)));
            }
        }
        labels.push("forged-plaintexts");
    }
    let boundary = c.odcid.is_empty() || c.odcid.len() == 20 || c.issued_secs < 3 || c.issued_secs >= u32::MAX as u64;
    pass(labels, c.retry || boundary, json!({"token_len": tok.len(), "bit_flips": flipped}))
}

#[derive(Debug, Clone, Serialize, Deserialize)]
pub struct CidCase {
    pub key: u64,
    pub cid: Vec<u8>,
}

/// `validate` on an arbitrary connection ID must answer, never panic
pub fn case_cid_any(c: &CidCase) -> CaseOut {
    if c.cid.len() > 20 {
        return CaseOut::discard("longer than a connection id");
    }
    let g = HashedConnectionIdGenerator::from_key(c.key);
    let r = tri!(guarded("HashedConnectionIdGenerator::validate", &c.cid, || g.validate(ConnectionId::new(&c.cid)).is_ok()));
    // anything not 8 bytes long cannot have been generated
    ensure!(!(r && c.cid.len() != g.cid_len()), "c10/cid/foreign-length-validates", "a {}-byte connection id validates", c.cid.len());
    pass(vec![if r { "validates" } else { "rejected" }], c.cid.len() != 8, json!({"len": c.cid.len()}))
}

fn run_cid(report: &Report) {
    let seed = report.opts.seed;
    // arbitrary CIDs of every length 0..=20
    let n_any = report.cases(21 * 5_000, 21 * 200_000);
    let mk = |i: u64| {
        let len = (i % 21) as usize;
        CidCase { key: mix(seed, i / 21 / 16), cid: (0..len).map(|k| mix(mix(seed, i), k as u64) as u8).collect() }
    };
    par_enum(
        report,
        "c10f_cid_any",
        "enumeration: HashedConnectionIdGenerator::validate on seeded connection IDs of every length 0..=20: answers without panicking; an ID whose length differs from cid_len() never validates; non-trivial = length != 8",
        false,
        n_any,
        |i| json!(mk(i)),
        |i, acc| {
            let c = mk(i);
            match case_cid_any(&c).verdict {
                Verdict::Fail { sig, msg } => Err((sig, msg)),
                _ => {
                    if c.cid.len() != 8 {
                        acc.nontrivial += 1;
                    }
                    Ok(())
                }
            }
        },
    );
    // generated CIDs: validate, then every single-bit flip
    let n_gen = report.cases(500_000, 20_000_000);
    let nonce_collisions = AtomicU64::new(0);
    let ok = par_enum(
        report,
        "c10f_cid",
        "enumeration: seeded generator keys x CIDs drawn by HashedConnectionIdGenerator::generate_cid (its nonce comes from the library's own RNG): 8 bytes long, validates under its key, every flip of one of the 40 signature bits is rejected (deterministic), flips of the 24 nonce bits are rejected up to the 2^-40 hash collision rate (counted), a different key rejects it up to the same rate; evaluations count every validate call; non-trivial = every generated CID (it exercises both generate and validate)",
        false,
        n_gen,
        |i| json!({"key": mix(seed, 0xc1d ^ (i / 64)), "note": "CID bytes come from the library RNG; the failing CID is in the message"}),
        |i, acc| {
            let key = mix(seed, 0xc1d ^ (i / 64));
            let mut g = HashedConnectionIdGenerator::from_key(key);
            let cid = g.generate_cid();
            let fail = |sig: &str, msg: String| Err((format!("c10/cid/{sig}"), format!("key {key:#x} cid {}: {msg}", hex(&cid))));
            if cid.len() != 8 || g.cid_len() != 8 {
                return fail("length", format!("generated {} bytes, cid_len() {}", cid.len(), g.cid_len()));
            }
            if g.validate(cid).is_err() {
                return fail("generated-cid-rejected", "validate refused a CID this generator produced".into());
            }
            for bit in 0..64 {
                let mut b = cid.to_vec();
                b[bit / 8] ^= 1 << (bit % 8);
                let v = g.validate(ConnectionId::new(&b)).is_ok();
                acc.evals += 1;
                if v && bit >= 24 {
                    return fail("signature-flip-validates", format!("flipping signature bit {bit} still validates: {}", hex(&b)));
                }
                if v {
                    nonce_collisions.fetch_add(1, Ordering::Relaxed);
                }
            }
            if HashedConnectionIdGenerator::from_key(key ^ 1).validate(cid).is_ok() {
                nonce_collisions.fetch_add(1, Ordering::Relaxed);
            }
            acc.evals += 1;
            acc.nontrivial += 1;
            Ok(())
        },
    );
    let col = nonce_collisions.load(Ordering::Relaxed);
    report.note(format!("[c10f_cid] {col} accidental validations among {} nonce-bit flips / foreign-key checks (expected rate 2^-40 each)", n_gen * 25));
    // 25 * n_gen trials at 2^-40: even the thorough tier expects < 0.001 collisions
    if ok && col > 1 && report.wants("c10f_cid") {
        report.fail_direct("c10f_cid", "c10/cid/collision-rate", format!("{col} accidental validations among {} trials; the 40-bit signature allows about {}", n_gen * 25, (n_gen * 25) as f64 / (1u64 << 40) as f64), json!({"collisions": col}));
    }
}

// ---------------------------------------------------------------------------------------------
// g. totality of every decoder
// ---------------------------------------------------------------------------------------------

#[derive(Debug, Clone, Copy, PartialEq, Eq, Serialize, Deserialize)]
pub enum Target {
    VarInt,
    Frames,
    Packet { cid_len: u8, grease: bool },
    Tp { reader_is_server: bool },
    /// Bytes are the token as received
    TokenRaw { key: u64 },
    /// Bytes are a token *plaintext*; the harness seals it with the SimCrypto token key so that
    /// the payload parser behind the AEAD is reached
    TokenSealed { key: u64 },
    Cid,
    PrefAddr,
}

#[derive(Debug, Clone, Copy, PartialEq, Eq, Serialize, Deserialize)]
pub enum Origin {
    Arbitrary,
    Valid,
    BitFlip,
    Truncate,
    ByteSet,
    HeadTamper,
    Insert,
    Delete,
    Splice,
}

impl Origin {
    fn label(self) -> &'static str {
        match self {
            Origin::Arbitrary => "arbitrary-bytes",
            Origin::Valid => "valid-encoding",
            Origin::BitFlip => "mut-bitflip",
            Origin::Truncate => "mut-truncate",
            Origin::ByteSet => "mut-byte-set",
            Origin::HeadTamper => "mut-head-tamper",
            Origin::Insert => "mut-insert",
            Origin::Delete => "mut-delete",
            Origin::Splice => "mut-splice",
        }
    }
}

#[derive(Debug, Clone, Serialize, Deserialize)]
pub struct TotCase {
    pub target: Target,
    pub origin: Origin,
    pub bytes: Vec<u8>,
}

const TAMPER: [u8; 12] = [0x00, 0x01, 0x14, 0x15, 0x3f, 0x40, 0x7f, 0x80, 0xbf, 0xc0, 0xfe, 0xff];

fn arb_mutation(valid: BoxedStrategy<Vec<u8>>) -> impl Strategy<Value = (Origin, Vec<u8>)> {
    (valid, 0u8..16, any::<prop::sample::Index>(), any::<prop::sample::Index>(), prop::sample::select(TAMPER.to_vec()), any::<u8>()).prop_map(|(mut b, kind, at, at2, t, raw)| {
        if b.is_empty() {
            return (Origin::Valid, b);
        }
        let n = b.len();
        let origin = match kind {
            0 => Origin::Valid,
            1..=3 => {
                let bit = at.index(n * 8);
                b[bit / 8] ^= 1 << (bit % 8);
                Origin::BitFlip
            }
            4..=5 => {
                b.truncate(at.index(n));
                Origin::Truncate
            }
            6..=7 => {
                b[at.index(n)] = t;
                Origin::ByteSet
            }
            8..=10 => {
                // length and type fields live at the front of every encoding
                b[at.index(n.min(12))] = if kind == 10 { raw } else { t };
                Origin::HeadTamper
            }
            11..=12 => {
                b.insert(at.index(n + 1), if kind == 11 { t } else { raw });
                Origin::Insert
            }
            13 => {
                b.remove(at.index(n));
                Origin::Delete
            }
            _ => {
                let (i, j) = (at.index(n), at2.index(n));
                let chunk: Vec<u8> = b[i.min(j)..i.max(j)].to_vec();
                let pos = at2.index(n + 1);
                b.splice(pos..pos, chunk);
                Origin::Splice
            }
        };
        b.truncate(4096);
        (origin, b)
    })
}

fn arb_bytes() -> impl Strategy<Value = Vec<u8>> {
    let len = prop_oneof![4 => 0usize..16, 4 => 16usize..96, 2 => 96usize..600, 1 => 600usize..=2048];
    // uniform bytes, or bytes biased to small values / varint tags so that length fields are small
    (len, any::<bool>()).prop_flat_map(|(n, biased)| {
        if biased {
            prop::collection::vec(prop_oneof![3 => 0u8..0x20, 1 => prop::sample::select(TAMPER.to_vec()), 1 => any::<u8>()], n).boxed()
        } else {
            prop::collection::vec(any::<u8>(), n).boxed()
        }
    })
}

fn arb_target() -> impl Strategy<Value = Target> {
    prop_oneof![
        1 => Just(Target::VarInt),
        6 => Just(Target::Frames),
        5 => (prop_oneof![Just(0u8), Just(8u8), 0u8..=20], any::<bool>()).prop_map(|(cid_len, grease)| Target::Packet { cid_len, grease }),
        5 => any::<bool>().prop_map(|reader_is_server| Target::Tp { reader_is_server }),
        1 => (0u64..4).prop_map(|key| Target::TokenRaw { key }),
        3 => (0u64..4).prop_map(|key| Target::TokenSealed { key }),
        1 => Just(Target::Cid),
        1 => Just(Target::PrefAddr),
    ]
}

fn shrink_frame_data(mut f: wire::Frame) -> wire::Frame {
    match &mut f {
        wire::Frame::Stream { data, .. } | wire::Frame::Crypto { data, .. } | wire::Frame::Datagram { data, .. } => data.truncate(200),
        _ => {}
    }
    f
}

/// A valid encoding for the target (built with the reference encoders where one exists)
fn arb_valid(target: Target) -> BoxedStrategy<Vec<u8>> {
    match target {
        Target::VarInt => (arb_v62(), prop::sample::select(vec![1usize, 2, 4, 8])).prop_map(|(v, l)| {
            let mut b = Vec::new();
            wire::put_var_len(&mut b, v, l.max(wire::var_len(v)));
            b
        })
        .boxed(),
        Target::Frames => arb_frames_case().prop_map(|c| wire::encode_frames(&c.frames.into_iter().map(shrink_frame_data).collect::<Vec<_>>())).boxed(),
        Target::Packet { cid_len, .. } => arb_dgram_case()
            .prop_map(move |mut c| {
                let mut out = Vec::new();
                for p in &mut c.pkts {
                    p.body_len = p.body_len.min(200).max(20);
                    if p.kind == PktKind::VersionNegotiation {
                        p.body_len = p.body_len / 4 * 4;
                    }
                    if p.kind == PktKind::Short {
                        p.dcid.resize(cid_len as usize, 0x5c);
                    }
                    qc::packet_encode(&pkt_header(p), &pkt_body(p), &mut out);
                }
                out
            })
            .boxed(),
        Target::Tp { .. } => arb_tp_case()
            .prop_map(|c| {
                if c.ref_int_len == 1 {
                    let mut b = Vec::new();
                    if tp_well_formed(&c.tp) {
                        qc::tp_make(&c.tp.to_v()).write(&mut b);
                    }
                    b
                } else {
                    ref_tp_encode(&c.tp, c.ref_int_len as usize)
                }
            })
            .boxed(),
        Target::TokenRaw { key } => arb_token_case()
            .prop_map(move |c| {
                let nonce = ((c.nonce.0 as u128) << 64) | c.nonce.1 as u128;
                sim_seal(key, nonce, &token_plaintext(&c))
            })
            .boxed(),
        Target::TokenSealed { .. } => arb_token_case().prop_map(|c| token_plaintext(&c)).boxed(),
        Target::Cid => arb_cid(0)
            .prop_map(|c| {
                let mut b = vec![c.len() as u8];
                b.extend_from_slice(&c);
                b.extend_from_slice(&[9, 9]);
                b
            })
            .boxed(),
        Target::PrefAddr => arb_pref_addr().prop_map(|p| pref_addr_bytes(&p)).boxed(),
    }
}

/// Token plaintext layout, written from token.rs's documentation of the format:
/// type, address family, address, [port, cid length, cid], issued (seconds, big endian)
fn token_plaintext(c: &TokenCase) -> Vec<u8> {
    let mut b = vec![if c.retry { 0 } else { 1 }];
    match c.ip {
        IpSpec::V4(a) => {
            b.push(0);
            b.extend_from_slice(&a)
        }
        IpSpec::V6(a) => {
            b.push(1);
            b.extend_from_slice(&a)
        }
    }
    if c.retry {
        b.extend_from_slice(&c.port.to_be_bytes());
        b.push(c.odcid.len() as u8);
        b.extend_from_slice(&c.odcid);
    }
    b.extend_from_slice(&c.issued_secs.to_be_bytes());
    b
}

pub fn arb_tot_case() -> impl Strategy<Value = TotCase> {
    arb_target().prop_flat_map(|target| {
        prop_oneof![
            2 => arb_bytes().prop_map(move |bytes| TotCase { target, origin: Origin::Arbitrary, bytes }),
            5 => arb_mutation(arb_valid(target)).prop_map(move |(origin, bytes)| TotCase { target, origin, bytes }),
        ]
    })
}

/// How far a decoder got: 0 = refused at its first length/type check, 1 = got past it and
/// refused later, 2 = produced a value
type Depth = u8;

fn all_len_opts() -> qc::EncOpts {
    qc::EncOpts { stream_len: true, datagram_len: true, close_max_len: usize::MAX / 2 }
}

fn tot_varint(b: &[u8]) -> Result<Depth, CaseOut> {
    let mut r = b;
    let q = guarded("VarInt::decode", b, || VarInt::decode(&mut r).map(|v| v.into_inner()))?;
    let used = b.len() - r.len();
    let mut rd = wire::Rd::new(b);
    let w = rd.var();
    let fail = |m: String| Err(CaseOut::fail("c10/total/varint", format!("{m}\ninput {}", hex(b))));
    match (q, w) {
        (Ok(v), Ok(x)) => {
            if v != x || used != rd.pos || used > b.len() || used != 1 << (b[0] >> 6) {
                return fail(format!("quinn decodes {v} using {used} bytes, reference {x} using {}", rd.pos));
            }
            let mut e = Vec::new();
            VarInt::from_u64(v).unwrap().encode(&mut e);
            if VarInt::decode(&mut &e[..]).map(|v| v.into_inner()) != Ok(v) {
                return fail(format!("decode(encode(decode(x))) != decode(x) for {v}"));
            }
            Ok(2)
        }
        (Err(_), Err(_)) => Ok(if b.is_empty() { 0 } else { 1 }),
        (q, w) => fail(format!("quinn {q:?} but reference {w:?}")),
    }
}

fn tot_frames(b: &[u8]) -> Result<Depth, CaseOut> {
    let q = guarded("frame::Iter", b, || qc::frames_decode(Bytes::copy_from_slice(b)))?;
    if b.is_empty() {
        return match q.error {
            Some(_) => Ok(0),
            None => Err(CaseOut::fail("c10/total/frames-empty-payload-accepted", "an empty payload must be refused (RFC 9000 12.4)")),
        };
    }
    let w = wire::decode_frames(b);
    match (&q.error, &w) {
        (None, Ok(ws)) => {
            let mut want = Vec::new();
            for f in ws {
                frame_to_v(f, &mut want);
            }
            if q.frames != want {
                return Err(CaseOut::fail("c10/total/frames-differ-from-reference", format!("{}\ninput {}", first_diff(&q.frames, &want), hex(b))));
            }
            // decode . encode . decode = decode
            let mut e = Vec::new();
            guarded("quinn frame encoder (re-encoding decoded frames)", b, || {
                for f in &q.frames {
                    qc::frame_encode(f, all_len_opts(), &mut e);
                }
            })?;
            let again = guarded("frame::Iter", &e, || qc::frames_decode(Bytes::from(e.clone())))?;
            if again.error.is_some() || again.frames != q.frames {
                return Err(CaseOut::fail(
                    "c10/total/frames-reencode",
                    format!("decode(encode(decode(x))) != decode(x): {:?} {}\ninput     {}\nreencoded {}", again.error, first_diff(&again.frames, &q.frames), hex(b), hex(&e)),
                ));
            }
            Ok(2)
        }
        (Some(e), Err(_)) => Ok(if !q.frames.is_empty() || !e.contains("invalid frame ID") { 1 } else { 0 }),
        (qe, we) => Err(CaseOut::fail(
            "c10/total/frames-accept-differs",
            format!("quinn: {} ; reference: {:?}\ninput {}", qe.as_ref().map_or("accepted".to_string(), |e| format!("error {e} after {} frames", q.frames.len())), we.as_ref().map(|f| f.len()), hex(b)),
        )),
    }
}

fn tot_packet(b: &[u8], cid_len: usize, grease: bool) -> Result<Depth, CaseOut> {
    // the public first stage on its own
    {
        let mut cur = std::io::Cursor::new(b);
        let r = guarded("ProtectedHeader::decode", b, || {
            quinn_proto::ProtectedHeader::decode(&mut cur, &quinn_proto::FixedLengthConnectionIdParser::new(cid_len), versions(), grease).map(|h| h.dst_cid().len())
        })?;
        if cur.position() as usize > b.len() {
            return Err(CaseOut::fail("c10/total/header-read-past-end", format!("cursor at {} of {}\ninput {}", cur.position(), b.len(), hex(b))));
        }
        if let Ok(n) = r {
            if n > 20 {
                return Err(CaseOut::fail("c10/total/header-cid-too-long", format!("{n}-byte destination connection id")));
            }
        }
    }
    let mut depth = 0;
    let mut data = b.to_vec();
    for _ in 0..12 {
        let r = guarded("PartialDecode::new/finish", &data, || qc::packet_decode(&data, cid_len, versions(), grease))?;
        let d = match r {
            Ok(d) => d,
            Err(e) => {
                let early = e.contains("fixed bit unset") || e.contains("unexpected end of packet") || e.contains("packet too small");
                return Ok(depth.max(if early { 0 } else { 1 }));
            }
        };
        depth = 2;
        let fail = |m: String| Err(CaseOut::fail("c10/total/packet", format!("{m}\ninput {}", hex(&data))));
        if d.len > data.len() || d.header_data.len() + d.payload.len() != d.len {
            return fail(format!("packet length {} (header {} + payload {}) of a {}-byte buffer", d.len, d.header_data.len(), d.payload.len(), data.len()));
        }
        if [&d.header_data[..], &d.payload[..]].concat() != data[..d.len] {
            return fail("header + payload are not the packet's bytes".into());
        }
        match &d.rest {
            Some(r) if r[..] == data[d.len..] && !r.is_empty() => {}
            None if d.len == data.len() => {}
            _ => return fail(format!("remainder {:?} bytes, packet {} of {}", d.rest.as_ref().map(|r| r.len()), d.len, data.len())),
        }
        // decode . encode . decode = decode (the encoder reserves two bytes for Length)
        let long = matches!(d.header, qc::VHeader::Initial { .. } | qc::VHeader::Long { .. });
        if !long || d.payload.len() + 4 < 1 << 14 {
            let mut e = Vec::new();
            guarded("Header::encode (re-encoding a decoded header)", &data, || qc::packet_encode(&d.header, &d.payload, &mut e))?;
            match guarded("PartialDecode::new/finish", &e, || qc::packet_decode(&e, cid_len, versions(), true))? {
                Ok(a) if a.header == d.header && a.payload == d.payload && a.rest.is_none() => {}
                other => return fail(format!("decode(encode(decode(x))) != decode(x): {other:?}\nfirst decode {:?}\nreencoded {}", d.header, hex(&e))),
            }
        }
        match d.rest {
            Some(r) => data = r,
            None => break,
        }
    }
    Ok(depth)
}

fn tp_reject_class(e: &str) -> &'static str {
    if e.contains("preferred_address") {
        "preferred-address-length"
    } else if e.contains("integer shorter") || e.contains("integer longer") {
        "integer-length"
    } else {
        "other"
    }
}

fn tot_tp(b: &[u8], reader_is_server: bool) -> Result<Depth, CaseOut> {
    let _ = tp_read(!reader_is_server, b)?;
    let q = tp_read(reader_is_server, b)?;
    let r = ref_tp_decode(b, reader_is_server);
    let split = ref_tp_split(b);
    match (&q, &r) {
        (Ok((g, used)), RefTp::Ok(w)) => {
            if g != &**w {
                return Err(CaseOut::fail("c10/total/tparams-differ-from-reference", format!("quinn     {g:?}\nreference {w:?}\ninput {}", hex(b))));
            }
            if *used != b.len() {
                return Err(CaseOut::fail("c10/total/tparams-consumed", format!("accepted after {used} of {} bytes", b.len())));
            }
        }
        (Ok((_g, _)), RefTp::Reject(_e)) => {
            // Observation, not a violation of C10 as stated ("returning either a value or an error"):
            // quinn accepts some encodings the RFC requires to be refused (integer parameters whose
            // value does not fill the parameter length, trailing bytes inside preferred_address).
            // Recorded in DESIGN.md; the strict agreement with the reference is not asserted.
            return Ok(1);
        }
        (Err(e), RefTp::Ok(w)) => {
            // which legal feature was refused?
            let nonminimal = split.as_ref().map_or(false, |ps| {
                ps.iter().any(|(id, v)| (TP_INT_IDS.contains(id) || *id == TP_MAX_DATAGRAM || *id == TP_MIN_ACK_DELAY) && !v.is_empty() && v.len() != wire::var_len(wire::Rd::new(v).var().unwrap_or(0)))
            });
            if nonminimal {
                // observation only, see above
                return Ok(1);
            }
            return Err(CaseOut::fail("c10/tparams/rejects-valid".to_string(), format!("quinn refuses ({e}) parameters that are legal: {w:?}\ninput {}", hex(b))));
        }
        _ => {}
    }
    match q {
        Ok((g, _)) => {
            // decode . encode . decode = decode
            let mut e = Vec::new();
            guarded("TransportParameters::write (re-encoding decoded parameters)", b, || qc::tp_make(&g.to_v()).write(&mut e))?;
            match tp_read(reader_is_server, &e)? {
                Ok((a, _)) if a == g => Ok(2),
                other => Err(CaseOut::fail("c10/total/tparams-reencode", format!("decode(encode(decode(x))) != decode(x): {other:?}\nfirst {g:?}\ninput {}", hex(b)))),
            }
        }
        Err(_) => Ok(match split {
            Ok(p) if !p.is_empty() => 1,
            Err(_) if b.len() > 2 => 1,
            _ => 0,
        }),
    }
}

fn tot_token(raw: &[u8], key: u64, plaintext: Option<&[u8]>) -> Result<Depth, CaseOut> {
    let k = SimTokenKey(key);
    let r = guarded("Token::decode", raw, || qc::token_decode(&k, raw))?;
    match r {
        Some((nonce, p)) => {
            // accepted tokens are canonical: re-encoding gives the very same bytes
            let e = guarded("Token::encode (re-encoding a decoded token)", raw, || qc::token_encode(&k, nonce, &p))?;
            if e != raw {
                return Err(CaseOut::fail("c10/total/token-reencode", format!("accepted token is not what encode(decode(token)) gives\ninput     {}\nreencoded {}\nvalue {p:?}", hex(raw), hex(&e))));
            }
            Ok(2)
        }
        None => Ok(match plaintext {
            Some(pt) => (!pt.is_empty() && pt[0] <= 1) as u8,
            None => (raw.len() >= 32) as u8,
        }),
    }
}

fn tot_cid(b: &[u8]) -> Result<Depth, CaseOut> {
    let r = guarded("ConnectionId::decode_long", b, || qc::cid_decode_long(b))?;
    let fail = |m: String| Err(CaseOut::fail("c10/total/cid", format!("{m}\ninput {}", hex(b))));
    match r {
        Some((cid, used)) => {
            if used != 1 + b[0] as usize || used > b.len() || b[0] > 20 || cid[..] != b[1..used] {
                return fail(format!("decoded {cid:?} using {used} bytes"));
            }
            let mut e = Vec::new();
            qc::cid_encode_long(&cid, &mut e);
            if e[..] != b[..used] {
                return fail("re-encoding differs".into());
            }
            Ok(2)
        }
        None => {
            if !b.is_empty() && b[0] <= 20 && b.len() > b[0] as usize {
                return fail("a well-formed connection id was refused".into());
            }
            Ok(!b.is_empty() as u8)
        }
    }
}

fn tot_pref_addr(b: &[u8]) -> Result<Depth, CaseOut> {
    let r = guarded("PreferredAddress::read", b, || qc::preferred_address_read(b))?;
    let fail = |m: String| Err(CaseOut::fail("c10/total/preferred-address", format!("{m}\ninput {}", hex(b))));
    let wellformed = b.len() >= 25 && b[24] <= 20 && b.len() >= 41 + b[24] as usize;
    match r {
        Ok((p, used)) => {
            if !wellformed || used != 41 + b[24] as usize {
                return fail(format!("accepted {p:?} using {used} bytes"));
            }
            let mut e = Vec::new();
            qc::preferred_address_write(&p, &mut e);
            if e[..] != b[..used] {
                return fail(format!("re-encoding differs: {}", hex(&e)));
            }
            Ok(2)
        }
        Err(_) => {
            let no_addr = wellformed && b[..6] == [0; 6] && b[6..24] == [0; 18];
            if wellformed && !no_addr {
                return fail("a well-formed preferred_address was refused".into());
            }
            Ok((b.len() >= 25) as u8)
        }
    }
}

fn tot_one(target: Target, bytes: &[u8]) -> Result<Depth, CaseOut> {
    match target {
        Target::VarInt => tot_varint(bytes),
        Target::Frames => tot_frames(bytes),
        Target::Packet { cid_len, grease } => tot_packet(bytes, cid_len.min(20) as usize, grease),
        Target::Tp { reader_is_server } => tot_tp(bytes, reader_is_server),
        Target::TokenRaw { key } => tot_token(bytes, key, None),
        Target::TokenSealed { key } => {
            let nonce = hash64(&bytes) as u128 | ((key as u128) << 64);
            tot_token(&sim_seal(key, nonce, bytes), key, Some(bytes))
        }
        Target::Cid => tot_cid(bytes),
        Target::PrefAddr => tot_pref_addr(bytes),
    }
}

pub fn case_total(c: &TotCase) -> CaseOut {
    if c.bytes.len() > 4096 {
        return CaseOut::discard("input longer than the bound");
    }
    let depth = tri!(tot_one(c.target, &c.bytes));
    let mut labels = vec![
        match c.target {
            Target::VarInt => "varint",
            Target::Frames => "frames",
            Target::Packet { .. } => "packet",
            Target::Tp { .. } => "tparams",
            Target::TokenRaw { .. } => "token-raw",
            Target::TokenSealed { .. } => "token-sealed-plaintext",
            Target::Cid => "cid",
            Target::PrefAddr => "preferred-address",
        },
        c.origin.label(),
        match depth {
            0 => "refused-at-first-check",
            1 => "refused-later",
            _ => "accepted",
        },
    ];
    // truncation at every prefix of a (mutated) valid encoding
    if c.origin != Origin::Arbitrary && c.bytes.len() <= 320 {
        for cut in 0..c.bytes.len() {
            tri!(tot_one(c.target, &c.bytes[..cut]));
        }
        labels.push("every-prefix");
    }
    pass(labels, depth >= 1, json!({"target": format!("{:?}", c.target), "origin": c.origin.label(), "len": c.bytes.len(), "depth": depth}))
}

// ---------------------------------------------------------------------------------------------
// entry point
// ---------------------------------------------------------------------------------------------

pub fn run(report: &Report) -> i32 {
    report.assume("the reference codec (harness wire.rs + the transport-parameter reference in c10.rs) implements RFC 9000/9221/9287 and draft-ietf-quic-ack-frequency independently of quinn; where quinn and the reference disagree the RFC text decides");
    report.assume("header protection is the identity (SimCrypto) and no packet key is applied: header and packet-number coding are independent of the cipher");
    report.assume("PacketNumber::new is only defined for n - largest_acked < 2^31 (it panics beyond); PacketNumber::decode is only reachable behind PartialDecode's length guard");
    run_varint(report);
    run_pn(report);
    run_prop(
        report,
        "c10b_pn_diff",
        "proptest: (length, truncated value, receiver state) with the truncated value biased to expected, expected +- half window and 0; oracle: quinn's expand equals RFC 9000 A.3 (reference), keeps the truncated low bits and lands in (expected - hwin, expected + hwin]; non-trivial = receiver state or distance at an edge of the window / a wrap point",
        arb_pn_diff,
        report.cases(2_000_000, 100_000_000),
        case_pn_diff,
    );
    run_prop(
        report,
        "c10c_frames",
        "proptest: payloads of 1-6 frames over all 24 frame types with boundary-biased fields and every optional-field combination; oracles: quinn encode -> quinn decode equal, quinn encode -> reference decode equal field by field, quinn's bytes == reference encoder's bytes, reference encode (incl. explicit zero offset) -> quinn decode equal, Frame::ty(), close frames fit the space given and only lose a suffix of the reason; non-trivial = >=1 optional field present (ECN, extra ACK ranges, offset, length, fin, close frame type) or a field within 2 of a varint size boundary / CID of 1 or 20 bytes",
        arb_frames_case,
        report.cases(700_000, 20_000_000),
        case_frames,
    );
    run_prop(
        report,
        "c10d_packets",
        "proptest: datagrams of 0-4 Initial/Handshake/0-RTT packets followed by an optional Short/Retry/Version Negotiation packet, CIDs of 0..20 bytes, tokens of 0..300 bytes, packet-number lengths 1-4, all supported versions, spin/key-phase bits; oracles: Header::encode+finish -> PartialDecode::new+finish field equality, split exactly at the encoder's boundaries, reference decoder agrees on every field and boundary, reference-built packets decode to the same fields, unsupported versions refused; non-trivial = coalesced datagram, token present, or a CID of 0 or 20 bytes",
        arb_dgram_case,
        report.cases(500_000, 15_000_000),
        case_dgram,
    );
    run_prop(
        report,
        "c10e_tparams",
        "proptest: every transport parameter incl. server-only ones, reserved parameter and shuffled write order, values biased to defaults and protocol limits, both reader sides; oracles: wire image has exactly the expected parameters/values/order (reference splitter), read(write(p)) == p for legal p and an error for p that RFC 9000 18.2 forbids, reference encoder (also non-minimal integers) -> read equal, PreferredAddress wire_size/read/write; non-trivial = accepted with >=1 non-default/optional parameter",
        arb_tp_case,
        report.cases(500_000, 10_000_000),
        case_tp,
    );
    run_prop(
        report,
        "c10f_tokens",
        "proptest: retry and validation tokens (IPv4/IPv6, CID 0..20, issue times incl. 0 and beyond 2^32 s, sub-second part), SimCrypto token key and ring HKDF+AES-256-GCM; oracles: decode(encode(t)) == t up to whole seconds, nonce preserved, wrong key refused, every single-bit flip / every truncation / one extra byte refused, correctly sealed but malformed plaintexts (trailing bytes, missing byte, unknown type/family, CID length out of range) refused; non-trivial = retry token or a boundary CID length / issue time",
        arb_token_case,
        report.cases(60_000, 1_000_000),
        case_token,
    );
    run_cid(report);
    run_prop(
        report,
        "c10g_total",
        "proptest: arbitrary byte strings (0..2048 bytes, uniform and small-value biased) and mutations of valid encodings (bit flip, truncation, byte set to a length-field extreme, head tamper, insert, delete, splice; every prefix of inputs <= 320 bytes) into VarInt::decode, frame::Iter, ProtectedHeader::decode, PartialDecode::new+finish (coalesced loop), TransportParameters::read (both sides), Token::decode (raw and behind a valid seal), ConnectionId::decode_long, PreferredAddress::read; oracles: no panic anywhere (panic@site), consumed <= input, outputs are slices of the input, accept/reject and values equal the reference decoder's (frames, varints, transport parameters), decode(encode(decode(x))) == decode(x); non-trivial = the decoder got past its first length/type check",
        arb_tot_case,
        report.cases(2_000_000, 40_000_000),
        case_total,
    );
    report.finish("exhaustive enumeration of the 1/2/4-byte integer classes (4-byte class: thorough tier) and of packet-number windows; generated-input search (proptest) with round-trip, differential (independent RFC codec) and totality oracles elsewhere")
}

// ---------------------------------------------------------------------------------------------
// libFuzzer entry points (cargo-fuzz crate `fuzz-c10`): the same oracles, driven by coverage
// ---------------------------------------------------------------------------------------------

/// Run the totality / round-trip / differential oracle of one decoder on fuzzer-supplied bytes.
/// A violation aborts the process (libFuzzer saves the input) unless its signature is a listed
/// known finding of C10.
pub fn fuzz_oracle(target: Target, data: &[u8]) {
    static HOOK: std::sync::Once = std::sync::Once::new();
    static KNOWN: std::sync::OnceLock<Vec<String>> = std::sync::OnceLock::new();
    // installed after libFuzzer's own (aborting) hook, which becomes the fallback
    HOOK.call_once(install_panic_hook);
    let known = KNOWN.get_or_init(|| load_known().into_iter().filter(|k| k.property == "C10" && k.status == "known").map(|k| k.signature).collect());
    if data.len() > 4096 {
        return;
    }
    let c = TotCase { target, origin: Origin::Arbitrary, bytes: data.to_vec() };
    if let Verdict::Fail { sig, msg } = case_total(&c).verdict {
        if !known.iter().any(|k| *k == sig) {
            // leave a replay file that `qv c10 --replay` understands, then abort so that libFuzzer
            // saves the raw input as well
            let scenario = serde_json::to_value(&c).unwrap_or(serde_json::Value::Null);
            let h = hash64(&scenario.to_string()) & 0xffff_ffff_ffff;
            let dir = std::path::PathBuf::from(verif_root()).join("replays");
            let _ = std::fs::create_dir_all(&dir);
            let path = dir.join(format!("C10-fuzz-{h:012x}.json"));
            let f = Failure { property: "C10".into(), check: "c10g_total".into(), sig: sig.clone(), msg: msg.clone(), scenario };
            let _ = std::fs::write(&path, serde_json::to_string_pretty(&f).unwrap_or_default());
            println!("VIOLATION property=C10 replay={}", path.display());
            panic!("C10 violation {sig}\n{msg}\nreplay: {}", path.display());
        }
    }
}

/// Split a fuzzer input into a selector byte and the payload
pub fn fuzz_split(data: &[u8]) -> (u8, &[u8]) {
    match data.split_first() {
        Some((s, rest)) => (*s, rest),
        None => (0, data),
    }
}
