//! C16 — unreliable datagrams: intact, at most once, never oversized.

use super::xfer::*;
use crate::core::*;
use crate::simnet::*;
use crate::spec::*;
use std::collections::BTreeMap;

pub fn gen() -> XferGen {
    XferGen { max_faults: 60, aux_ops: 3, rustls_share: 10, max_streams: 2, max_total: 60_000, datagrams: true, mtu_steps: true, ..XferGen::default() }
}

pub fn case(x: &Xfer) -> CaseOut {
    let r = run_xfer(x, 30_000_000, true);
    if r.world.hit_step_limit {
        return CaseOut::inconclusive("step limit");
    }
    for v in &r.viol {
        if v.sig.starts_with("c16/") || v.sig.starts_with("drive/") {
            return CaseOut::fail(v.sig.clone(), v.msg.clone());
        }
    }
    let w = &r.world;
    // an honest sender must never trip the peer's datagram checks
    for c in &w.conns {
        for l in &c.app.lost {
            if l.contains("datagram") || l.contains("DATAGRAM") {
                return CaseOut::fail("c16/peer-rejected-datagram", format!("{:?} lost the connection: {l}", c.side));
            }
        }
    }
    // wire order: datagram ids leave each sender in increasing order and at most once; each
    // DATAGRAM frame travels in exactly one UDP datagram (it is a single frame by construction)
    let mut last: BTreeMap<usize, u64> = BTreeMap::new();
    let mut dup_on_link = false;
    let mut wire_dgrams = 0u64;
    for rec in &w.trace {
        if let Rec::Tx { conn, dgrams, before, .. } = rec {
            for d in dgrams {
                // "never oversized": a UDP datagram that carries a DATAGRAM frame fits the path MTU
                // estimate the connection held immediately before the call
                if let Some(b) = before {
                    let carries = d.pkts.iter().any(|p| p.has(|f| matches!(f, OF::Datagram { .. })));
                    if carries && d.size > b.mtu as usize {
                        return CaseOut::fail("c16/oversized-on-wire", format!("conn {conn}: a {}-byte UDP datagram carrying a DATAGRAM frame was emitted while the path MTU estimate was {}", d.size, b.mtu));
                    }
                }
                let mut has = false;
                for p in &d.pkts {
                    for f in p.frames.iter().flatten() {
                        if let OF::Datagram { id: Some(id), len } = f {
                            has = true;
                            wire_dgrams += 1;
                            let sent = w.ledgers[w.conns[*conn].load_idx].borrow().dgrams_sent.get(id).copied();
                            match sent {
                                Some((from_client, l)) if from_client == w.conns[*conn].side.is_client() && l == *len => {}
                                other => return CaseOut::fail("c16/wire-unknown", format!("DATAGRAM frame id {id} len {len} on the wire but send() record is {other:?}")),
                            }
                            let e = last.entry(*conn).or_insert(0);
                            if *id <= *e {
                                return CaseOut::fail("c16/wire-order", format!("conn {conn}: DATAGRAM id {id} left after id {e} (must be oldest first, at most once)"));
                            }
                            *e = *id;
                        }
                    }
                }
                if has && (d.fate == "dup" || d.fate == "corrupt-copy") {
                    dup_on_link = true;
                }
            }
        }
    }
    // blocked senders are told when space frees up
    for c in &w.conns {
        let p = c.c.verif_probe();
        if c.app.dgram_blocked_pending && p.datagram_outgoing == 0 && p.state == 1 && c.app.lost.is_empty() {
            return CaseOut::fail(
                "c16/unblocked-missing",
                format!("{:?}: send() returned Blocked, the queue has drained, but DatagramsUnblocked was never emitted", c.side),
            );
        }
    }
    // receive-buffer accounting: with nothing queued for the application nothing is accounted
    for c in &w.conns {
        let p = c.c.verif_probe();
        if p.datagram_incoming == 0 && p.datagram_recv_buffered != 0 {
            return CaseOut::fail("c16/recv-buffer-accounting", format!("{:?}: no datagram is waiting for the application but {} bytes of the receive buffer are accounted as used (they would be missing for later datagrams)", c.side, p.datagram_recv_buffered));
        }
    }
    // queued datagrams leave (or are discarded) once nothing holds the sender back: with nothing in
    // flight, no loss-detection or pacing timer, a validated path and an empty link, a non-empty send
    // queue can only hold datagrams that no longer fit a packet - which must have been dropped
    if w.queue.is_empty() {
        for c in &w.conns {
            let p = c.c.verif_probe();
            let held = p.timers_armed.iter().any(|t| *t == "LossDetection" || *t == "Pacing");
            if p.state == 1 && c.app.lost.is_empty() && p.datagram_outgoing > 0 && p.bytes_in_flight == 0 && !held && p.path_validated {
                return CaseOut::fail(
                    "c16/send-queue-stuck",
                    format!("{:?}: {} datagrams ({} bytes) stay queued although the connection is idle (nothing in flight, no loss-detection or pacing timer, path validated, window {}); path MTU estimate {}", c.side, p.datagram_outgoing, p.datagram_outgoing_total, p.congestion_window, p.current_mtu),
                );
            }
        }
    }
    let sent: u64 = w.conns.iter().map(|c| c.app.stats.dgram_sent).sum();
    let recv: u64 = w.conns.iter().map(|c| c.app.stats.dgram_recv).sum();
    let at_max: u64 = w.conns.iter().map(|c| c.app.stats.dgram_at_max).sum();
    let evicted: u64 = w.ledgers.iter().map(|l| l.borrow().dg_evicted).sum();
    let mut labels = vec![];
    if sent > 0 {
        labels.push("sent");
    }
    if recv > 0 {
        labels.push("received");
    }
    if at_max > 0 {
        labels.push("at-max-size");
    }
    if evicted > 0 {
        labels.push("recv-buffer-overflow");
    }
    if dup_on_link {
        labels.push("duplicated-on-link");
    }
    if w.conns.iter().any(|c| c.app.stats.dgram_blocked > 0) {
        labels.push("send-blocked");
    }
    if w.conns.iter().any(|c| c.app.stats.dgram_too_large > 0) {
        labels.push("too-large");
    }
    if w.conns.iter().any(|c| c.app.unblocked_events > 0) {
        labels.push("unblocked-event");
    }
    if w.stats.dgrams_mtu_dropped > 0 {
        labels.push("mtu-drop");
    }
    if x.net.crypto == CryptoKind::Rustls {
        labels.push("rustls");
    }
    let f = trace_facts(w);
    let mut sum = summary(x, &r, &f);
    sum["datagrams"] = serde_json::json!({"sent": sent, "received": recv, "at_max": at_max, "evicted_by_model": evicted, "on_wire": wire_dgrams});
    CaseOut { verdict: Verdict::Pass, labels, nontrivial: recv > 0 && (at_max > 0 || evicted > 0 || dup_on_link), summary: Some(sum) }
}

pub fn run(report: &Report) -> i32 {
    report.assume("receive-buffer model is fed with DATAGRAM frames the receiving connection reports as processed (frame_rx.datagram), in wire order");
    run_prop(
        report,
        "c16",
        "proptest-generated datagram workloads (sizes 0..2000 and max_size()+-2, drop true/false, lazy receivers, tiny and large send/receive buffers) mixed with streams over faulty links with MTU changes; oracles: payload identity and at-most-once at recv(), oldest-first receive-buffer model, send() result model (Disabled/UnsupportedByPeer/TooLarge/Blocked/Ok), send_buffer_space, max_size bounds, wire order, DatagramsUnblocked; non-trivial = something was received AND (a max_size datagram was sent OR the receive buffer overflowed OR a datagram-carrying packet was duplicated on the link)",
        || arb_xfer(gen()),
        report.cases(40_000, 1_500_000),
        case,
    );
    report.finish("generated-input search (proptest) against datagram buffer models")
}
