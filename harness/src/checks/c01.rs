//! C01 — stream data is delivered reliably, in order and exactly once.

use super::xfer::*;
use crate::core::*;

pub fn case_a(x: &Xfer) -> CaseOut {
    let t0 = std::time::Instant::now();
    let r = run_xfer(x, 120_000_000, false);
    if std::env::var("QV_DEBUG").is_ok() && t0.elapsed().as_millis() > 300 {
        let w = &r.world;
        eprintln!("SLOW {}ms now={}us steps={} completed={} trace={} stats={:?}", t0.elapsed().as_millis(), w.now, w.step, r.completed, w.trace.len(), w.stats);
        for c in &w.conns {
            eprintln!("   conn side={:?} connected={} lost={:?} out_complete={} recv_terminal={}/{} opened={:?} next_op={:?} stats={:?}", c.side, c.app.connected, c.app.lost, c.app.outgoing_complete(), c.app.recv.values().filter(|r| r.terminal.is_some()).count(), c.app.recv.len(), c.app.opened, c.app.next_op_time(), c.app.stats);
            for (k, s) in &c.app.send { eprintln!("      send {k}: {s:?}"); }
            for (k, s) in &c.app.recv { eprintln!("      recv {k}: fwd={} bytes={} terminal={:?} reader={:?}", s.fwd, s.bytes, s.terminal, s.reader); }
        }
    }
    if r.world.hit_step_limit {
        if std::env::var("QV_DEBUG").is_ok() {
            let w = &r.world;
            eprintln!("STEP LIMIT now={}us stats={:?} conns={} trace={}", w.now, w.stats, w.conns.len(), w.trace.len());
            for rec in w.trace.iter().rev().take(12).rev() {
                let s = format!("{rec:?}");
                eprintln!("   {}", &s[..s.len().min(300)]);
            }
            eprintln!("   tc client {:?}", x.net.client_tc);
            eprintln!("   tc server {:?}", x.net.server_tc);
            eprintln!("   drv {:?}", x.net.drv);
        }
        return CaseOut::inconclusive("step limit");
    }
    // C01 is a safety property: only content/ordering/termination-report violations count here.
    for v in &r.viol {
        if v.sig.starts_with("c01/") || v.sig.starts_with("app/") || v.sig.starts_with("drive/") {
            return CaseOut::fail(v.sig.clone(), format!("{}\nlink: {:?}", v.msg, r.world.stats));
        }
    }
    let f = trace_facts(&r.world);
    let bytes_read: u64 = r.world.conns.iter().map(|c| c.app.stats.bytes_read).sum();
    let mut labels = vec![];
    if f.stream_retransmit {
        labels.push("stream-retransmit");
    }
    if f.retransmit_rechunked {
        labels.push("retransmit-rechunked");
    }
    if f.reordered_delivery {
        labels.push("reordered");
    }
    if f.dup_delivered {
        labels.push("duplicate");
    }
    if f.lost {
        labels.push("loss");
    }
    if f.key_update_seen {
        labels.push("key-update");
    }
    if f.retry_seen {
        labels.push("retry");
    }
    if f.gso_batches > 0 {
        labels.push("gso");
    }
    if r.world.conns.iter().any(|c| c.app.stats.unordered_reads > 0) {
        labels.push("unordered-read");
    }
    if r.world.conns.iter().any(|c| c.app.stats.write_blocked > 0) {
        labels.push("flow-blocked");
    }
    if r.world.conns.iter().any(|c| c.app.stats.resets_seen > 0) {
        labels.push("reset-seen");
    }
    if r.world.conns.iter().any(|c| c.app.stats.stops_done > 0) {
        labels.push("stopped");
    }
    if r.completed {
        labels.push("completed");
    }
    if x.net.crypto == crate::spec::CryptoKind::Rustls {
        labels.push("rustls");
    }
    let nontrivial = bytes_read > 0 && (f.stream_retransmit || (f.reordered_delivery && f.stream_frames >= 2));
    CaseOut { verdict: Verdict::Pass, labels, nontrivial, summary: Some(summary(x, &r, &f)) }
}

pub fn run(report: &Report) -> i32 {
    report.assume("SimCrypto (harness crypto::Session) stands in for TLS in ~90% of cases; the rest use rustls+ring");
    report.assume("stream totals are capped at 200 kB and at 150x the smallest window on their path");
    let g = XferGen { max_faults: 80, aux_ops: 4, ..XferGen::default() };
    run_prop(
        report,
        "c01a",
        "proptest-generated transfer scenarios (configs x workloads x per-datagram fault streams x driver schedules); content oracle at every read; non-trivial = data was read AND the observer saw a STREAM range transmitted twice or datagrams delivered out of order; distinct by scenario hash",
        || arb_xfer(g),
        report.cases(20_000, 600_000),
        case_a,
    );
    run_prop(
        report,
        "c01b-assembler",
        "model-based histories against the stream reassembly buffer on its own (hook VerifAssembler): chunk arrivals with any overlap, duplicates and data below the read position, ordered reads of any max_length, one switch to unordered reads, unordered reads; byte-set model: every byte handed out is the written one, has arrived and was never handed out before, ordered reads neither stall nor skip, everything that arrived is handed out exactly once; non-trivial = overlapping arrivals and at least one byte read",
        super::c01b::arb_hist,
        report.cases(400_000, 20_000_000),
        super::c01b::case,
    );
    report.finish("generated-input search (proptest) against the stream content model")
}
