//! C02 — connections make progress: no deadlock under fair loss.
//!
//! Liveness as bounded-time safety: the generated fault stream is finite, after which the link is
//! clean with fixed latency; the event-driven workload must complete within a computed bound.

use super::xfer::*;
use crate::core::*;
use crate::spec::*;

pub fn gen() -> XferGen {
    XferGen { max_faults: 60, aux_ops: 4, feasible: true, max_total: 120_000, ..XferGen::default() }
}

/// Virtual-time bound after the fault stream ended (see DESIGN C02)
pub fn bound_us(x: &Xfer, tc_us: u64) -> u64 {
    let (wc, ws) = min_windows(x);
    let fwd = |l: &SideLoad| l.streams.iter().map(|s| s.total as u64).sum::<u64>();
    let back = |l: &SideLoad| l.streams.iter().map(|s| s.resp_total as u64).sum::<u64>();
    let c2s = fwd(&x.client) + back(&x.server);
    let s2c = fwd(&x.server) + back(&x.client);
    let bytes = c2s + s2c;
    let rtt = (x.net.latency_us[0] + x.net.latency_us[1]) as u64;
    let late: u64 = x.net.drv.late_us.iter().map(|&l| l as u64).max().unwrap_or(0);
    // slowest pacing cap on either side
    let pace = [&x.net.client_tc, &x.net.server_tc].iter().filter_map(|t| t.pacing_bps).min();
    let pace_us = pace.map_or(0, |bps| (bytes + 20_000) * 1_000_000 / bps.max(1) * 3);
    let per_round = rtt + 2 * late + 100_000;
    // flow-control round trips (window-limited) plus congestion-limited round trips (2 datagrams
    // per round in the worst case)
    let streams = (x.client.streams.len() + x.server.streams.len()) as u64;
    let rounds = 60 + 4 * streams + c2s / wc.min(2400) + s2c / ws.min(2400) + 2 * (bytes / 2400);
    60_000_000u64.max(8 * tc_us) + rounds * per_round * 4 + pace_us
}

pub fn case(x: &Xfer) -> CaseOut {
    // run with a generous horizon, then judge completion time against the bound
    let mut kf1_steps = 0u64;
    let pad_any = x.net.client_tc.pad_to_mtu || x.net.server_tc.pad_to_mtu;
    let r = run_xfer_mon(x, 3_500_000_000, false, &mut |w| {
        if pad_any && w.conns.iter().any(|c| padded_acks_block_cwnd(x, c)) {
            kf1_steps += 1;
        }
    });
    if r.world.hit_step_limit {
        return CaseOut::inconclusive("step limit");
    }
    for v in &r.viol {
        return CaseOut::fail(v.sig.clone(), format!("{}\nlink: {:?}", v.msg, r.world.stats));
    }
    let w = &r.world;
    let f = trace_facts(w);
    let tc = w.last_fault_at;
    let bound = bound_us(x, tc);
    let lost: Vec<_> = w.conns.iter().flat_map(|c| c.app.lost.iter().cloned()).collect();
    let describe = || {
        let mut s = String::new();
        for c in &w.conns {
            s += &format!(
                "{:?}: connected={} lost={:?} out_complete={} opened={:?} recv_terminal={}/{} stats={:?}\n",
                c.side,
                c.app.connected,
                c.app.lost,
                c.app.outgoing_complete(),
                c.app.opened,
                c.app.recv.values().filter(|r| r.terminal.is_some()).count(),
                c.app.recv.len(),
                c.app.stats
            );
            for (k, st) in &c.app.send {
                if !(st.done && (st.finished_ev > 0 || !matches!(st.end, EndSpec::Finish))) {
                    s += &format!("   send {k}: {st:?}\n");
                }
            }
            for (k, st) in &c.app.recv {
                if st.terminal.is_none() {
                    s += &format!("   recv {k}: fwd={} bytes={} want_read={} reader={:?}\n", st.fwd, st.bytes, st.want_read, st.reader);
                }
            }
            let p = c.c.verif_probe();
            if std::env::var("QV_TRACE").is_ok() {
                s += &format!("   fullprobe: {p:?}\n   stats: {:?}\n", c.c.stats());
            }
            s += &format!(
                "   probe: state={} in_flight={} cwnd={} loss_probes={:?} pto_count={} timeout={:?} max_data={} data_sent={} unacked={} send_window={}\n",
                p.state, p.bytes_in_flight, p.congestion_window, p.loss_probes, p.pto_count,
                c.c.poll_timeout().map(|t| t.saturating_duration_since(w.epoch)), p.streams.max_data, p.streams.data_sent, p.streams.unacked_data, p.streams.send_window
            );
        }
        if std::env::var("QV_TRACE").is_ok() {
            for rec in w.trace.iter().take(3000) {
                let t = format!("{rec:?}");
                s += &format!("   {}\n", &t[..t.len().min(700)]);
            }
        }
        s += &format!("now={}us faults_done_at={:?} bound={}us link={:?} queue={}\n", w.now, w.faults_done_at, bound, w.stats, w.queue.len());
        s
    };
    // Known finding: a server with zero-length local CIDs that answers with Retry cannot index the
    // pending Incoming (the post-Retry Initial has an empty DCID), so a second copy of that
    // Initial arriving before accept() creates a second connection for the same client.
    if w.conns.iter().filter(|c| c.side.is_server()).count() > 1 && x.net.server_ep.cid_len == 0 && x.net.srv.retry {
        return CaseOut::fail(
            "c09/zero-length-cid-retry-duplicate-incoming",
            format!("two server connections were created for one client\n{}", describe()),
        );
    }
    if !lost.is_empty() {
        return CaseOut::fail("c02/connection-lost", format!("connection lost although idle timeout is disabled and peers are honest: {lost:?}\n{}", describe()));
    }
    if !r.completed {
        // Known finding: with pad_to_mtu an ACK-only 1-RTT packet is padded, hence counted in
        // flight, but it is not ack-eliciting, so nothing ever solicits its acknowledgement; if
        // what is left of the congestion window is below one datagram the sender is blocked for
        // good with no timer armed.
        if kf1_steps > 0 {
            return CaseOut::fail(
                "c02/pad_to_mtu-ack-only-packets-exhaust-cwnd",
                format!("sender blocked by padded non-ack-eliciting packets counted in flight (observed in {kf1_steps} steps)\n{}", describe()),
            );
        }
        // Known finding: during the handshake the PTO ignores the application data space, but
        // 1-RTT packets sent by the server before the handshake completes (NEW_TOKEN,
        // NEW_CONNECTION_ID, 0.5-RTT data) count against the congestion window and cannot be
        // acknowledged until the client has the keys. If Handshake CRYPTO data was declared lost
        // while those packets fill the (reduced) window, its retransmission is congestion-blocked
        // forever and no timer is armed.
        {
            let probes: Vec<_> = w.conns.iter().map(|c| c.c.verif_probe()).collect();
            let handshaking = probes.iter().any(|p| p.state == 0);
            let blocked = probes.iter().any(|p| p.state <= 1 && p.bytes_in_flight + p.current_mtu as u64 >= p.congestion_window);
            if handshaking && blocked {
                return CaseOut::fail(
                    "c02/handshake-retransmit-congestion-blocked-by-unackable-packets",
                    format!("handshake data cannot be retransmitted: the congestion window is filled by packets the peer cannot acknowledge before the handshake completes\n{}", describe()),
                );
            }
        }
        // Known finding: force_key_update() is accepted again as soon as the previous keys were
        // discarded, even if no packet sent in the current key phase has been acknowledged (RFC
        // 9001 6.1 forbids that). After the peer initiated update N+1 and the local side then
        // initiates N+2 (the first, routine update after 10..1000 packets counts as one of them), the
        // one-bit key phase of N+2 equals that of N, the peer still holds the
        // phase-N keys as "previous" and tries those: every packet fails authentication for good.
        {
            let probes: Vec<_> = w.conns.iter().map(|c| c.c.verif_probe()).collect();
            let updates: u64 = w.conns.iter().map(|c| c.app.stats.key_updates).sum();
            if probes.iter().all(|p| p.state == 1) && updates >= 1 && probes.iter().any(|p| p.authentication_failures >= 5) {
                return CaseOut::fail(
                    "c02/key-update-before-ack-in-current-phase-desync",
                    format!("peers lost key synchronisation after back-to-back key updates\n{}", describe()),
                );
            }
        }
        // wedge detector: nothing in flight, nothing scheduled that could make progress
        let sig = if w.queue.is_empty() && w.conns.iter().all(|c| c.c.poll_timeout().is_none()) { "c02/wedged-no-timer" } else { "c02/not-completed" };
        return CaseOut::fail(sig, format!("workload did not complete within one virtual hour\n{}", describe()));
    }
    let done = r.completed_at.unwrap();
    if done > tc + bound {
        if kf1_steps > 0 {
            return CaseOut::fail(
                "c02/pad_to_mtu-ack-only-packets-exhaust-cwnd",
                format!("completion delayed beyond the bound while blocked by padded non-ack-eliciting packets counted in flight (observed in {kf1_steps} steps)\n{}", describe()),
            );
        }
        return CaseOut::fail("c02/too-slow", format!("completed at {done}us, bound was {}us after faults ended at {tc}us\n{}", bound, describe()));
    }
    let mut labels = vec![];
    let stalled = w.conns.iter().any(|c| c.app.stats.write_blocked > 0 || c.app.stats.open_blocked > 0);
    if f.lost {
        labels.push("loss");
    }
    if f.handshake_dgram_lost {
        labels.push("handshake-loss");
    }
    if f.crypto_retransmit {
        labels.push("crypto-retransmit");
    }
    if f.stream_retransmit {
        labels.push("stream-retransmit");
    }
    if stalled {
        labels.push("flow-stall");
    }
    if f.key_update_seen {
        labels.push("key-update");
    }
    if f.retry_seen {
        labels.push("retry");
    }
    if x.net.client_tc.pacing_bps.is_some() || x.net.server_tc.pacing_bps.is_some() {
        labels.push("pacing-cap");
    }
    if x.net.client_tc.ack_freq.is_some() || x.net.server_tc.ack_freq.is_some() {
        labels.push("ack-frequency");
    }
    if x.net.drv.late_us.iter().any(|&l| l > 0) {
        labels.push("late-timers");
    }
    if x.net.drv.spurious_every > 0 {
        labels.push("spurious-calls");
    }
    if x.net.crypto == CryptoKind::Rustls {
        labels.push("rustls");
    }
    let nontrivial = (f.lost && (f.crypto_retransmit || f.stream_retransmit)) || stalled;
    let mut sum = summary(x, &r, &f);
    sum["completed_after_faults_ms"] = serde_json::json!((done.saturating_sub(tc)) / 1000);
    sum["bound_ms"] = serde_json::json!(bound / 1000);
    CaseOut { verdict: Verdict::Pass, labels, nontrivial, summary: Some(sum) }
}

pub fn run(report: &Report) -> i32 {
    report.assume("liveness is decided as bounded-time safety: finite generated fault prefix, then a clean link");
    report.assume("idle timeout disabled; workloads restricted to completable ones (finish/reset ends, stream limits >= 1 where streams are planned)");
    run_prop(
        report,
        "c02",
        "proptest-generated event-driven transfers over finite fault prefixes (drop/dup/delay/ecn per datagram) x all transport configs x driver schedules; oracle: handshake + every planned stream complete within the computed virtual-time bound, no connection loss; non-trivial = a datagram was dropped and a CRYPTO/STREAM retransmission was needed, or a flow-control/stream-count stall occurred",
        || arb_xfer(gen()),
        report.cases(30_000, 1_200_000),
        case,
    );
    report.finish("generated-input search (proptest) with a bounded-liveness oracle")
}
