//! The transfer scenario shared by C01/C02/C05/C12/C13/C16/C20: one client connection with stream
//! and datagram workloads on both sides over a faulty link.

use crate::app::Viol;
use crate::simnet::*;
use crate::spec::*;
use proptest::prelude::*;
use serde::{Deserialize, Serialize};
use std::collections::{BTreeMap, BTreeSet};

#[derive(Clone, Debug, Serialize, Deserialize, PartialEq)]
pub struct Xfer {
    pub net: NetSpec,
    pub client: SideLoad,
    pub server: SideLoad,
}

#[derive(Clone, Copy, Debug)]
pub struct XferGen {
    pub max_streams: usize,
    pub max_total: u32,
    pub max_faults: usize,
    pub corrupt: bool,
    pub aux_ops: usize,
    pub allow_close: bool,
    pub mtu_steps: bool,
    /// only workloads every part of which can complete (for liveness checks)
    pub feasible: bool,
    pub rustls_share: u32,
    pub datagrams: bool,
}

impl Default for XferGen {
    fn default() -> Self {
        Self {
            max_streams: 5,
            max_total: 200_000,
            max_faults: 60,
            corrupt: false,
            aux_ops: 4,
            allow_close: false,
            mtu_steps: false,
            feasible: false,
            rustls_share: 10,
            datagrams: false,
        }
    }
}

pub fn arb_net(g: XferGen) -> impl Strategy<Value = NetSpec> {
    let crypto = prop_oneof![(100 - g.rustls_share).max(1) => Just(CryptoKind::Sim), g.rustls_share.max(1) => Just(CryptoKind::Rustls)];
    let srv = (prop_oneof![4 => Just(false), 1 => Just(true)], any::<bool>(), prop_oneof![4 => Just(0u32), 1 => 1u32..50_000], prop_oneof![3 => Just(0u16), 1 => 0u16..12_000], 0u8..3)
        .prop_map(|(retry, migration, accept_delay_us, flight_pad, tokens_sent)| SrvSpec {
            retry,
            migration,
            accept_delay_us,
            flight_pad,
            accept_0rtt: false,
            incoming_buffer: 10 << 20,
            tokens_sent,
            retry_token_lifetime_ms: 15_000,
        });
    let lat = (prop_oneof![Just(100u32), 1_000u32..150_000], prop_oneof![Just(100u32), 1_000u32..150_000]);
    let mtu_steps = if g.mtu_steps {
        prop::collection::vec((0u32..3_000_000, 1200u16..1600), 0..3).boxed()
    } else {
        Just(vec![]).boxed()
    };
    (
        (any::<u64>(), crypto, arb_ep(), arb_ep(), arb_tc(), arb_tc()),
        (srv, lat, arb_faults(g.max_faults, g.corrupt), arb_faults(g.max_faults, g.corrupt), mtu_steps, arb_drv()),
    )
        .prop_map(|((seed, crypto, client_ep, server_ep, client_tc, server_tc), (srv, lat, faults_c2s, faults_s2c, mut mtu_steps, drv))| {
            mtu_steps.sort();
            NetSpec {
                seed,
                crypto,
                client_ep,
                server_ep,
                client_tc,
                server_tc,
                srv,
                latency_us: [lat.0, lat.1],
                faults_c2s,
                faults_s2c,
                mtu_steps,
                drv,
                time_shift_us: 0,
                client_move_at_us: None,
                ipv4: false,
            }
        })
}

pub fn arb_load(g: XferGen) -> impl Strategy<Value = SideLoad> {
    let dg = if g.datagrams {
        prop::collection::vec(
            (
                0u32..2_000_000,
                prop_oneof![
                    3 => prop_oneof![0u16..64, 1000u16..1500, 0u16..2000].prop_map(|s| (Some(s), 0i8)),
                    2 => (-2i8..=2).prop_map(|d| (None, d)),
                ],
                any::<bool>(),
            )
                .prop_map(|(at_us, (size, delta), drop)| TimedOp {
                    at_us,
                    op: match size {
                        Some(size) => AuxOp::Datagram { size, drop },
                        None => AuxOp::DatagramRel { delta, drop },
                    },
                }),
            0..40,
        )
        .boxed()
    } else {
        Just(vec![]).boxed()
    };
    (
        prop::collection::vec(arb_stream(g.max_total), 0..=g.max_streams),
        prop::collection::vec(arb_aux(3_000_000, g.allow_close), 0..=g.aux_ops),
        dg,
        prop_oneof![3 => Just(0u8), 1 => 2u8..6],
    )
        .prop_map(|(streams, mut ops, dg, dgram_recv_every)| {
            ops.extend(dg);
            SideLoad { streams, ops, dgram_recv_every }
        })
}

pub fn arb_xfer(g: XferGen) -> impl Strategy<Value = Xfer> {
    (arb_net(g), arb_load(g), arb_load(g)).prop_map(move |(net, client, server)| normalize(Xfer { net, client, server }, g))
}

/// Smallest flow-control / send window that can ever apply to data flowing client->server and
/// server->client (initial configuration and run-time changes)
pub fn min_windows(x: &Xfer) -> (u64, u64) {
    let dir = |sender: &TcSpec, sender_load: &SideLoad, receiver: &TcSpec, receiver_load: &SideLoad| -> u64 {
        let mut w = receiver.stream_recv_window.min(receiver.recv_window).min(sender.send_window);
        for o in &sender_load.ops {
            if let AuxOp::SetSendWindow(v) = o.op {
                w = w.min(v);
            }
        }
        for o in &receiver_load.ops {
            if let AuxOp::SetRecvWindow(v) = o.op {
                w = w.min(v);
            }
        }
        w.max(1)
    };
    (dir(&x.net.client_tc, &x.client, &x.net.server_tc, &x.server), dir(&x.net.server_tc, &x.server, &x.net.client_tc, &x.client))
}

/// Bound the work of a case: stream totals are capped relative to the smallest window on their
/// path so that no transfer needs more than ~150 flow-control round trips. When `feasible`, also
/// make every part of the workload completable.
pub fn normalize(mut x: Xfer, g: XferGen) -> Xfer {
    let (c2s, s2c) = {
        let (wc, ws) = min_windows(&x);
        ((wc.saturating_mul(150)).min(g.max_total as u64) as u32, (ws.saturating_mul(150)).min(g.max_total as u64) as u32)
    };
    // byte-at-a-time writers/readers are exercised on small streams only (cost, not coverage)
    let small = |s: &StreamSpec| -> u32 {
        let tiny_write = s.chunks.iter().any(|&c| c < 100);
        let tiny_read = s.reader.max_len < 100 || s.reader.chunks_per_turn != 0;
        if tiny_write || tiny_read {
            6_000
        } else {
            u32::MAX
        }
    };
    for s in &mut x.client.streams {
        s.total = s.total.min(c2s).min(small(s));
        s.resp_total = s.resp_total.min(s2c);
    }
    for s in &mut x.server.streams {
        s.total = s.total.min(s2c).min(small(s));
        s.resp_total = s.resp_total.min(c2s);
    }
    // pacing cap: keep transfers feasible in bounded virtual time
    for tc in [&mut x.net.client_tc, &mut x.net.server_tc] {
        if let Some(p) = tc.pacing_bps {
            tc.pacing_bps = Some(p.max(2_000));
        }
        if let Some(m) = &mut tc.mtud {
            m.upper = m.upper.max(1200);
        }
        tc.min_mtu = tc.min_mtu.min(tc.initial_mtu);
    }
    // link MTU steps never go below the configured minimum MTUs
    let floor = x.net.client_tc.min_mtu.max(x.net.server_tc.min_mtu).max(1200);
    for s in &mut x.net.mtu_steps {
        s.1 = s.1.max(floor);
    }
    if g.feasible {
        // a handshake stretched by generated loss beyond the Retry token lifetime legitimately
        // fails with INVALID_TOKEN; liveness checks use a lifetime longer than any generated run
        x.net.srv.retry_token_lifetime_ms = 4_000_000;
        let fix = |load: &mut SideLoad, peer_tc: &mut TcSpec, my_tc: &mut TcSpec| {
            for s in &mut load.streams {
                if let EndSpec::Leave = s.end {
                    s.end = EndSpec::Finish;
                }
            }
            if load.streams.iter().any(|s| s.bidi) {
                peer_tc.max_bidi = peer_tc.max_bidi.max(1);
            }
            if load.streams.iter().any(|s| !s.bidi) {
                peer_tc.max_uni = peer_tc.max_uni.max(1);
            }
            let _ = my_tc;
            // run-time limit changes must not starve planned streams
            load.ops.retain(|o| !matches!(o.op, AuxOp::Close { .. }));
        };
        fix(&mut x.client, &mut x.net.server_tc, &mut x.net.client_tc);
        fix(&mut x.server, &mut x.net.client_tc, &mut x.net.server_tc);
        let needs = |l: &SideLoad| (l.streams.iter().any(|s| s.bidi), l.streams.iter().any(|s| !s.bidi));
        let (cn, sn) = (needs(&x.client), needs(&x.server));
        for (load, (need_bidi, need_uni)) in [(&mut x.client, sn), (&mut x.server, cn)] {
            for o in &mut load.ops {
                match &mut o.op {
                    AuxOp::SetMaxStreams { bidi, n } => {
                        if (*bidi && need_bidi) || (!*bidi && need_uni) {
                            *n = (*n).max(1);
                        }
                    }
                    AuxOp::SetRecvWindow(w) => *w = (*w).max(1),
                    AuxOp::SetSendWindow(w) => *w = (*w).max(1),
                    _ => {}
                }
            }
        }
    }
    x
}

#[derive(Debug, Default, Clone)]
pub struct TraceFacts {
    pub stream_retransmit: bool,
    pub retransmit_rechunked: bool,
    pub crypto_retransmit: bool,
    pub reordered_delivery: bool,
    pub dup_delivered: bool,
    pub lost: bool,
    pub key_update_seen: bool,
    pub retry_seen: bool,
    pub gso_batches: u64,
    pub ce_marked: bool,
    pub tx_dgrams: u64,
    pub handshake_dgram_lost: bool,
    pub timeouts: u64,
    pub stream_frames: u64,
}

pub fn trace_facts(w: &World) -> TraceFacts {
    let mut f = TraceFacts::default();
    // (conn, stream id) -> list of (offset, end)
    let mut ranges: BTreeMap<(usize, u64), Vec<(u64, u64)>> = BTreeMap::new();
    let mut crypto: BTreeMap<(usize, u8), Vec<(u64, u64)>> = BTreeMap::new();
    let mut phases: BTreeMap<usize, BTreeSet<bool>> = BTreeMap::new();
    let mut last_rx_id: BTreeMap<usize, u64> = BTreeMap::new();
    for r in &w.trace {
        match r {
            Rec::Tx { conn, seg, dgrams, .. } => {
                if seg.is_some() {
                    f.gso_batches += 1;
                }
                for d in dgrams {
                    f.tx_dgrams += 1;
                    if d.fate == "drop" || d.fate == "mtu-drop" {
                        f.lost = true;
                        if d.pkts.iter().any(|p| p.ty != crate::wire::PktType::Short) {
                            f.handshake_dgram_lost = true;
                        }
                    }
                    for p in &d.pkts {
                        if p.ty == crate::wire::PktType::Short {
                            phases.entry(*conn).or_default().insert(p.key_phase);
                        }
                        if let Some(fr) = &p.frames {
                            for x in fr {
                                match x {
                                    OF::Stream { id, offset, len, .. } if *len > 0 => {
                                        f.stream_frames += 1;
                                        let v = ranges.entry((*conn, *id)).or_default();
                                        let (lo, hi) = (*offset, *offset + *len as u64);
                                        for &(a, b) in v.iter() {
                                            if lo < b && a < hi {
                                                f.stream_retransmit = true;
                                                if (a, b) != (lo, hi) {
                                                    f.retransmit_rechunked = true;
                                                }
                                            }
                                        }
                                        v.push((lo, hi));
                                    }
                                    OF::Crypto { offset, len } if *len > 0 => {
                                        let sp = p.ty.space().unwrap_or(0) as u8;
                                        let v = crypto.entry((*conn, sp)).or_default();
                                        let (lo, hi) = (*offset, *offset + *len as u64);
                                        if v.iter().any(|&(a, b)| lo < b && a < hi) {
                                            f.crypto_retransmit = true;
                                        }
                                        v.push((lo, hi));
                                    }
                                    _ => {}
                                }
                            }
                        }
                    }
                }
            }
            Rec::TxEp { dgram, .. } => {
                if dgram.pkts.iter().any(|p| p.ty == crate::wire::PktType::Retry) {
                    f.retry_seen = true;
                }
            }
            Rec::Rx { ep, dgram_id, copy, .. } => {
                if *copy > 0 {
                    f.dup_delivered = true;
                }
                let l = last_rx_id.entry(*ep).or_insert(0);
                if *dgram_id < *l {
                    f.reordered_delivery = true;
                }
                *l = (*l).max(*dgram_id);
            }
            Rec::Timeout { spurious: false, .. } => f.timeouts += 1,
            _ => {}
        }
    }
    f.key_update_seen = phases.values().any(|s| s.len() > 1);
    f
}

pub struct XferRun {
    pub world: World,
    pub client: usize,
    pub completed: bool,
    pub completed_at: Option<u64>,
    pub viol: Vec<Viol>,
}

/// Both applications have done everything their workload asks for
pub fn workload_complete(w: &World) -> bool {
    if w.conns.len() < 2 {
        return false;
    }
    w.conns.iter().all(|c| {
        c.app.connected
            && c.app.outgoing_complete()
            && c.app.recv.values().all(|r| r.terminal.is_some())
            && c.app.next_op_time().is_none()
    }) && {
        // every stream the peers planned has been seen by the acceptor
        let c = &w.conns[0];
        let s = &w.conns[1];
        let planned = |l: &SideLoad| l.streams.len();
        let seen = |a: &crate::app::App, fwd: bool| a.recv.values().filter(|r| r.fwd == fwd).count();
        seen(&s.app, true) >= planned(&c.app.mine) && seen(&c.app, true) >= planned(&s.app.mine)
    }
}

pub fn run_xfer(x: &Xfer, horizon_after_faults_us: u64, probe: bool) -> XferRun {
    run_xfer_mon(x, horizon_after_faults_us, probe, &mut |_| {})
}

/// Whether connection `c` is currently in the state of known finding "pad_to_mtu: padded
/// ACK-only packets exhaust the congestion window" (nothing ack-eliciting in flight, yet less
/// than one datagram of window left)
pub fn padded_acks_block_cwnd(x: &Xfer, c: &ConnState) -> bool {
    let pad = if c.side.is_client() { x.net.client_tc.pad_to_mtu } else { x.net.server_tc.pad_to_mtu };
    if !pad {
        return false;
    }
    let p = c.c.verif_probe();
    p.state == 1 && p.ack_eliciting_in_flight == 0 && p.bytes_in_flight > 0 && p.bytes_in_flight + p.current_mtu as u64 >= p.congestion_window
}

pub fn run_xfer_mon(x: &Xfer, horizon_after_faults_us: u64, probe: bool, monitor: &mut dyn FnMut(&World)) -> XferRun {
    let mut w = World::new(x.net.clone());
    w.probe = probe;
    let client = w.connect(CLIENT_EP, ConnLoad { client: x.client.clone(), server: x.server.clone() }).expect("connect");
    let hard_end = 3_600_000_000u64; // one virtual hour
    let mut completed_at = None;
    loop {
        let until = match w.faults_done_at {
            Some(t) => (t + horizon_after_faults_us).min(hard_end),
            None => hard_end.min(w.now + horizon_after_faults_us),
        };
        let before_now = w.now;
        let before_step = w.step;
        let ok = w.run(until, |w| {
            monitor(w);
            workload_complete(w) || w.conns.iter().any(|c| !c.app.lost.is_empty())
        });
        if !ok || !w.viol.is_empty() {
            break;
        }
        if workload_complete(&w) {
            completed_at = Some(w.now);
            break;
        }
        if w.conns.iter().any(|c| !c.app.lost.is_empty()) {
            break;
        }
        if w.now >= until || (w.now == before_now && w.step == before_step + 1) {
            break;
        }
    }
    let viol = w.collect_violations();
    XferRun { completed: completed_at.is_some(), completed_at, viol, world: w, client }
}

pub fn summary(x: &Xfer, r: &XferRun, f: &TraceFacts) -> serde_json::Value {
    serde_json::json!({
        "crypto": format!("{:?}", x.net.crypto),
        "streams": [x.client.streams.len(), x.server.streams.len()],
        "bytes": x.client.streams.iter().chain(&x.server.streams).map(|s| s.total as u64 + s.resp_total as u64).sum::<u64>(),
        "faults": [x.net.faults_c2s.len(), x.net.faults_s2c.len()],
        "cc": [format!("{:?}", x.net.client_tc.cc), format!("{:?}", x.net.server_tc.cc)],
        "virtual_ms": r.world.now / 1000,
        "tx_dgrams": f.tx_dgrams,
        "completed": r.completed,
        "link": format!("{:?}", r.world.stats),
    })
}
