//! C13 — datagrams never exceed the validated path MTU or peer limits.

use super::xfer::*;
use crate::core::*;
use crate::simnet::*;
use crate::spec::*;
use std::collections::BTreeMap;

pub fn gen() -> XferGen {
    XferGen { max_faults: 30, aux_ops: 2, rustls_share: 8, max_streams: 3, max_total: 120_000, feasible: true, mtu_steps: true, datagrams: true, ..XferGen::default() }
}

fn only_probe_frames(d: &DgRec) -> Option<bool> {
    let mut all = true;
    for p in &d.pkts {
        let fs = p.frames.as_ref()?;
        if !fs.iter().all(|f| matches!(f, OF::Ping | OF::ImmediateAck | OF::Padding(_))) {
            all = false;
        }
    }
    Some(all)
}

pub fn case(x: &Xfer) -> CaseOut {
    // KF1 (pad_to_mtu, see C02) can stall a transfer; liveness after an MTU drop is asserted only
    // without it
    // (up to the hard end of one virtual hour: after a black hole the fallback needs several loss bursts, each
    // a probe timeout apart, and the statement sets no deadline)
    let r = run_xfer(x, 3_500_000_000, true);
    if r.world.hit_step_limit {
        return CaseOut::inconclusive("step limit");
    }
    for v in &r.viol {
        if v.sig.starts_with("drive/") {
            return CaseOut::fail(v.sig.clone(), v.msg.clone());
        }
    }
    let w = &r.world;
    let sim = x.net.crypto == CryptoKind::Sim;
    let mut mtu_up = false;
    let mut mtu_down = false;
    let mut probes_seen = 0u64;
    let mut gso_seen = false;
    // per connection: sizes of datagrams sent so far that the link did not drop, last mtu seen
    let mut sent_sizes: BTreeMap<usize, Vec<usize>> = BTreeMap::new();
    let mut last_mtu: BTreeMap<usize, u16> = BTreeMap::new();
    let mut outstanding_probe: BTreeMap<usize, bool> = BTreeMap::new();
    let mut last_remote: BTreeMap<usize, Option<std::net::SocketAddr>> = BTreeMap::new();
    for rec in &w.trace {
        let Rec::Tx { t, conn, dgrams, before: Some(b), after: Some(a), seg, size, .. } = rec else { continue };
        let c = &w.conns[*conn];
        let (tc, peer_ep) = if c.side.is_client() { (&x.net.client_tc, &x.net.server_ep) } else { (&x.net.server_tc, &x.net.client_ep) };
        // MTU estimate evolution between polls
        // a new path (migration) starts from the configured initial MTU again
        let new_path = last_remote.insert(*conn, b.remote) != Some(b.remote);
        if let (Some(prev), false) = (last_mtu.get(conn).copied(), new_path) {
            if b.mtu > prev {
                mtu_up = true;
                // path_changed() restarts MTU discovery from the configured initial MTU
                let side_ops = if c.side.is_client() { &x.client.ops } else { &x.server.ops };
                // (so does a migration; a server may leave a path and return to it between two transmits,
                // which the per-transmit samples of the remote address do not show)
                let restarted = b.mtu == tc.initial_mtu.min(peer_ep.max_udp_payload.clamp(1200, 65527)) && (side_ops.iter().any(|o| o.op == AuxOp::PathChanged) || (x.net.client_move_at_us.is_some() && c.side.is_server()));
                let ok = restarted || sent_sizes.get(conn).is_some_and(|v| v.contains(&(b.mtu as usize)));
                if !ok {
                    let hist: Vec<String> = w
                        .trace
                        .iter()
                        .filter_map(|r| match r {
                            Rec::Tx { t, conn: c2, before: Some(b), after: Some(a), .. } if c2 == conn => Some((*t, b.remote, b.mtu, a.remote, a.mtu)),
                            _ => None,
                        })
                        .fold(Vec::<(u64, Option<std::net::SocketAddr>, u16, Option<std::net::SocketAddr>, u16)>::new(), |mut v, x| {
                            if v.last().map_or(true, |l| (l.3, l.4) != (x.1, x.2) || (x.1, x.2) != (x.3, x.4)) {
                                v.push(x);
                            }
                            v
                        })
                        .iter()
                        .map(|(t, r1, m1, r2, m2)| format!("t={t} {r1:?}/{m1} -> {r2:?}/{m2}"))
                        .collect();
                    return CaseOut::fail(
                        "c13/mtu-raised-without-probe",
                        format!("t={t} conn {conn}: MTU estimate rose from {prev} to {} but no datagram of exactly that size was sent and delivered before; path/MTU history of this connection: {hist:?}", b.mtu),
                    );
                }
            }
            if b.mtu < prev {
                mtu_down = true;
            }
        }
        for m in [b.mtu, a.mtu] {
            let floor = tc.min_mtu.min(peer_ep.max_udp_payload).max(1200).min(tc.min_mtu.max(1200));
            if m < floor.min(peer_ep.max_udp_payload.max(1200)) {
                return CaseOut::fail("c13/mtu-below-floor", format!("t={t} conn {conn}: MTU estimate {m} below min(min_mtu {}, peer max_udp_payload_size {})", tc.min_mtu, peer_ep.max_udp_payload));
            }
        }
        // once the peer's transport parameters are known the estimate respects its max_udp_payload_size
        if b.state == 1 && a.state == 1 {
            let peer_max = peer_ep.max_udp_payload.clamp(1200, 65527);
            for m in [b.mtu, a.mtu] {
                if m > peer_max {
                    return CaseOut::fail("c13/mtu-above-peer-limit", format!("t={t} conn {conn}: MTU estimate {m} exceeds the peer's max_udp_payload_size {peer_max}"));
                }
            }
        }
        last_mtu.insert(*conn, a.mtu);
        // GSO shape
        if let Some(s) = seg {
            gso_seen = true;
            for d in &dgrams[..dgrams.len() - 1] {
                if d.size != *s {
                    return CaseOut::fail("c13/gso-segment", format!("t={t} conn {conn}: GSO transmit with segment_size {s} has a non-final datagram of {} bytes (total {size})", d.size));
                }
            }
            if dgrams.last().is_some_and(|d| d.size > *s) {
                return CaseOut::fail("c13/gso-segment", format!("t={t} conn {conn}: GSO transmit last datagram larger than segment_size {s}"));
            }
        }
        // sizes
        let mut oversize = 0;
        for d in dgrams {
            if d.size > b.mtu as usize {
                oversize += 1;
                // must be an MTU probe
                probes_seen += 1;
                if dgrams.len() != 1 {
                    return CaseOut::fail("c13/oversize-in-batch", format!("t={t} conn {conn}: datagram of {} bytes exceeds the MTU estimate {} inside a transmit of {} datagrams", d.size, b.mtu, dgrams.len()));
                }
                if let Some(false) = only_probe_frames(d) {
                    return CaseOut::fail(
                        "c13/oversize-not-probe",
                        format!("t={t} conn {conn}: datagram of {} bytes exceeds the MTU estimate {} and carries more than PING/IMMEDIATE_ACK/PADDING: {:?}", d.size, b.mtu, d.pkts.iter().map(|p| p.frames.clone()).collect::<Vec<_>>()),
                    );
                }
                let upper = tc.mtud.as_ref().map_or(0, |m| m.upper.max(1200)) as usize;
                let peer_max = peer_ep.max_udp_payload.clamp(1200, 65527) as usize;
                if d.size > upper.min(peer_max) {
                    return CaseOut::fail("c13/probe-too-large", format!("t={t} conn {conn}: MTU probe of {} bytes exceeds min(upper bound {upper}, peer max_udp_payload_size {peer_max})", d.size));
                }
                if b.mtu_probe.is_some() {
                    return CaseOut::fail("c13/two-probes", format!("t={t} conn {conn}: MTU probe sent while probe packet {:?} is still outstanding", b.mtu_probe));
                }
                if outstanding_probe.get(conn).copied().unwrap_or(false) && b.mtu_probe.is_some() {
                    return CaseOut::fail("c13/two-probes", format!("t={t} conn {conn}: second MTU probe outstanding"));
                }
                outstanding_probe.insert(*conn, a.mtu_probe.is_some());
            }
            if d.fate != "drop" && d.fate != "mtu-drop" && d.fate != "corrupt" {
                sent_sizes.entry(*conn).or_default().push(d.size);
            }
            // padding rules
            let has_initial = d.pkts.iter().any(|p| p.ty == crate::wire::PktType::Initial);
            if has_initial && c.side.is_client() && d.size < 1200 {
                return CaseOut::fail("c13/client-initial-padding", format!("t={t} conn {conn}: client datagram containing an Initial packet is only {} bytes", d.size));
            }
            if sim && d.pkts.iter().any(|p| p.has(|f| matches!(f, OF::PathChallenge(_) | OF::PathResponse(_)))) && d.size < 1200 {
                return CaseOut::fail("c13/path-validation-padding", format!("t={t} conn {conn}: datagram carrying PATH_CHALLENGE/PATH_RESPONSE is only {} bytes", d.size));
            }
        }
        let _ = oversize;
        // loss probes are clamped to 1200 bytes
        let lp_before: u32 = b.loss_probes.iter().sum();
        let lp_after: u32 = a.loss_probes.iter().sum();
        if lp_after < lp_before {
            let consumed = (lp_before - lp_after) as usize;
            let small = dgrams.iter().filter(|d| d.size <= 1200).count();
            if small < consumed.min(dgrams.len()) {
                return CaseOut::fail(
                    "c13/loss-probe-size",
                    format!("t={t} conn {conn}: {consumed} loss probes were consumed by a transmit whose datagram sizes are {:?} (each probe must be <= 1200)", dgrams.iter().map(|d| d.size).collect::<Vec<_>>()),
                );
            }
        }
    }
    // recovery after the path shrank: the workload still completes (asserted without pad_to_mtu,
    // whose known finding KF1 can stall any transfer)
    let pad = x.net.client_tc.pad_to_mtu || x.net.server_tc.pad_to_mtu;
    let lost: Vec<_> = w.conns.iter().flat_map(|c| c.app.lost.iter().cloned()).collect();
    let kf = w.conns.iter().any(|c| padded_acks_block_cwnd(x, c))
        || w.conns.iter().any(|c| c.c.verif_probe().authentication_failures >= 3)
        || w.conns.iter().any(|c| c.c.verif_probe().state == 0);
    // (recovery across a migration is C15's business: its known finding on packets sent on an abandoned
    // path would surface here)
    if !r.completed && !pad && !kf && lost.is_empty() && w.stats.dgrams_mtu_dropped > 0 && x.net.client_move_at_us.is_none() {
        return CaseOut::fail(
            "c13/no-recovery-after-mtu-drop",
            format!(
                "link dropped {} oversized datagrams and the transfer never completed (now {} us); MTU estimates {:?}; {:?}\n{}",
                w.stats.dgrams_mtu_dropped,
                w.now,
                w.conns.iter().map(|c| c.c.current_mtu()).collect::<Vec<_>>(),
                w.conns
                    .iter()
                    .map(|c| {
                        let p = c.c.verif_probe();
                        format!("{:?}: state {} in_flight {} window {} pto_count {} timers {:?} sent_packets {:?} black_holes {} lost_packets {} out_complete {}", c.side, p.state, p.bytes_in_flight, p.congestion_window, p.pto_count, p.timers_armed, p.sent_packets, c.c.stats().path.black_holes_detected, c.c.stats().path.lost_packets, c.app.outgoing_complete())
                    })
                    .collect::<Vec<_>>(),
                w.dump_trace(w.trace.len().saturating_sub(40), 40)
            ),
        );
    }
    let black_holes: u64 = w.conns.iter().map(|c| c.c.stats().path.black_holes_detected).sum();
    let mut labels = vec![];
    if mtu_up {
        labels.push("mtu-raised");
    }
    if mtu_down {
        labels.push("mtu-lowered");
    }
    if black_holes > 0 {
        labels.push("black-hole-detected");
    }
    if probes_seen > 0 {
        labels.push("mtu-probe");
    }
    if gso_seen {
        labels.push("gso-batch");
    }
    if w.stats.dgrams_mtu_dropped > 0 {
        labels.push("link-mtu-drop");
    }
    if r.completed {
        labels.push("completed");
    }
    if !sim {
        labels.push("rustls");
    }
    let f = trace_facts(w);
    let dg_max: u64 = w.conns.iter().map(|c| c.app.stats.dgram_at_max).sum();
    CaseOut { verdict: Verdict::Pass, labels, nontrivial: (mtu_up || mtu_down) && (gso_seen || dg_max > 0), summary: Some(summary(x, &r, &f)) }
}

pub fn run(report: &Report) -> i32 {
    report.assume("MTU estimate, outstanding MTU probe and loss-probe counters are read through the verif-hooks probe before/after every poll_transmit");
    report.assume("'rises only after a probe of that size was acknowledged' is checked as: a datagram of exactly the new size was sent earlier and not dropped by the link");
    run_prop(
        report,
        "c13",
        "proptest-generated transfers over a link with a time-varying silent size threshold (>= 1200), initial_mtu 1200..1500, MTUD upper bounds 1200..9000 or disabled, peer max_udp_payload_size 1200..9000, GSO batch 1..10, pad_to_mtu, application datagrams at max_size()+-2; per-poll_transmit size oracle with single-probe exemption, GSO shape, Initial/path-validation padding, loss-probe clamp, MTU monotonic-with-cause, recovery after black hole; non-trivial = the MTU estimate changed during a transfer that used GSO batches or max-size datagrams",
        || {
            use proptest::prelude::*;
            // a quarter of the cases: the client's source address changes mid-transfer (server permits
            // migration), so PATH_CHALLENGE / PATH_RESPONSE datagrams and the new path's MTU discovery appear
            // a fifth of the cases: an application that knows better calls path_changed() (RTT, congestion
            // control and MTU discovery start over)
            (arb_xfer(gen()), prop::option::weighted(0.25, 200_000u32..3_000_000), prop::collection::vec((any::<bool>(), 50_000u32..3_000_000), 0..3), prop::bool::weighted(0.2)).prop_map(|(mut x, mv, pcs, with_pc)| {
                if let (Some(t), true) = (mv, x.net.client_ep.cid_len > 0 && x.net.server_ep.cid_len > 0) {
                    x.net.client_move_at_us = Some(t);
                    x.net.srv.migration = true;
                }
                if with_pc {
                    for (at_client, at_us) in pcs {
                        let side = if at_client { &mut x.client } else { &mut x.server };
                        side.ops.push(TimedOp { at_us, op: AuxOp::PathChanged });
                        side.ops.sort_by_key(|o| o.at_us);
                    }
                }
                x
            })
        },
        report.cases(36_000, 1_500_000),
        case,
    );
    report.finish("generated-input search (proptest) with per-transmit size oracle")
}
