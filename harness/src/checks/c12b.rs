//! C12b — the built-in congestion controllers never report a window below two datagrams.
//!
//! Model-based call histories against `quinn_proto::congestion::{Cubic, NewReno, Bbr}` through the
//! public `Controller` / `ControllerFactory` traits. The generator keeps the bookkeeping a
//! connection keeps (outstanding packets per packet-number space with size and send time, a
//! monotone virtual clock, an RTT estimator fed after each ACK) and emits the calls in the shapes
//! `quinn-proto/src/connection/mod.rs` produces them:
//!
//! * `on_sent(now, bytes_of_batch, last_pn)` once per transmit batch,
//! * per ACK: `[on_mtu_update]* on_ack` per newly acked packet, `on_end_acks`, then the RTT sample,
//! * `on_congestion_event(now, sent_of_largest_lost | sent_of_largest_acked, persistent, ecn, lost_bytes)`,
//! * `on_spurious_congestion_event`, `on_mtu_update` (up and down), `clone_box` (migration).
//!
//! Oracle after construction and after EVERY call: `window() >= 2 * mtu` for the MTU most recently
//! communicated through `build()` / `on_mtu_update()`, `clone_box().window() == window()`,
//! `initial_window()` equals the configured value, and no panic (overflow panics included).

use crate::core::*;
use proptest::prelude::*;
use quinn_proto::congestion::{BbrConfig, Controller, ControllerFactory, CubicConfig, NewRenoConfig};
use quinn_proto::RttEstimator;
use serde::{Deserialize, Serialize};
use serde_json::json;
use std::cell::Cell;
use std::collections::BTreeMap;
use std::sync::{Arc, OnceLock};
use std::time::{Duration, Instant};

pub const MIN_MTU: u16 = 1200;
pub const MAX_MTU: u16 = 65527;
/// Largest construction MTU for which the default Cubic/NewReno initial window (12000) is >= 2 MTU
pub const MAX_DEFAULT_CTOR_MTU: u16 = 6000;
const DEFAULT_IW_RENO_CUBIC: u64 = 12_000;
const DEFAULT_IW_BBR: u64 = 240_000;

#[derive(Debug, Clone, Copy, PartialEq, Eq, Serialize, Deserialize)]
pub enum Kind {
    Cubic,
    NewReno,
    Bbr,
}

impl Kind {
    fn name(self) -> &'static str {
        match self {
            Kind::Cubic => "cubic",
            Kind::NewReno => "newreno",
            Kind::Bbr => "bbr",
        }
    }
    fn default_iw(self) -> u64 {
        match self {
            Kind::Cubic | Kind::NewReno => DEFAULT_IW_RENO_CUBIC,
            Kind::Bbr => DEFAULT_IW_BBR,
        }
    }
}

/// `initial_window` knob
#[derive(Debug, Clone, Copy, PartialEq, Eq, Serialize, Deserialize)]
pub enum Iw {
    Default,
    /// exactly 2 * construction MTU (the smallest value inside the domain)
    TwoMtu,
    /// 2 * construction MTU + n
    TwoMtuPlus(u16),
    /// 10 * construction MTU (the recommended formula's upper arm)
    TenMtu,
    /// 2^n bytes, n in 18..=62
    Pow2(u8),
}

impl Iw {
    fn value(self, kind: Kind, mtu0: u16) -> u64 {
        match self {
            Iw::Default => kind.default_iw(),
            Iw::TwoMtu => 2 * mtu0 as u64,
            Iw::TwoMtuPlus(n) => 2 * mtu0 as u64 + n as u64,
            Iw::TenMtu => 10 * mtu0 as u64,
            Iw::Pow2(n) => 1u64 << n.clamp(18, 62),
        }
    }
}

/// `NewRenoConfig::loss_reduction_factor` values: the default first, then accepted extremes
pub const LRF: [f32; 10] = [0.5, 0.7, 0.999, 1.0, 0.0, f32::MIN_POSITIVE, 2.0, -1.0, f32::INFINITY, f32::NAN];

#[derive(Debug, Clone, Serialize, Deserialize)]
pub enum Op {
    /// One transmit batch: packets of `frac/65536 * mtu + 1` bytes each, one `on_sent` call.
    /// `announce == false` models packets tracked in flight without `on_sent` (MTU probes).
    Send { space: u8, sizes: Vec<u16>, announce: bool },
    /// Advance the virtual clock
    Advance { ns: u64 },
    /// One ACK frame for `space`
    Ack {
        space: u8,
        picks: Vec<u16>,
        app_limited: bool,
        ack_delay_us: u32,
        /// None: the connection's sample (now - send time of the largest newly acked packet)
        rtt_free_us: Option<u32>,
        /// `on_mtu_update(mtu)` immediately before the `k`-th `on_ack` (an acked MTU probe)
        mtu_at: Option<(u8, u16)>,
        end: bool,
        /// None: in_flight = bytes outstanding; Some(f): that fraction of it (after migration only
        /// packets of the new path are counted)
        inflight: Option<u16>,
    },
    /// A stray `on_end_acks`
    EndAcks { space: u8, app_limited: bool, inflight: Option<u16> },
    Congestion {
        space: u8,
        ecn: bool,
        persistent: bool,
        /// lost subset of the outstanding packets (removed); lost_bytes is their total size
        picks: Vec<u16>,
        /// None: send time of the largest lost packet (loss) / of the largest acked packet (ECN);
        /// Some(i): the send time of any packet sent so far
        sent_sel: Option<u16>,
        /// Some(f): lost_bytes = that fraction of the bytes outstanding before the event (loss only;
        /// ECN events always carry lost_bytes = 0, as documented on the trait)
        bytes_frac: Option<u16>,
    },
    Spurious,
    Mtu(u16),
    CloneBox,
    /// Packets abandoned without telling the controller (packet-number space discarded)
    Forget { picks: Vec<u16> },
}

#[derive(Debug, Clone, Serialize, Deserialize)]
pub struct CcHist {
    pub kind: Kind,
    pub mtu0: u16,
    pub iw: Iw,
    /// index into `LRF` (NewReno only)
    pub lrf: u8,
    pub initial_rtt_us: u32,
    pub ops: Vec<Op>,
}

#[derive(Debug, Clone, Serialize, Deserialize)]
pub struct InitCase {
    pub kind: Kind,
    pub mtu0: u16,
}

// ---------------------------------------------------------------------------------------------
// Strategies
// ---------------------------------------------------------------------------------------------

fn arb_mtu() -> impl Strategy<Value = u16> {
    prop_oneof![
        4 => MIN_MTU..=1500u16,
        3 => MIN_MTU..=9000u16,
        3 => MIN_MTU..=MAX_MTU,
        1 => Just(MAX_MTU),
    ]
}

fn arb_space() -> impl Strategy<Value = u8> {
    prop_oneof![8 => Just(2u8), 1 => Just(0u8), 1 => Just(1u8)]
}

fn arb_advance() -> impl Strategy<Value = u64> {
    prop_oneof![
        2 => Just(0u64),
        2 => 1u64..1_000,
        3 => 1_000u64..1_000_000,
        5 => 1_000_000u64..1_000_000_000,
        2 => 1_000_000_000u64..30_000_000_000,
    ]
}

fn arb_op() -> impl Strategy<Value = Op> {
    let send = (arb_space(), prop::collection::vec(any::<u16>(), 1..=4), prop::bool::weighted(0.92))
        .prop_map(|(space, sizes, announce)| Op::Send { space, sizes, announce });
    let adv = arb_advance().prop_map(|ns| Op::Advance { ns });
    let ack = (
        arb_space(),
        prop::collection::vec(any::<u16>(), 1..=12),
        any::<bool>(),
        prop_oneof![3 => Just(0u32), 3 => 0u32..30_000, 1 => 0u32..20_000_000],
        prop::option::weighted(0.1, prop_oneof![1 => Just(0u32), 3 => 0u32..2_000_000, 1 => 0u32..60_000_000]),
        prop::option::weighted(0.15, (0u8..4, arb_mtu())),
        prop::bool::weighted(0.95),
        prop::option::weighted(0.15, any::<u16>()),
    )
        .prop_map(|(space, picks, app_limited, ack_delay_us, rtt_free_us, mtu_at, end, inflight)| Op::Ack {
            space,
            picks,
            app_limited,
            ack_delay_us,
            rtt_free_us,
            mtu_at,
            end,
            inflight,
        });
    let endacks = (arb_space(), any::<bool>(), prop::option::weighted(0.3, any::<u16>()))
        .prop_map(|(space, app_limited, inflight)| Op::EndAcks { space, app_limited, inflight });
    let cong = (
        arb_space(),
        prop::bool::weighted(0.25),
        prop::bool::weighted(0.3),
        prop::collection::vec(any::<u16>(), 0..=6),
        prop::option::weighted(0.3, any::<u16>()),
        prop::option::weighted(0.15, any::<u16>()),
    )
        .prop_map(|(space, ecn, persistent, picks, sent_sel, bytes_frac)| Op::Congestion {
            space,
            ecn,
            persistent,
            picks,
            sent_sel,
            bytes_frac,
        });
    let forget = prop::collection::vec(any::<u16>(), 1..=6).prop_map(|picks| Op::Forget { picks });
    prop_oneof![
        30 => send,
        16 => adv,
        26 => ack,
        2 => endacks,
        10 => cong,
        3 => Just(Op::Spurious),
        8 => arb_mtu().prop_map(Op::Mtu),
        2 => Just(Op::CloneBox),
        1 => forget,
    ]
}

fn arb_iw() -> impl Strategy<Value = Iw> {
    prop_oneof![
        6 => Just(Iw::Default),
        2 => Just(Iw::TwoMtu),
        1 => (0u16..=3000).prop_map(Iw::TwoMtuPlus),
        1 => Just(Iw::TenMtu),
        2 => (18u8..=62).prop_map(Iw::Pow2),
    ]
}

/// Histories of the main sub-check. Construction MTU: for the default initial window of Cubic and
/// NewReno only [1200, 6000] (see `run_init`), otherwise [1200, 65527] with the initial window
/// raised to at least two datagrams.
pub fn arb_hist(max_ops: usize) -> impl Strategy<Value = CcHist> {
    (
        prop_oneof![Just(Kind::Cubic), Just(Kind::NewReno), Just(Kind::Bbr)],
        arb_iw(),
        prop_oneof![6 => Just(0u8), 4 => 0u8..LRF.len() as u8],
        prop_oneof![
            5 => Just(333_000u32),
            1 => Just(0u32),
            2 => 1u32..1_000,
            3 => 1_000u32..1_000_000,
            1 => 1_000_000u32..20_000_000,
        ],
    )
        .prop_flat_map(move |(kind, iw, lrf, initial_rtt_us)| {
            // every construction MTU for which the chosen initial window is inside the domain
            let hi = match iw {
                Iw::Default => (kind.default_iw() / 2).min(MAX_MTU as u64) as u16,
                Iw::Pow2(n) => ((1u64 << n.clamp(18, 62)) / 2).min(MAX_MTU as u64) as u16,
                _ => MAX_MTU,
            };
            let mtu0 = prop_oneof![
                4 => MIN_MTU..=1500u16.min(hi),
                3 => MIN_MTU..=9000u16.min(hi),
                3 => MIN_MTU..=hi,
            ];
            (mtu0, prop::collection::vec(arb_op(), 1..=max_ops))
                .prop_map(move |(mtu0, ops)| CcHist { kind, mtu0, iw, lrf, initial_rtt_us, ops })
        })
}

// ---------------------------------------------------------------------------------------------
// Executor
// ---------------------------------------------------------------------------------------------

fn base() -> Instant {
    static BASE: OnceLock<Instant> = OnceLock::new();
    *BASE.get_or_init(Instant::now)
}

fn at(ns: u64) -> Instant {
    base() + Duration::from_nanos(ns)
}

pub fn build(kind: Kind, iw: Iw, lrf: u8, mtu0: u16, now: Instant) -> Box<dyn Controller> {
    let w0 = iw.value(kind, mtu0);
    match kind {
        Kind::Cubic => {
            let mut c = CubicConfig::default();
            if iw != Iw::Default {
                c.initial_window(w0);
            }
            Arc::new(c).build(now, mtu0)
        }
        Kind::NewReno => {
            let mut c = NewRenoConfig::default();
            if iw != Iw::Default {
                c.initial_window(w0);
            }
            let f = LRF[(lrf as usize).min(LRF.len() - 1)];
            if lrf != 0 {
                c.loss_reduction_factor(f);
            }
            Arc::new(c).build(now, mtu0)
        }
        Kind::Bbr => {
            let mut c = BbrConfig::default();
            if iw != Iw::Default {
                c.initial_window(w0);
            }
            Arc::new(c).build(now, mtu0)
        }
    }
}

#[derive(Debug, Clone, Copy)]
struct Pkt {
    space: u8,
    pn: u64,
    size: u64,
    sent_ns: u64,
}

fn pick(p: u16, len: usize) -> usize {
    // monotone in `p` so that shrinking `p` moves towards index 0
    (p as usize * len) >> 16
}

struct Run<'a> {
    v: &'a CcHist,
    cc: Box<dyn Controller>,
    mtu: u16,
    w0: u64,
    calls: u64,
    /// an `on_congestion_event` with lost_bytes > 0 has been delivered (part of the signature, so
    /// that a known finding which needs loss recovery does not mask failures without any loss)
    loss_seen: bool,
    min_ratio_x100: u64,
    trace: Vec<String>,
    step: &'a Cell<usize>,
    what: &'a Cell<&'static str>,
    /// Asked with the signature of a window violation: true = a listed known finding; the history
    /// then continues (the violation is not fatal to the controller) instead of ending there.
    tolerate: &'a dyn Fn(&str) -> bool,
    /// window() has been below the floor since a tolerated violation (not reported again)
    episode: bool,
    tolerated: u64,
}

fn quinn_panic(p: PanicInfo, ctx: String) -> CaseOut {
    // Only quinn code (and what it calls) runs inside the guarded sections, so every panic caught
    // there is attributed to the code under test, wherever the panic site happens to be.
    if p.in_quinn() {
        let mut c = panic_to_case(p, true);
        if let Verdict::Fail { msg, .. } = &mut c.verdict {
            msg.push('\n');
            msg.push_str(&ctx);
        }
        c
    } else {
        let f = p.file.rsplit('/').take(3).collect::<Vec<_>>().into_iter().rev().collect::<Vec<_>>().join("/");
        CaseOut::fail(format!("panic@{}:{}", f, p.line), format!("panic below a controller call at {}:{}: {}\n{}", p.file, p.line, p.msg, ctx))
    }
}

impl<'a> Run<'a> {
    fn ctx(&self) -> String {
        let n = self.trace.len();
        let tail = self.trace[n.saturating_sub(40)..].join("\n  ");
        format!(
            "controller={} ctor_mtu={} iw={:?} (={}) lrf={} initial_rtt_us={} current_mtu={}\nlast calls:\n  {}",
            self.v.kind.name(),
            self.v.mtu0,
            self.v.iw,
            self.w0,
            if self.v.kind == Kind::NewReno { format!("{}", LRF[(self.v.lrf as usize).min(LRF.len() - 1)]) } else { "-".into() },
            self.v.initial_rtt_us,
            self.mtu,
            tail
        )
    }

    /// The oracle, evaluated after construction and after every call
    fn check(&mut self, call: &'static str) -> Result<(), CaseOut> {
        self.calls += 1;
        self.what.set("window/clone_box/initial_window");
        let (w, cw, iw) = match catch(|| {
            let w = self.cc.window();
            let c = self.cc.clone_box();
            (w, c.window(), self.cc.initial_window())
        }) {
            Ok(x) => x,
            Err(p) => return Err(quinn_panic(p, self.ctx())),
        };
        if let Some(l) = self.trace.last_mut() {
            l.push_str(&format!(" -> window={w}"));
        }
        let floor = 2 * self.mtu as u64;
        if w < floor {
            if !self.episode {
                let sig = format!("c12/window-below-2mtu/{}/{}/{}", self.v.kind.name(), call, if self.loss_seen { "after-loss" } else { "no-loss" });
                if !(self.tolerate)(&sig) {
                    return Err(CaseOut::fail(sig, format!("after {call}: window() = {w} < 2 * {} = {floor}\n{}", self.mtu, self.ctx())));
                }
                self.episode = true;
                self.tolerated += 1;
            }
        } else {
            self.episode = false;
        }
        if cw != w {
            return Err(CaseOut::fail(
                format!("c12/clone-window-mismatch/{}", self.v.kind.name()),
                format!("after {call}: clone_box().window() = {cw} but window() = {w}\n{}", self.ctx()),
            ));
        }
        if iw != self.w0 {
            return Err(CaseOut::fail(
                format!("c12/initial-window-changed/{}", self.v.kind.name()),
                format!("after {call}: initial_window() = {iw}, configured {}\n{}", self.w0, self.ctx()),
            ));
        }
        if !self.episode {
            self.min_ratio_x100 = self.min_ratio_x100.min(w.saturating_mul(100) / floor);
        }
        Ok(())
    }

    fn call(&mut self, name: &'static str, desc: String, f: impl FnOnce(&mut dyn Controller)) -> Result<(), CaseOut> {
        self.trace.push(format!("#{} {}", self.step.get(), desc));
        self.what.set(name);
        let cc = &mut self.cc;
        if let Err(p) = catch(|| f(cc.as_mut())) {
            return Err(quinn_panic(p, self.ctx()));
        }
        self.check(name)
    }
}

/// Replay entry point: every violation is reported
pub fn case_hist(v: &CcHist) -> CaseOut {
    case_hist_tolerating(v, &|_| false)
}

/// `tolerate(sig)` decides whether a window violation is a listed known finding (see `Run::tolerate`)
pub fn case_hist_tolerating(v: &CcHist, tolerate: &dyn Fn(&str) -> bool) -> CaseOut {
    let step = Cell::new(0usize);
    let what = Cell::new("build");
    let r = catch(|| exec(v, &step, &what, tolerate));
    match r {
        Ok(o) => o,
        // a panic outside the guarded sections is a harness bug
        Err(p) => CaseOut::inconclusive(format!("harness panic at {}:{} (op #{}, {}): {}", p.file, p.line, step.get(), what.get(), p.msg)),
    }
}

fn exec(v: &CcHist, step: &Cell<usize>, what: &Cell<&'static str>, tolerate: &dyn Fn(&str) -> bool) -> CaseOut {
    let mtu0 = v.mtu0.clamp(MIN_MTU, MAX_MTU);
    let w0 = v.iw.value(v.kind, mtu0);
    if w0 < 2 * mtu0 as u64 {
        // kept out of this sub-check by construction (see `run_init`); only reachable through a
        // hand-edited replay file
        return CaseOut::discard("configured initial window below two datagrams: covered by c12b-init");
    }
    let cc = match catch(|| build(v.kind, v.iw, v.lrf, mtu0, at(0))) {
        Ok(c) => c,
        Err(p) => return quinn_panic(p, format!("in build() kind={:?} mtu={mtu0}", v.kind)),
    };
    let mut rtt = RttEstimator::verif_new(Duration::from_micros(v.initial_rtt_us as u64));
    let mut r = Run { v, cc, mtu: mtu0, w0, calls: 0, loss_seen: false, min_ratio_x100: u64::MAX, trace: vec![format!("build(mtu={mtu0})")], step, what, tolerate, episode: false, tolerated: 0 };
    if let Err(c) = r.check("build") {
        return c;
    }

    let mut now: u64 = 0;
    let mut out: Vec<Pkt> = vec![];
    let mut next_pn = [0u64; 3];
    let mut largest_acked: [Option<u64>; 3] = [None; 3];
    let mut largest_acked_sent = [0u64; 3];
    let mut all_sent: Vec<u64> = vec![];
    let mut n_cong = 0u32;
    let mut n_mtu_change = 0u32;
    let mut lab: BTreeMap<&'static str, ()> = BTreeMap::new();

    macro_rules! tr {
        ($e:expr) => {
            if let Err(c) = $e {
                return c;
            }
        };
    }
    let in_flight = |out: &Vec<Pkt>, f: Option<u16>| -> u64 {
        let total: u64 = out.iter().map(|p| p.size).sum();
        match f {
            None => total,
            Some(f) => ((total as u128 * f as u128) >> 16) as u64,
        }
    };

    for (i, op) in v.ops.iter().enumerate() {
        step.set(i);
        match op {
            Op::Send { space, sizes, announce } => {
                let s = (*space).min(2) as usize;
                let mut total = 0u64;
                let mut last = 0u64;
                for f in sizes {
                    let size = 1 + ((*f as u64 * r.mtu as u64) >> 16);
                    let pn = next_pn[s];
                    next_pn[s] += 1;
                    out.push(Pkt { space: s as u8, pn, size, sent_ns: now });
                    all_sent.push(now);
                    total += size;
                    last = pn;
                }
                if *announce {
                    let t = at(now);
                    tr!(r.call("on_sent", format!("t={now}ns on_sent(bytes={total}, last_pn={last}) space={s}"), |c| c.on_sent(t, total, last)));
                } else {
                    lab.insert("tracked-without-on_sent", ());
                }
            }
            Op::Advance { ns } => {
                now = now.saturating_add(*ns).min(1 << 60);
            }
            Op::Ack { space, picks, app_limited, ack_delay_us, rtt_free_us, mtu_at, end, inflight } => {
                let s = (*space).min(2);
                let mut cand: Vec<usize> = (0..out.len()).filter(|&j| out[j].space == s).collect();
                if cand.is_empty() {
                    continue;
                }
                let mut acked: Vec<Pkt> = vec![];
                let mut gone: Vec<usize> = vec![];
                for p in picks {
                    if cand.is_empty() {
                        break;
                    }
                    let j = cand.remove(pick(*p, cand.len()));
                    acked.push(out[j]);
                    gone.push(j);
                }
                gone.sort_unstable();
                for j in gone.into_iter().rev() {
                    out.remove(j);
                }
                let t = at(now);
                let mut new_largest: Option<Pkt> = None;
                for (k, p) in acked.iter().enumerate() {
                    if let Some((at_k, m)) = mtu_at {
                        if *at_k as usize == k {
                            let m = (*m).clamp(MIN_MTU, MAX_MTU);
                            if m != r.mtu {
                                n_mtu_change += 1;
                                lab.insert(if m > r.mtu { "mtu-up" } else { "mtu-down" }, ());
                            }
                            lab.insert("mtu-update-inside-ack", ());
                            r.mtu = m;
                            tr!(r.call("on_mtu_update", format!("t={now}ns on_mtu_update({m}) [inside ack]"), |c| c.on_mtu_update(m)));
                        }
                    }
                    let sent = at(p.sent_ns);
                    let (bytes, al) = (p.size, *app_limited);
                    let rt = &rtt;
                    tr!(r.call(
                        "on_ack",
                        format!("t={now}ns on_ack(sent={}ns, bytes={bytes}, app_limited={al}, rtt={:?}/min {:?}) pn={}", p.sent_ns, rt.get(), rt.min(), p.pn),
                        |c| c.on_ack(t, sent, bytes, al, rt)
                    ));
                    if largest_acked[s as usize].is_none_or(|l| p.pn > l) && new_largest.is_none_or(|n| p.pn > n.pn) {
                        new_largest = Some(*p);
                    }
                }
                if let Some(n) = new_largest {
                    largest_acked[s as usize] = Some(n.pn);
                    largest_acked_sent[s as usize] = n.sent_ns;
                }
                if *end {
                    let fl = in_flight(&out, *inflight);
                    let (al, la) = (*app_limited, largest_acked[s as usize]);
                    tr!(r.call("on_end_acks", format!("t={now}ns on_end_acks(in_flight={fl}, app_limited={al}, largest_acked={la:?})"), |c| c
                        .on_end_acks(t, fl, al, la)));
                }
                if let Some(n) = new_largest {
                    let sample = match rtt_free_us {
                        Some(us) => {
                            lab.insert("free-rtt-sample", ());
                            Duration::from_micros(*us as u64)
                        }
                        None => Duration::from_nanos(now - n.sent_ns),
                    };
                    let delay = Duration::from_micros(*ack_delay_us as u64);
                    what.set("RttEstimator::update");
                    if let Err(p) = catch(|| rtt.verif_update(delay, sample)) {
                        return quinn_panic(p, r.ctx());
                    }
                }
                if *app_limited {
                    lab.insert("app-limited-ack", ());
                }
            }
            Op::EndAcks { space, app_limited, inflight } => {
                let s = (*space).min(2) as usize;
                let t = at(now);
                let fl = in_flight(&out, *inflight);
                let (al, la) = (*app_limited, largest_acked[s]);
                tr!(r.call("on_end_acks", format!("t={now}ns on_end_acks(in_flight={fl}, app_limited={al}, largest_acked={la:?}) [stray]"), |c| c
                    .on_end_acks(t, fl, al, la)));
            }
            Op::Congestion { space, ecn, persistent, picks, sent_sel, bytes_frac } => {
                let s = (*space).min(2);
                let before: u64 = out.iter().map(|p| p.size).sum();
                let mut lost_bytes = 0u64;
                let mut largest_lost: Option<Pkt> = None;
                if !*ecn {
                    let mut cand: Vec<usize> = (0..out.len()).filter(|&j| out[j].space == s).collect();
                    let mut gone: Vec<usize> = vec![];
                    for p in picks {
                        if cand.is_empty() {
                            break;
                        }
                        let j = cand.remove(pick(*p, cand.len()));
                        lost_bytes += out[j].size;
                        if largest_lost.is_none_or(|l| out[j].pn > l.pn) {
                            largest_lost = Some(out[j]);
                        }
                        gone.push(j);
                    }
                    gone.sort_unstable();
                    for j in gone.into_iter().rev() {
                        out.remove(j);
                    }
                }
                if let (Some(f), false) = (bytes_frac, *ecn) {
                    lost_bytes = ((before as u128 * *f as u128) >> 16) as u64;
                }
                let sent_ns = match sent_sel {
                    Some(i) if !all_sent.is_empty() => all_sent[pick(*i, all_sent.len())],
                    _ => match (ecn, largest_lost) {
                        (false, Some(l)) => l.sent_ns,
                        _ => largest_acked_sent[s as usize],
                    },
                };
                let (t, sent, pc, e) = (at(now), at(sent_ns), *persistent && !*ecn, *ecn);
                n_cong += 1;
                lab.insert(if e { "ecn-event" } else { "loss-event" }, ());
                if pc {
                    lab.insert("persistent-congestion", ());
                }
                r.loss_seen |= lost_bytes > 0;
                tr!(r.call(
                    "on_congestion_event",
                    format!("t={now}ns on_congestion_event(sent={sent_ns}ns, persistent={pc}, ecn={e}, lost_bytes={lost_bytes})"),
                    |c| c.on_congestion_event(t, sent, pc, e, lost_bytes)
                ));
            }
            Op::Spurious => {
                lab.insert("spurious", ());
                tr!(r.call("on_spurious_congestion_event", format!("t={now}ns on_spurious_congestion_event()"), |c| c.on_spurious_congestion_event()));
            }
            Op::Mtu(m) => {
                let m = (*m).clamp(MIN_MTU, MAX_MTU);
                if m != r.mtu {
                    n_mtu_change += 1;
                    lab.insert(if m > r.mtu { "mtu-up" } else { "mtu-down" }, ());
                }
                r.mtu = m;
                tr!(r.call("on_mtu_update", format!("t={now}ns on_mtu_update({m})"), |c| c.on_mtu_update(m)));
            }
            Op::CloneBox => {
                lab.insert("clone_box-continue", ());
                what.set("clone_box");
                let c = match catch(|| r.cc.clone_box()) {
                    Ok(c) => c,
                    Err(p) => return quinn_panic(p, r.ctx()),
                };
                r.cc = c;
                r.trace.push(format!("#{i} t={now}ns clone_box() [continue with the clone]"));
                tr!(r.check("clone_box"));
            }
            Op::Forget { picks } => {
                for p in picks {
                    if out.is_empty() {
                        break;
                    }
                    out.remove(pick(*p, out.len()));
                }
                lab.insert("forget", ());
            }
        }
    }

    lab.insert(v.kind.name(), ());
    if v.mtu0 > MAX_DEFAULT_CTOR_MTU {
        lab.insert("ctor-mtu>6000", ());
    }
    if v.iw != Iw::Default {
        lab.insert("iw-configured", ());
    }
    if v.kind == Kind::NewReno && v.lrf != 0 {
        lab.insert("lrf-configured", ());
    }
    if r.tolerated > 0 {
        lab.insert("continued-past-known-finding", ());
    }
    let nontrivial = n_cong >= 1 && n_mtu_change >= 1 && r.calls >= 20;
    CaseOut {
        verdict: Verdict::Pass,
        labels: lab.into_keys().collect(),
        nontrivial,
        summary: Some(json!({
            "controller": v.kind.name(),
            "ctor_mtu": v.mtu0,
            "initial_window": w0,
            "ops": v.ops.len(),
            "checked_calls": r.calls,
            "congestion_events": n_cong,
            "mtu_changes": n_mtu_change,
            "final_mtu": r.mtu,
            "min_window_over_2mtu_x100": r.min_ratio_x100,
        })),
    }
}

/// Replay / evaluation of one default-config construction
pub fn case_init(v: &InitCase) -> CaseOut {
    let mtu0 = v.mtu0.clamp(MIN_MTU, MAX_MTU);
    let r = catch(|| {
        let c = build(v.kind, Iw::Default, 0, mtu0, at(0));
        (c.window(), c.initial_window())
    });
    match r {
        Err(p) => quinn_panic(p, format!("in build() kind={:?} mtu={mtu0}", v.kind)),
        Ok((w, iw)) => {
            if w < 2 * mtu0 as u64 {
                CaseOut::fail(
                    "c12/initial-window-below-2mtu",
                    format!(
                        "{} built with the default config at current_mtu={mtu0}: window() = {w} (initial_window() = {iw}) < 2 * {mtu0} = {} before any event",
                        v.kind.name(),
                        2 * mtu0 as u64
                    ),
                )
            } else {
                CaseOut::pass()
            }
        }
    }
}

/// Enumerates every construction MTU for the three default configs. Everything in [1200, 6000] is
/// asserted under the main signature family; (6000, 65527] is reported once per controller under
/// `c12/initial-window-below-2mtu` with the smallest failing MTU.
pub fn run_init(report: &Report) {
    let name = "c12b-init";
    if !report.wants(name) {
        return;
    }
    let t0 = Instant::now();
    let mut classes: BTreeMap<String, u64> = BTreeMap::new();
    let mut evals = 0u64;
    let mut samples = vec![];
    for kind in [Kind::Cubic, Kind::NewReno, Kind::Bbr] {
        let mut first_bad: Option<(u16, String)> = None;
        let mut bad = 0u64;
        for mtu0 in MIN_MTU..=MAX_MTU {
            evals += 1;
            let out = case_init(&InitCase { kind, mtu0 });
            if let Verdict::Fail { sig, msg } = out.verdict {
                if mtu0 <= MAX_DEFAULT_CTOR_MTU || sig != "c12/initial-window-below-2mtu" {
                    // inside the asserted domain, or a panic: a plain violation
                    report.fail_direct(name, &sig, msg, serde_json::to_value(InitCase { kind, mtu0 }).unwrap());
                    break;
                }
                bad += 1;
                if first_bad.is_none() {
                    first_bad = Some((mtu0, msg));
                }
            }
        }
        *classes.entry(format!("{}:ctor-mtu-with-window-below-2mtu", kind.name())).or_insert(0) += bad;
        samples.push(json!({"controller": kind.name(), "ctor_mtus_with_initial_window_below_2mtu": bad, "smallest": first_bad.as_ref().map(|x| x.0)}));
        if let Some((mtu0, msg)) = first_bad {
            report.note(format!(
                "[{name}] {}: default-config window() < 2*mtu at construction for {bad} construction MTUs, smallest {mtu0}",
                kind.name()
            ));
            report.fail_direct(
                name,
                "c12/initial-window-below-2mtu",
                format!("{msg}\n(holds for all {bad} construction MTUs in {mtu0}..={MAX_MTU}; [1200, 6000] is fine)"),
                serde_json::to_value(InitCase { kind, mtu0 }).unwrap(),
            );
        }
    }
    report.add_sub(SubStats {
        name: name.into(),
        rule: "every construction MTU 1200..=65527 x {Cubic, NewReno, Bbr} default config: window() >= 2*mtu right after build(); (6000, 65527] reported under c12/initial-window-below-2mtu".into(),
        evaluations: evals,
        distinct_nontrivial: evals,
        exhaustive: true,
        classes,
        samples,
        wall_s: t0.elapsed().as_secs_f64(),
        ..Default::default()
    });
}

pub const RULE: &str = "proptest-generated connection-shaped call histories (<= 200 ops: transmit batches, clock advances incl. 0 and sub-microsecond, ACKs of any outstanding subset in any order with mid-ACK MTU raise, end_acks, loss/ECN/persistent congestion events, spurious events, MTU updates in [1200, 65527] up and down, clone_box continue, abandoned packets) x {Cubic, NewReno, Bbr} x initial_window/loss_reduction_factor knobs x construction MTU; oracle after build and after every call: window() >= 2*current MTU, clone_box().window() == window(), initial_window() constant, no panic (overflow included); non-trivial = >= 1 congestion event and >= 1 MTU change and >= 20 checked calls";

pub fn run_sub(report: &Report) {
    report.assume("C12b: controller histories are connection-shaped (sizes <= MTU at send time, monotone clock, sent times of real packets); initial_window knob >= 2 * construction MTU");
    report.assume("C12b: default-config Cubic/NewReno construction MTUs above 6000 are reported separately (c12/initial-window-below-2mtu), not asserted in the history sub-check");
    run_init(report);
    // Window violations that are listed known findings are counted and the history continues, so
    // that a known defect does not hide what lies behind it (panics still end the history).
    let tolerate = |sig: &str| {
        let known = report.is_known(sig);
        if known {
            *report.known_hits.lock().unwrap().entry(sig.to_string()).or_insert(0) += 1;
        }
        known
    };
    run_prop(report, "c12b", RULE, || arb_hist(200), report.cases(200_000, 20_000_000), |v| case_hist_tolerating(v, &tolerate));
}
