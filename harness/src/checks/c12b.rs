//! placeholder until the controller-history check is wired in
pub fn run_sub(_report: &crate::core::Report) {}
