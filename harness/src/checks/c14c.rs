//! C14c — token stores: the server-side token log never accepts a NEW_TOKEN token twice, the
//! client-side token cache hands out each stored token at most once.
//!
//! Model-based call histories against `BloomTokenLog`, `NoneTokenLog`, `TokenMemoryCache` and
//! `NoneTokenStore` through the public `TokenLog` / `TokenStore` traits.
//!
//! Contract used for `BloomTokenLog` (module docs of `bloom_token_log.rs` and the `TokenLog` trait):
//! false positives (`Err` for a token never used) are allowed, false negatives are not, as long as
//! the caller behaves like `IncomingToken::from_header`: one fixed `lifetime` per log, a clock that
//! never goes backwards, and every presented token satisfies `issued <= now <= issued + lifetime`
//! (expired tokens are rejected before the log is consulted, tokens are issued by the server's own
//! clock). Under exactly these conditions `Ok(())` must never be returned twice for one nonce.

use crate::core::*;
use bytes::Bytes;
use proptest::prelude::*;
use quinn_proto::{BloomTokenLog, NoneTokenLog, NoneTokenStore, TokenLog, TokenMemoryCache, TokenStore};
use serde::{Deserialize, Serialize};
use serde_json::json;
use std::collections::{BTreeMap, HashMap, HashSet, VecDeque};
use std::sync::atomic::{AtomicU64, Ordering};
use std::time::{Duration, UNIX_EPOCH};

// ---------------------------------------------------------------------------------------------
// Token log
// ---------------------------------------------------------------------------------------------

#[derive(Debug, Clone, Copy, PartialEq, Eq, Serialize, Deserialize)]
pub enum LogCtor {
    /// `BloomTokenLog::default()`
    Default,
    /// `BloomTokenLog::new_expected_items(max_bytes, hits)`
    Expected { max_bytes: u64, hits: u64 },
    /// `BloomTokenLog::new(max_bytes, k)`
    K { max_bytes: u64, k: u32 },
    /// `NoneTokenLog`
    NoneLog,
}

#[derive(Debug, Clone, Serialize, Deserialize)]
pub enum LOp {
    /// now += lifetime * n / 64 (+ 1 ns when `plus1`)
    Advance { n: u16, plus1: bool },
    /// Present a token never seen before: issued = now - age/65536 * lifetime (not before the epoch).
    /// `collide`: reuse the low 64 bits of an earlier nonce with different high bits.
    Fresh { age: u16, collide: Option<u16> },
    /// Present an earlier token again (skipped when it has expired meanwhile)
    Reuse { sel: u16 },
}

#[derive(Debug, Clone, Serialize, Deserialize)]
pub struct LogHist {
    pub ctor: LogCtor,
    pub lifetime_ns: u64,
    /// clock value of the first call, nanoseconds after the Unix epoch
    pub start_ns: u64,
    /// issue times with nanosecond resolution (the token codec only produces whole seconds)
    pub subsec_issued: bool,
    /// nonces are a pure function of (salt, index)
    pub salt: u64,
    pub ops: Vec<LOp>,
}

fn arb_bytes() -> impl Strategy<Value = u64> {
    prop_oneof![
        1 => Just(0u64),
        1 => Just(1u64),
        3 => 2u64..=128,
        4 => 129u64..=4096,
        2 => 4097u64..=(1 << 20),
        1 => Just(10u64 << 20),
        1 => Just(u64::MAX),
    ]
}

fn arb_ctor() -> impl Strategy<Value = LogCtor> {
    prop_oneof![
        1 => Just(LogCtor::Default),
        8 => (arb_bytes(), prop_oneof![1 => Just(0u64), 2 => 1u64..=16, 3 => 17u64..=2000, 1 => Just(1_000_000u64), 1 => Just(u64::MAX)])
            .prop_map(|(max_bytes, hits)| LogCtor::Expected { max_bytes, hits }),
        5 => (arb_bytes(), prop_oneof![1 => Just(0u32), 4 => 1u32..=8, 3 => 9u32..=64, 1 => 65u32..=600])
            .prop_map(|(max_bytes, k)| LogCtor::K { max_bytes, k }),
        1 => Just(LogCtor::NoneLog),
    ]
}

fn arb_lifetime() -> impl Strategy<Value = u64> {
    const S: u64 = 1_000_000_000;
    prop_oneof![
        1 => Just(0u64),
        1 => Just(1u64),
        1 => 2u64..1_000,
        1 => 1_000u64..S,
        2 => Just(S),
        3 => (2u64..100_000).prop_map(|s| s * S),
        2 => S..(100_000 * S),
        2 => Just(14 * 86_400 * S),
        1 => Just(10 * 365 * 86_400 * S),
    ]
}

fn arb_lop() -> impl Strategy<Value = LOp> {
    prop_oneof![
        20 => (prop_oneof![3 => Just(0u16), 6 => 0u16..=8, 6 => 0u16..=64, 3 => 0u16..=160, 1 => 0u16..=400], prop::bool::weighted(0.1))
            .prop_map(|(n, plus1)| LOp::Advance { n, plus1 }),
        50 => (prop_oneof![2 => Just(0u16), 6 => any::<u16>(), 1 => Just(u16::MAX)], prop::option::weighted(0.03, any::<u16>()))
            .prop_map(|(age, collide)| LOp::Fresh { age, collide }),
        30 => any::<u16>().prop_map(|sel| LOp::Reuse { sel }),
    ]
}

pub fn arb_log_hist(max_ops: usize) -> impl Strategy<Value = LogHist> {
    (
        arb_ctor(),
        arb_lifetime(),
        prop_oneof![
            1 => Just(0u64),
            1 => 0u64..5_000_000_000,
            6 => (1_600_000_000u64..1_900_000_000, 0u64..1_000_000_000).prop_map(|(s, n)| s * 1_000_000_000 + n),
        ],
        prop::bool::weighted(0.3),
        any::<u64>(),
        prop::collection::vec(arb_lop(), 1..=max_ops),
    )
        .prop_map(|(ctor, lifetime_ns, start_ns, subsec_issued, salt, ops)| LogHist { ctor, lifetime_ns, start_ns, subsec_issued, salt, ops })
}

/// Aggregated positive-control counters of one sub-check run
#[derive(Default)]
pub struct LogStats {
    /// first-use presentations while the mirrored period filter is an exact set
    pub set_first: AtomicU64,
    pub set_fp: AtomicU64,
    /// first-use presentations while the mirrored period filter is a bloom filter
    pub bloom_first: AtomicU64,
    pub bloom_fp: AtomicU64,
    /// sum of the theoretical false-positive probabilities of those presentations, in 1e-9 units
    pub bloom_fp_expected_e9: AtomicU64,
    /// first-use presentations of tokens that expire before the log's first period (always refused)
    pub stale_first: AtomicU64,
    pub reuse_presented: AtomicU64,
}

/// Mirror of one period filter: only used to classify outcomes (set / bloom, period roll-over)
#[derive(Default)]
struct MFilter {
    set: HashSet<u64>,
    bloomed: bool,
}

impl MFilter {
    /// returns (was present, is bloom at query time)
    fn touch(&mut self, fp: u64, filter_max_bytes: u128) -> (bool, bool) {
        let was_bloom = self.bloomed;
        let present = !self.set.insert(fp);
        if !self.bloomed && !present && (self.set.capacity() as u128) * 8 > filter_max_bytes {
            self.bloomed = true;
        }
        (present, was_bloom)
    }
}

struct Tok {
    nonce: u128,
    issued_ns: u64,
    presented_ns: u64,
    accepted_at: Option<usize>,
}

fn panic_fail(p: PanicInfo, ctx: String) -> CaseOut {
    // only the store under test (and its dependencies) runs inside the guarded sections
    if p.in_quinn() {
        let mut c = panic_to_case(p, true);
        if let Verdict::Fail { msg, .. } = &mut c.verdict {
            msg.push('\n');
            msg.push_str(&ctx);
        }
        c
    } else {
        let f = p.file.rsplit('/').take(3).collect::<Vec<_>>().into_iter().rev().collect::<Vec<_>>().join("/");
        CaseOut::fail(format!("panic@{}:{}", f, p.line), format!("panic below a store call at {}:{}: {}\n{}", p.file, p.line, p.msg, ctx))
    }
}

pub fn case_log(v: &LogHist) -> CaseOut {
    log_exec(v, None)
}

fn usize_of(x: u64) -> usize {
    usize::try_from(x).unwrap_or(usize::MAX)
}

fn log_exec(v: &LogHist, stats: Option<&LogStats>) -> CaseOut {
    let describe = |what: &str| format!("{what}\nlog={:?} lifetime={}ns start={}ns subsec_issued={}", v.ctor, v.lifetime_ns, v.start_ns, v.subsec_issued);
    let built = catch(|| -> (Box<dyn TokenLog>, u128, u32) {
        match v.ctor {
            LogCtor::Default => (Box::new(BloomTokenLog::default()), (10u128 << 20) / 2, 58),
            LogCtor::Expected { max_bytes, hits } => {
                let mb = usize_of(max_bytes);
                let bits = (mb as u64).saturating_mul(8);
                let k = (((bits as f64 / hits.max(1) as f64) * std::f64::consts::LN_2).round() as u32).max(1);
                (Box::new(BloomTokenLog::new_expected_items(mb, hits)), (mb / 2) as u128, k)
            }
            LogCtor::K { max_bytes, k } => {
                let mb = usize_of(max_bytes);
                (Box::new(BloomTokenLog::new(mb, k)), (mb / 2) as u128, k.max(1))
            }
            LogCtor::NoneLog => (Box::new(NoneTokenLog), u128::MAX, 1),
        }
    });
    let (log, filter_max_bytes, k) = match built {
        Ok(x) => x,
        Err(p) => return panic_fail(p, describe("while constructing the log")),
    };
    let is_none_log = v.ctor == LogCtor::NoneLog;
    // bloom geometry for the theoretical false-positive rate (bits are rounded up to 64)
    let m_bits = ((filter_max_bytes.min(1 << 40) as f64 * 8.0).max(1.0) / 64.0).ceil() * 64.0;
    let l = v.lifetime_ns;
    let lifetime = Duration::from_nanos(l);
    const S: u64 = 1_000_000_000;

    let mut now = v.start_ns;
    let mut toks: Vec<Tok> = vec![];
    let mut first_live = 0usize;
    let mut by_nonce: HashMap<u128, usize> = HashMap::new();
    // mirror of the period structure
    let mut p1: u128 = 0; // period_1_start in ns since epoch
    let mut f1 = MFilter::default();
    let mut f2 = MFilter::default();
    let mut calls = 0u64;
    let mut n_ok = 0u64;
    let mut n_reuse = 0u64;
    let mut n_reuse_ok_first = 0u64;
    let mut rolled_one = 0u64;
    let mut rolled_both = 0u64;
    let mut bloomed_seen = false;
    let mut stale = 0u64;
    let mut fp_set = 0u64;
    let mut fp_bloom = 0u64;
    let mut skipped = 0u64;
    let mut lab: BTreeMap<&'static str, ()> = BTreeMap::new();

    for (i, op) in v.ops.iter().enumerate() {
        let (nonce, issued_ns, first_use) = match op {
            LOp::Advance { n, plus1 } => {
                let dt = (l as u128 * *n as u128 / 64) as u64;
                now = now.saturating_add(dt).saturating_add(*plus1 as u64).min(1 << 62);
                continue;
            }
            LOp::Fresh { age, collide } => {
                let age_ns = ((l as u128 * *age as u128) >> 16) as u64;
                let mut issued = now.saturating_sub(age_ns.min(l));
                if !v.subsec_issued {
                    issued -= issued % S;
                }
                // the caller only consults the log for tokens that have not expired
                if issued.saturating_add(l) < now {
                    skipped += 1;
                    continue;
                }
                let idx = toks.len() as u64;
                let lo = mix(v.salt, idx);
                let hi = mix(v.salt ^ 0x5bd1e995, idx);
                let mut nonce = ((hi as u128) << 64) | lo as u128;
                if let Some(c) = collide {
                    if !toks.is_empty() {
                        let other = toks[(*c as usize * toks.len()) >> 16].nonce;
                        nonce = ((hi as u128) << 64) | (other as u64 as u128);
                        lab.insert("fingerprint-collision", ());
                    }
                }
                if by_nonce.contains_key(&nonce) {
                    skipped += 1;
                    continue;
                }
                (nonce, issued, true)
            }
            LOp::Reuse { sel } => {
                while first_live < toks.len() && toks[first_live].presented_ns.saturating_add(l) < now {
                    first_live += 1;
                }
                let live = toks.len() - first_live;
                if live == 0 {
                    skipped += 1;
                    continue;
                }
                let t = &toks[first_live + ((*sel as usize * live) >> 16)];
                if t.issued_ns.saturating_add(l) < now {
                    skipped += 1;
                    continue;
                }
                (t.nonce, t.issued_ns, false)
            }
        };
        let issued = UNIX_EPOCH + Duration::from_nanos(issued_ns);
        calls += 1;
        let res = match catch(|| log.check_and_insert(nonce, issued, lifetime)) {
            Ok(r) => r.is_ok(),
            Err(p) => return panic_fail(p, describe(&format!("op #{i} {op:?}: check_and_insert(nonce={nonce:#x}, issued={issued_ns}ns, lifetime) at now={now}ns"))),
        };

        // ---- mirror (classification only) ----
        #[derive(PartialEq)]
        enum Class {
            Stale,
            Set,
            Bloom,
            Dup,
            None,
        }
        let mut n_in_filter = 0usize;
        let class = if is_none_log || l == 0 {
            Class::None
        } else {
            let e = issued_ns as u128 + l as u128;
            if e < p1 {
                Class::Stale
            } else {
                let pf = (e - p1) / l as u128;
                let f = match pf {
                    0 => &mut f1,
                    1 => &mut f2,
                    2 => {
                        f1 = std::mem::take(&mut f2);
                        p1 += l as u128;
                        rolled_one += 1;
                        &mut f2
                    }
                    _ => {
                        f1 = MFilter::default();
                        f2 = MFilter::default();
                        if calls > 1 {
                            rolled_both += 1;
                        }
                        p1 = e;
                        &mut f1
                    }
                };
                let (present, was_bloom) = f.touch(nonce as u64, filter_max_bytes);
                n_in_filter = f.set.len() - (!present) as usize;
                bloomed_seen |= f.bloomed;
                if present {
                    Class::Dup
                } else if was_bloom {
                    Class::Bloom
                } else {
                    Class::Set
                }
            }
        };

        // ---- the oracle ----
        let known = by_nonce.get(&nonce).copied();
        if res {
            n_ok += 1;
            if is_none_log {
                return CaseOut::fail("c14/none-token-log-accepted", describe(&format!("op #{i}: NoneTokenLog returned Ok")));
            }
            if let Some(j) = known {
                if let Some(first) = toks[j].accepted_at {
                    return CaseOut::fail(
                        "c14/token-log-accepted-twice",
                        describe(&format!(
                            "op #{i} {op:?}: check_and_insert returned Ok(()) for nonce {nonce:#x} (issued {issued_ns}ns, expires {}ns) at now={now}ns; the same token was already accepted by op #{first} at {}ns, and both uses are inside issued..=issued+lifetime\nmirror: period_1_start={p1}ns, {} period roll-overs (one) + {} (both) so far, bloom representation reached: {bloomed_seen}",
                            issued_ns as u128 + l as u128,
                            toks[j].presented_ns,
                            rolled_one,
                            rolled_both
                        )),
                    );
                }
                toks[j].accepted_at = Some(i);
            }
        }
        if l == 0 && res {
            return CaseOut::fail("c14/zero-lifetime-accepted", describe(&format!("op #{i}: Ok with a zero lifetime")));
        }
        if first_use {
            by_nonce.insert(nonce, toks.len());
            toks.push(Tok { nonce, issued_ns, presented_ns: now, accepted_at: res.then_some(i) });
            match class {
                Class::Stale => {
                    stale += 1;
                    if let Some(s) = stats {
                        s.stale_first.fetch_add(1, Ordering::Relaxed);
                    }
                }
                Class::Set => {
                    fp_set += !res as u64;
                    if let Some(s) = stats {
                        s.set_first.fetch_add(1, Ordering::Relaxed);
                        s.set_fp.fetch_add(!res as u64, Ordering::Relaxed);
                    }
                }
                Class::Bloom => {
                    fp_bloom += !res as u64;
                    if let Some(s) = stats {
                        let fill = 1.0 - (-(k as f64) * n_in_filter as f64 / m_bits).exp();
                        let p = fill.powf(k as f64).clamp(0.0, 1.0);
                        s.bloom_first.fetch_add(1, Ordering::Relaxed);
                        s.bloom_fp.fetch_add(!res as u64, Ordering::Relaxed);
                        s.bloom_fp_expected_e9.fetch_add((p * 1e9) as u64, Ordering::Relaxed);
                    }
                }
                Class::Dup | Class::None => {}
            }
        } else {
            n_reuse += 1;
            if let Some(s) = stats {
                s.reuse_presented.fetch_add(1, Ordering::Relaxed);
            }
            if res {
                n_reuse_ok_first += 1; // first acceptance of a token that was refused before
            }
        }
    }

    if rolled_one > 0 {
        lab.insert("rolled-one-period", ());
    }
    if rolled_both > 0 {
        lab.insert("rolled-both-periods", ());
    }
    if bloomed_seen {
        lab.insert("set->bloom", ());
    }
    if stale > 0 {
        lab.insert("stale-period-reject", ());
    }
    if fp_bloom > 0 {
        lab.insert("bloom-false-positive", ());
    }
    if fp_set > 0 {
        lab.insert("set-false-positive", ());
    }
    if n_reuse > 0 {
        lab.insert("reuse-presented", ());
    }
    if is_none_log {
        lab.insert("none-log", ());
    }
    if l == 0 {
        lab.insert("zero-lifetime", ());
    }
    if v.ops.len() > 1000 {
        lab.insert("long-history", ());
    }
    let nontrivial = !is_none_log && n_reuse > 0 && n_ok > 0 && (rolled_one + rolled_both > 0 || bloomed_seen);
    CaseOut {
        verdict: Verdict::Pass,
        labels: lab.into_keys().collect(),
        nontrivial,
        summary: Some(json!({
            "log": format!("{:?}", v.ctor),
            "lifetime_ns": l,
            "ops": v.ops.len(),
            "calls": calls,
            "accepted": n_ok,
            "reuse_presented": n_reuse,
            "reuse_first_accept_after_refusal": n_reuse_ok_first,
            "rolled_one": rolled_one,
            "rolled_both": rolled_both,
            "bloomed": bloomed_seen,
            "stale_rejects": stale,
            "fp_set": fp_set,
            "fp_bloom": fp_bloom,
            "skipped_ops": skipped,
        })),
    }
}

// ---------------------------------------------------------------------------------------------
// Token cache
// ---------------------------------------------------------------------------------------------

#[derive(Debug, Clone, Serialize, Deserialize)]
pub enum COp {
    Insert { name: u16, tok: u8, len: u8 },
    Take { name: u16 },
}

#[derive(Debug, Clone, Copy, PartialEq, Eq, Serialize, Deserialize)]
pub enum StoreKind {
    Memory,
    MemoryDefault,
    NoneStore,
}

#[derive(Debug, Clone, Serialize, Deserialize)]
pub struct CacheHist {
    pub kind: StoreKind,
    pub max_names: u32,
    pub max_tokens: u64,
    /// number of distinct server names in use (1..=64)
    pub n_names: u8,
    /// tokens are drawn from a four-letter alphabet (repeated byte strings) instead of unique
    pub repeat_bytes: bool,
    pub ops: Vec<COp>,
}

const ODD_NAMES: [&str; 6] = ["", "a", "A", "example.com", "EXAMPLE.com", "ex\u{e4}mple.\u{1f980}"];

fn server_name(i: usize) -> String {
    match ODD_NAMES.get(i) {
        Some(s) => s.to_string(),
        None if i == 6 => "x".repeat(300),
        None => format!("s{i}.example"),
    }
}

pub fn arb_cache_hist(max_ops: usize) -> impl Strategy<Value = CacheHist> {
    (
        prop_oneof![12 => Just(StoreKind::Memory), 1 => Just(StoreKind::MemoryDefault), 1 => Just(StoreKind::NoneStore)],
        prop_oneof![2 => Just(0u32), 3 => Just(1u32), 3 => Just(2u32), 6 => 3u32..=12, 1 => 13u32..=300, 1 => Just(u32::MAX)],
        prop_oneof![2 => Just(0u64), 3 => Just(1u64), 3 => Just(2u64), 4 => 3u64..=8, 1 => Just(u64::MAX)],
        1u8..=64,
        prop::bool::weighted(0.3),
        prop::collection::vec(
            prop_oneof![
                3 => (any::<u16>(), any::<u8>(), any::<u8>()).prop_map(|(name, tok, len)| COp::Insert { name, tok, len }),
                2 => any::<u16>().prop_map(|name| COp::Take { name }),
            ],
            1..=max_ops,
        ),
    )
        .prop_map(|(kind, max_names, max_tokens, n_names, repeat_bytes, ops)| CacheHist { kind, max_names, max_tokens, n_names, repeat_bytes, ops })
}

#[derive(Default)]
pub struct CacheStats {
    pub predicted_some: AtomicU64,
    pub actual_some: AtomicU64,
    pub mirror_mismatch: AtomicU64,
    pub takes: AtomicU64,
}

pub fn case_cache(v: &CacheHist) -> CaseOut {
    cache_exec(v, None)
}

fn cache_exec(v: &CacheHist, stats: Option<&CacheStats>) -> CaseOut {
    let (max_names, max_tokens) = match v.kind {
        StoreKind::MemoryDefault => (256u32, 2usize),
        _ => (v.max_names, usize_of(v.max_tokens)),
    };
    let describe = |what: &str| format!("{what}\nstore={:?} max_server_names={max_names} max_tokens_per_server={max_tokens} names={} repeat_bytes={}", v.kind, v.n_names, v.repeat_bytes);
    let store: Box<dyn TokenStore> = match catch(|| -> Box<dyn TokenStore> {
        match v.kind {
            StoreKind::Memory => Box::new(TokenMemoryCache::new(max_names, max_tokens)),
            StoreKind::MemoryDefault => Box::new(TokenMemoryCache::default()),
            StoreKind::NoneStore => Box::new(NoneTokenStore),
        }
    }) {
        Ok(s) => s,
        Err(p) => return panic_fail(p, describe("while constructing the store")),
    };
    let n_names = v.n_names.max(1) as usize;
    // reference model: per server name, how often each byte string was inserted / handed out
    let mut model: HashMap<usize, HashMap<Vec<u8>, (u64, u64)>> = HashMap::new();
    // exact mirror (oldest -> newest), used for classification and the positive control only
    let mut mirror: Vec<(usize, VecDeque<Vec<u8>>)> = vec![];
    let mut evicted_names = 0u64;
    let mut evicted_tokens = 0u64;
    let mut hits = 0u64;
    let mut takes = 0u64;
    let mut mismatch = 0u64;
    let mut history: Vec<String> = vec![];

    let do_take = |ni: usize, i: usize, drain: bool, model: &mut HashMap<usize, HashMap<Vec<u8>, (u64, u64)>>, history: &mut Vec<String>| -> Result<Option<Vec<u8>>, CaseOut> {
        let name = server_name(ni);
        let got = match catch(|| store.take(&name)) {
            Ok(g) => g.map(|b| b.to_vec()),
            Err(p) => return Err(panic_fail(p, describe(&format!("op #{i}: take({name:?})")))),
        };
        history.push(format!("#{i} take(name{ni}){} -> {:?}", if drain { " [final drain]" } else { "" }, got));
        if let Some(t) = &got {
            if v.kind == StoreKind::NoneStore {
                return Err(CaseOut::fail("c14/none-token-store-returned-token", describe(&format!("op #{i}: NoneTokenStore::take returned {t:?}"))));
            }
            let tail = || history[history.len().saturating_sub(30)..].join("\n  ");
            match model.get_mut(&ni).and_then(|m| m.get_mut(t)) {
                None => {
                    return Err(CaseOut::fail(
                        "c14/token-store-returned-foreign-token",
                        describe(&format!("op #{i}: take({name:?}) returned {t:?}, which was never inserted for that server name\n  {}", tail())),
                    ))
                }
                Some((ins, out)) => {
                    *out += 1;
                    if *out > *ins {
                        return Err(CaseOut::fail(
                            "c14/token-store-handed-out-token-twice",
                            describe(&format!("op #{i}: take({name:?}) returned {t:?} for the {}. time but it was inserted {} time(s)\n  {}", *out, *ins, tail())),
                        ));
                    }
                }
            }
        }
        Ok(got)
    };

    for (i, op) in v.ops.iter().enumerate() {
        match op {
            COp::Insert { name, tok, len } => {
                let ni = (*name as usize * n_names) >> 16;
                let bytes: Vec<u8> = if v.repeat_bytes {
                    vec![b'a' + (tok % 4); (*len % 3) as usize]
                } else {
                    let mut b = (i as u32).to_le_bytes().to_vec();
                    b.extend(std::iter::repeat(*tok).take((*len % 40) as usize));
                    b
                };
                let sname = server_name(ni);
                let b2 = Bytes::from(bytes.clone());
                if let Err(p) = catch(|| store.insert(&sname, b2)) {
                    return panic_fail(p, describe(&format!("op #{i}: insert({sname:?}, {bytes:?})")));
                }
                history.push(format!("#{i} insert(name{ni}, {bytes:?})"));
                model.entry(ni).or_default().entry(bytes.clone()).or_insert((0, 0)).0 += 1;
                // mirror
                if max_names > 0 && max_tokens > 0 && v.kind != StoreKind::NoneStore {
                    if let Some(j) = mirror.iter().position(|e| e.0 == ni) {
                        let (_, mut q) = mirror.remove(j);
                        if q.len() >= max_tokens {
                            q.pop_front();
                            evicted_tokens += 1;
                        }
                        q.push_back(bytes);
                        mirror.push((ni, q));
                    } else {
                        if mirror.len() as u64 >= max_names as u64 {
                            mirror.remove(0);
                            evicted_names += 1;
                        }
                        mirror.push((ni, VecDeque::from([bytes])));
                    }
                }
            }
            COp::Take { name } => {
                let ni = (*name as usize * n_names) >> 16;
                let got = match do_take(ni, i, false, &mut model, &mut history) {
                    Ok(g) => g,
                    Err(c) => return c,
                };
                takes += 1;
                let predicted = mirror.iter().position(|e| e.0 == ni).map(|j| {
                    let (_, mut q) = mirror.remove(j);
                    let t = q.pop_front().unwrap();
                    if !q.is_empty() {
                        mirror.push((ni, q));
                    }
                    t
                });
                if let Some(s) = stats {
                    s.takes.fetch_add(1, Ordering::Relaxed);
                    s.predicted_some.fetch_add(predicted.is_some() as u64, Ordering::Relaxed);
                    s.actual_some.fetch_add(got.is_some() as u64, Ordering::Relaxed);
                }
                hits += got.is_some() as u64;
                if predicted != got {
                    mismatch += 1;
                    if let Some(s) = stats {
                        s.mirror_mismatch.fetch_add(1, Ordering::Relaxed);
                    }
                }
            }
        }
    }
    // Final drain: everything still stored must also obey the oracle, and the documented capacity
    // ("up to N tokens per server name for up to a limited number of server names") must hold.
    let mut names_with_tokens = 0u64;
    for ni in 0..n_names {
        let mut n = 0u64;
        loop {
            match do_take(ni, v.ops.len(), true, &mut model, &mut history) {
                Err(c) => return c,
                Ok(None) => break,
                Ok(Some(_)) => n += 1,
            }
            if n > v.ops.len() as u64 + 1 {
                return CaseOut::fail("c14/token-store-never-drains", describe(&format!("take(name{ni}) keeps returning tokens after {n} takes")));
            }
        }
        names_with_tokens += (n > 0) as u64;
        if v.kind != StoreKind::NoneStore && n > max_tokens as u64 {
            return CaseOut::fail(
                "c14/token-cache-exceeds-capacity",
                describe(&format!("final drain: name{ni} held {n} tokens, max_tokens_per_server is {max_tokens}\n  {}", history[history.len().saturating_sub(30)..].join("\n  "))),
            );
        }
    }
    if v.kind != StoreKind::NoneStore && names_with_tokens > max_names as u64 {
        return CaseOut::fail(
            "c14/token-cache-exceeds-capacity",
            describe(&format!("final drain: {names_with_tokens} server names held tokens, max_server_names is {max_names}")),
        );
    }

    let mut lab: Vec<&'static str> = vec![];
    if evicted_names > 0 {
        lab.push("evicted-server-name");
    }
    if evicted_tokens > 0 {
        lab.push("evicted-token");
    }
    if v.repeat_bytes {
        lab.push("repeated-byte-strings");
    }
    if max_names == 0 || max_tokens == 0 {
        lab.push("zero-capacity");
    }
    if v.kind == StoreKind::NoneStore {
        lab.push("none-store");
    }
    if mismatch > 0 {
        lab.push("mirror-mismatch");
    }
    if hits > 0 {
        lab.push("take-hit");
    }
    let nontrivial = v.kind != StoreKind::NoneStore && hits > 0 && (evicted_names > 0 || evicted_tokens > 0);
    CaseOut {
        verdict: Verdict::Pass,
        labels: lab,
        nontrivial,
        summary: Some(json!({
            "store": format!("{:?}", v.kind),
            "max_server_names": max_names,
            "max_tokens_per_server": max_tokens,
            "names": n_names,
            "ops": v.ops.len(),
            "takes": takes,
            "take_hits": hits,
            "evicted_names": evicted_names,
            "evicted_tokens": evicted_tokens,
            "mirror_mismatch": mismatch,
        })),
    }
}

// ---------------------------------------------------------------------------------------------
// Driver
// ---------------------------------------------------------------------------------------------

pub const RULE_LOG: &str = "proptest-generated histories of check_and_insert on BloomTokenLog (default / new_expected_items / new with max_bytes 0..usize::MAX, k 0..600) and NoneTokenLog: monotone virtual clock, fixed lifetime (0, 1 ns .. 10 years), fresh tokens with issued <= now <= issued + lifetime (whole-second or ns issue times, optional 64-bit fingerprint collisions), re-presentations of earlier still-valid tokens; oracle: Ok(()) never twice for one nonce, NoneTokenLog/zero lifetime never Ok, no panic; non-trivial = a token was re-presented after a period roll-over or Set->Bloom conversion";
pub const RULE_CACHE: &str = "proptest-generated insert/take histories on TokenMemoryCache (max_server_names 0,1,2..u32::MAX x max_tokens_per_server 0,1,2..usize::MAX, 1..64 server names incl. empty/unicode/long, unique or repeated token byte strings) and NoneTokenStore, followed by a full drain; oracle: every take result was inserted for that name and #takes(token) <= #inserts(token), capacity bounds hold at the drain, NoneTokenStore always None, no panic; non-trivial = a token was taken and a server name or token was evicted";

pub fn run_sub(report: &Report) {
    report.assume("C14c: BloomTokenLog is driven like IncomingToken::from_header does: fixed lifetime per log, monotone clock, only tokens with issued <= now <= issued + lifetime are presented");

    // ---- token log ----
    let ls = LogStats::default();
    run_prop(report, "c14c-log-long", RULE_LOG, || arb_log_hist(10_000), report.cases(2_000, 200_000), |v| log_exec(v, Some(&ls)));
    run_prop(report, "c14c-log-short", RULE_LOG, || arb_log_hist(80), report.cases(50_000, 5_000_000), |v| log_exec(v, Some(&ls)));
    let g = |a: &AtomicU64| a.load(Ordering::Relaxed);
    if report.wants("c14c-log-long") || report.wants("c14c-log-short") {
        let (sf, sp, bf, bp, be) = (g(&ls.set_first), g(&ls.set_fp), g(&ls.bloom_first), g(&ls.bloom_fp), g(&ls.bloom_fp_expected_e9) as f64 / 1e9);
        let line = format!(
            "[c14c-log] positive control: first-use presentations in exact-set periods {sf} (refused {sp}); in bloom periods {bf} (refused {bp}, theoretical expectation {be:.1}); refused because the token expires before the log's first period {}; re-presentations {}",
            g(&ls.stale_first),
            g(&ls.reuse_presented)
        );
        println!("  {line}");
        report.note(line);
        // Loose bounds: an exact set has no false positives at all; bloom periods are allowed three
        // times the theoretical expectation plus slack.
        if sp > sf / 100 + 5 {
            report.fail_direct(
                "c14c-log-fp",
                "c14/token-log-over-rejects",
                format!("{sp} of {sf} never-used tokens were refused while the period filter was still an exact set"),
                json!({"set_first": sf, "set_fp": sp}),
            );
        }
        if (bp as f64) > 3.0 * be + 0.02 * bf as f64 + 200.0 {
            report.fail_direct(
                "c14c-log-fp",
                "c14/token-log-over-rejects",
                format!("{bp} of {bf} never-used tokens were refused by bloom periods; the configured geometry predicts {be:.1}"),
                json!({"bloom_first": bf, "bloom_fp": bp, "expected": be}),
            );
        }
    }

    // ---- token cache ----
    let cs = CacheStats::default();
    run_prop(report, "c14c-cache-long", RULE_CACHE, || arb_cache_hist(3_000), report.cases(2_000, 200_000), |v| cache_exec(v, Some(&cs)));
    run_prop(report, "c14c-cache-short", RULE_CACHE, || arb_cache_hist(60), report.cases(50_000, 5_000_000), |v| cache_exec(v, Some(&cs)));
    if report.wants("c14c-cache-long") || report.wants("c14c-cache-short") {
        let (t, p, a, mm) = (g(&cs.takes), g(&cs.predicted_some), g(&cs.actual_some), g(&cs.mirror_mismatch));
        let line = format!("[c14c-cache] positive control: {t} takes, exact LRU/FIFO mirror predicted a token for {p}, the store returned one for {a}; {mm} takes differed from the mirror");
        println!("  {line}");
        report.note(line);
        if (a as f64) < 0.9 * p as f64 - 100.0 {
            report.fail_direct(
                "c14c-cache-hit",
                "c14/token-cache-loses-tokens",
                format!("the store returned a token for {a} takes, the LRU/FIFO model of its documented capacity predicts {p}"),
                json!({"takes": t, "predicted": p, "actual": a}),
            );
        }
    }
}
