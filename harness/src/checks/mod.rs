//! One module per property. `run` dispatches a property id to its check; `replay` re-executes a
//! saved failing scenario without proptest.

use crate::core::{Failure, Report};

pub mod c01;
pub mod c01b;
pub mod c02;
pub mod c03;
pub mod c04;
pub mod c05;
pub mod c05b;
pub mod c06;
pub mod c07;
pub mod c08;
pub mod c09;
pub mod c10;
pub mod c11;
pub mod c12;
pub mod c12b;
pub mod c13;
pub mod c14;
pub mod c14a;
pub mod c14b;
pub mod c14c;
pub mod c15;
pub mod c16;
pub mod c17;
pub mod c18;
pub mod c19;
pub mod c20;
pub mod xfer;

pub fn run(prop: &str, report: &Report) -> i32 {
    match prop {
        "C01" => c01::run(report),
        "C02" => c02::run(report),
        "C03" => c03::run(report),
        "C04" => c04::run(report),
        "C05" => c05::run(report),
        "C06" => c06::run(report),
        "C07" => c07::run(report),
        "C08" => c08::run(report),
        "C09" => c09::run(report),
        "C10" => c10::run(report),
        "C11" => c11::run(report),
        "C12" => c12::run(report),
        "C13" => c13::run(report),
        "C14" => c14::run(report),
        "C15" => c15::run(report),
        "C16" => c16::run(report),
        "C17" => c17::run(report),
        "C18" => c18::run(report),
        "C19" => c19::run(report),
        "C20" => c20::run(report),
        _ => {
            eprintln!("unknown property {prop}");
            2
        }
    }
}

pub fn replay(f: &Failure) -> i32 {
    match f.check.as_str() {
        "c01a" => crate::core::replay_case(f, c01::case_a),
        "c01b-assembler" => crate::core::replay_case(f, c01b::case),
        "c02" => crate::core::replay_case(f, c02::case),
        "c03_frames" => crate::core::replay_case(f, c03::case),
        "c03_tp" => crate::core::replay_case(f, c03::case_tp),
        "c04" => crate::core::replay_case(f, c04::case),
        "c05" => crate::core::replay_case(f, c05::case),
        "c05b-foreign-peer" => crate::core::replay_case(f, c05b::case),
        "c06" => crate::core::replay_case(f, c06::case),
        "c07" => crate::core::replay_case(f, c07::case),
        "c08" => crate::core::replay_case(f, c08::case),
        "c09" => crate::core::replay_case(f, c09::case),
        "c10a_varint" => crate::core::replay_case(f, c10::case_varint),
        "c10b_pn" => crate::core::replay_case(f, c10::case_pn),
        "c10b_pn_diff" => crate::core::replay_case(f, c10::case_pn_diff),
        "c10c_frames" => crate::core::replay_case(f, c10::case_frames),
        "c10d_packets" => crate::core::replay_case(f, c10::case_dgram),
        "c10e_tparams" => crate::core::replay_case(f, c10::case_tp),
        "c10f_tokens" => crate::core::replay_case(f, c10::case_token),
        "c10f_cid_any" => crate::core::replay_case(f, c10::case_cid_any),
        "c10g_total" => crate::core::replay_case(f, c10::case_total),
        n if n.starts_with("c11") => crate::core::replay_case(f, c11::case),
        "c12a" => crate::core::replay_case(f, c12::case),
        "c12b" => crate::core::replay_case(f, c12b::case_hist),
        "c12b-init" => crate::core::replay_case(f, c12b::case_init),
        "c14a-accept" | "c14a-flips" => crate::core::replay_case(f, c14a::case_accept),
        "c14a-twin" => crate::core::replay_case(f, c14a::case_twin),
        "c14b-retry" => crate::core::replay_case(f, c14b::case_retry),
        "c14b-tp" => crate::core::replay_case(f, c14b::case_tp),
        "c14b-cache" => crate::core::replay_case(f, c14b::case_cache),
        "c14c-log-long" | "c14c-log-short" => crate::core::replay_case(f, c14c::case_log),
        "c14c-cache-long" | "c14c-cache-short" => crate::core::replay_case(f, c14c::case_cache),
        "c13" => crate::core::replay_case(f, c13::case),
        "c15-migrate" | "c15-ignore" => crate::core::replay_case(f, c15::case),
        "c16" => crate::core::replay_case(f, c16::case),
        "c17a" | "c17r" | "c17p" | "c17x" => crate::core::replay_case(f, c17::case),
        "c18" => crate::core::replay_case(f, c18::case),
        "c18-0rtt" => crate::core::replay_case(f, c18::case_0rtt),
        "c19" | "c19-enum" => crate::core::replay_case(f, c19::case),
        "c19-fallback" => crate::core::replay_case(f, c19::case_degraded),
        "c19-foreign" => crate::core::replay_case(f, c19::case_foreign),
        "c20" => crate::core::replay_case(f, c20::case),
        other => {
            eprintln!("no replay handler for check {other}");
            2
        }
    }
}
