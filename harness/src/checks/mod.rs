//! One module per property. `run` dispatches a property id to its check; `replay` re-executes a
//! saved failing scenario without proptest.

use crate::core::{Failure, Report};

pub mod c01;
pub mod c02;
pub mod xfer;

pub fn run(prop: &str, report: &Report) -> i32 {
    match prop {
        "C01" => c01::run(report),
        "C02" => c02::run(report),
        _ => {
            eprintln!("unknown property {prop}");
            2
        }
    }
}

pub fn replay(f: &Failure) -> i32 {
    match f.check.as_str() {
        "c01a" => crate::core::replay_case(f, c01::case_a),
        "c02" => crate::core::replay_case(f, c02::case),
        other => {
            eprintln!("no replay handler for check {other}");
            2
        }
    }
}
