//! One module per property. `run` dispatches a property id to its check; `replay` re-executes a
//! saved failing scenario without proptest.

use crate::core::{Failure, Report};

pub mod c01;
pub mod c02;
pub mod c05;
pub mod c12;
pub mod c12b;
pub mod c13;
pub mod c16;
pub mod xfer;

pub fn run(prop: &str, report: &Report) -> i32 {
    match prop {
        "C01" => c01::run(report),
        "C02" => c02::run(report),
        "C05" => c05::run(report),
        "C12" => c12::run(report),
        "C13" => c13::run(report),
        "C16" => c16::run(report),
        _ => {
            eprintln!("unknown property {prop}");
            2
        }
    }
}

pub fn replay(f: &Failure) -> i32 {
    match f.check.as_str() {
        "c01a" => crate::core::replay_case(f, c01::case_a),
        "c02" => crate::core::replay_case(f, c02::case),
        "c05" => crate::core::replay_case(f, c05::case),
        "c12a" => crate::core::replay_case(f, c12::case),
        "c13" => crate::core::replay_case(f, c13::case),
        "c16" => crate::core::replay_case(f, c16::case),
        other => {
            eprintln!("no replay handler for check {other}");
            2
        }
    }
}
