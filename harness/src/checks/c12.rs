//! C12 — sending respects the congestion window; loss accounting balances.
//! (a) in-connection gate/balance/no-spurious-loss oracles on simnet traces; (b) controller call
//! histories (module c12b).

use super::xfer::*;
use crate::core::*;
use crate::simnet::*;
use crate::spec::*;

pub fn gen() -> XferGen {
    XferGen { max_faults: 50, aux_ops: 2, rustls_share: 1, max_streams: 4, max_total: 150_000, feasible: true, ..XferGen::default() }
}

fn exempt(d: &DgRec) -> bool {
    d.pkts.iter().any(|p| p.has(|f| matches!(f, OF::PathChallenge(_) | OF::PathResponse(_) | OF::ConnectionClose { .. } | OF::ApplicationClose { .. })))
}

pub fn case(x: &Xfer) -> CaseOut {
    if x.net.crypto != CryptoKind::Sim {
        return CaseOut::discard("wire not observable under real TLS");
    }
    let r = run_xfer(x, 200_000_000, true);
    if r.world.hit_step_limit {
        return CaseOut::inconclusive("step limit");
    }
    for v in &r.viol {
        if v.sig.starts_with("drive/") {
            return CaseOut::fail(v.sig.clone(), v.msg.clone());
        }
    }
    let w = &r.world;
    let mut blocked_seen = false;
    let mut probes_exempted = 0u64;
    let mut mtu_probe_exempted = 0u64;
    // (1) gate
    for rec in &w.trace {
        let Rec::Tx { t, conn, dgrams, before: Some(b), after: Some(a), .. } = rec else { continue };
        let eliciting: Vec<&DgRec> = dgrams.iter().filter(|d| d.pkts.iter().any(|p| p.ack_eliciting())).collect();
        if eliciting.is_empty() {
            continue;
        }
        if a.in_flight + a.mtu as u64 >= a.window {
            blocked_seen = true;
        }
        // exemptions
        let lp_before: u32 = b.loss_probes.iter().sum();
        let lp_after: u32 = a.loss_probes.iter().sum();
        if lp_after < lp_before {
            probes_exempted += (lp_before - lp_after) as u64;
            continue;
        }
        // (with min_change 1 the search can end on a probe of exactly the current MTU, so the probe is
        // recognised by the packet number quinn records for it, not only by its size)
        let probe_emitted = a.mtu_probe.is_some() && a.mtu_probe != b.mtu_probe && eliciting.len() == 1;
        if probe_emitted || dgrams.iter().any(|d| d.size > b.mtu as usize) {
            mtu_probe_exempted += 1;
            continue; // MTU probe (checked by C13)
        }
        if eliciting.iter().all(|d| exempt(d)) {
            continue;
        }
        if b.state != 1 && b.state != 0 {
            continue; // closing
        }
        let win = b.window.max(a.window);
        if a.in_flight >= win && a.in_flight > b.in_flight {
            // Known finding: the congestion check is made only when a new datagram is started; an
            // ack-eliciting packet coalesced behind a non-ack-eliciting one (e.g. Handshake data
            // behind an Initial ACK) is never checked.
            let coalesced_bypass = dgrams.len() == 1
                && dgrams[0].pkts.len() >= 2
                && !dgrams[0].pkts[0].ack_eliciting()
                && dgrams[0].pkts[1..].iter().any(|p| p.ack_eliciting());
            // ... and a fresh STREAMS_BLOCKED frame (written from stream state, not from the
            // pending-retransmits set the check looks at) can ride on a packet started as ACK-only.
            let piggyback = dgrams.len() == 1
                && dgrams[0].pkts.iter().all(|p| {
                    p.frames.as_ref().is_some_and(|fs| {
                        fs.iter().any(|f| matches!(f, OF::Ack { .. }))
                            && fs.iter().filter(|f| f.is_ack_eliciting()).all(|f| matches!(f, OF::StreamsBlocked { .. }))
                    })
                });
            if coalesced_bypass || piggyback {
                return CaseOut::fail(
                    "c12/gate@frames-not-anticipated-by-congestion-check",
                    format!(
                        "t={t} conn {conn}: ack-eliciting frames in a datagram started as non-ack-eliciting took bytes in flight from {} to {} with window {} (coalesced={coalesced_bypass}, piggybacked STREAMS_BLOCKED={piggyback})",
                        b.in_flight, a.in_flight, win
                    ),
                );
            }
            if std::env::var("QV_C12_DEBUG").is_ok() {
                for rec in &w.trace {
                    match rec {
                        Rec::Tx { t: tt, conn: cc, dst, dgrams, before: Some(b), after: Some(a), .. } if cc == conn && *tt + 300_000 > *t && tt <= t => {
                            eprintln!("  Tx t={tt} mp {:?}->{:?} dst={dst} sizes {:?} lp {:?}->{:?} inflight {}->{} win {}->{} mtu {}->{} frames {:?}", b.mtu_probe, a.mtu_probe, dgrams.iter().map(|d| d.size).collect::<Vec<_>>(), b.loss_probes, a.loss_probes, b.in_flight, a.in_flight, b.window, a.window, b.mtu, a.mtu, dgrams.iter().flat_map(|d| d.pkts.iter().map(|p| (p.pn, p.frames.as_ref().map(|f| f.iter().map(|x| format!("{x:?}").chars().take(20).collect::<String>()).collect::<Vec<_>>())))).collect::<Vec<_>>());
                        }
                        Rec::Timeout { t: tt, conn: cc, .. } if cc == conn && *tt + 300_000 > *t && tt <= t => eprintln!("  Timeout t={tt}"),
                        Rec::Rx { t: tt, ep, from, size, .. } if *tt + 300_000 > *t && tt <= t => eprintln!("  Rx t={tt} ep={ep} from={from} size={size}"),
                        _ => {}
                    }
                }
            }
            return CaseOut::fail(
                "c12/gate",
                format!(
                    "t={t} conn {conn}: poll_transmit emitted ack-eliciting data taking bytes in flight from {} to {} with congestion window {} (no probe/MTU-probe/path-validation/close exemption applies); datagram sizes {:?}; mtu before {} after {}; packets {:?}",
                    b.in_flight,
                    a.in_flight,
                    win,
                    dgrams.iter().map(|d| d.size).collect::<Vec<_>>(),
                    b.mtu,
                    a.mtu,
                    dgrams.iter().flat_map(|d| d.pkts.iter().map(|p| (p.ty, p.pn, p.frames.clone()))).collect::<Vec<_>>()
                ),
            );
        }
    }
    // probe budget: at most two probe packets per probe timeout. Unsent probes carry over, so the
    // observable bound is cumulative: congestion-exempt probe datagrams <= 2 x timer expiries.
    {
        let mut expiries: std::collections::BTreeMap<usize, u64> = Default::default();
        let mut probes: std::collections::BTreeMap<usize, u64> = Default::default();
        for rec in &w.trace {
            match rec {
                Rec::Timeout { conn, spurious: false, .. } => {
                    *expiries.entry(*conn).or_insert(0) += 1;
                }
                Rec::Tx { conn, dgrams, before: Some(b), after: Some(a), t, .. } => {
                    let lp_before: u32 = b.loss_probes.iter().sum();
                    let lp_after: u32 = a.loss_probes.iter().sum();
                    if lp_after < lp_before && b.in_flight + b.mtu as u64 >= b.window {
                        // datagrams of this call that really went beyond the window (loss probes are clamped
                        // to 1200 bytes, so after them a small datagram may still fit a window that had no
                        // room for a full-sized one)
                        let mut run = b.in_flight;
                        let mut n = 0u64;
                        for d in dgrams.iter().filter(|d| d.pkts.iter().any(|p| p.ack_eliciting())) {
                            if run + d.size as u64 > b.window {
                                n += 1;
                            }
                            run += d.size as u64;
                        }
                        // (the first two of a probe round are exempt by definition even when they fit)
                        let n = n.max((dgrams.iter().filter(|d| d.pkts.iter().any(|p| p.ack_eliciting())).count() as u64).min((lp_before - lp_after) as u64));
                        let e = probes.entry(*conn).or_insert(0);
                        *e += n;
                        let allowed = 2 * expiries.get(conn).copied().unwrap_or(0);
                        if *e > allowed {
                            return CaseOut::fail(
                                "c12/probe-budget",
                                format!(
                                    "t={t} conn {conn}: {e} congestion-exempt probe datagrams after only {} timer expiries (limit 2 per probe timeout); this call: loss_probes {:?} -> {:?}, in flight {} -> {}, window {}, mtu {}, datagrams {:?}",
                                    allowed / 2,
                                    b.loss_probes,
                                    a.loss_probes,
                                    b.in_flight,
                                    a.in_flight,
                                    b.window,
                                    b.mtu,
                                    dgrams.iter().map(|d| (d.size, d.pkts.iter().map(|p| (p.ty, p.pn, p.frames.as_ref().map(|f| f.iter().map(|x| format!("{x:?}").chars().take(24).collect::<String>()).collect::<Vec<_>>()))).collect::<Vec<_>>())).collect::<Vec<_>>()
                                ),
                            );
                        }
                    }
                }
                _ => {}
            }
        }
    }
    // (2) balance at forced quiescence: only for completed, still-established runs
    let mut balanced_checked = false;
    let mut r = r;
    // (skipped when the run sits in the state of the known pad_to_mtu finding, see C02)
    let kf1 = r.world.conns.iter().any(|c| padded_acks_block_cwnd(x, c));
    if r.completed && !kf1 && r.world.conns.iter().all(|c| c.app.lost.is_empty() && !c.app.closed_locally) {
        let w = &mut r.world;
        for c in w.conns.iter_mut() {
            c.c.ping();
            c.dirty = true;
        }
        let until = w.now + 30_000_000;
        let dbg = std::env::var("QV_C12_DEBUG").is_ok();
        if dbg { eprintln!("forced: now {} step {} limit {} viol {:?}", w.now, w.step, w.step_limit, w.viol.len()); }
        let ok = w.run(until, |_| false);
        if dbg { eprintln!("forced: after run ok={ok} now {} step {} hit {} viol {:?}", w.now, w.step, w.hit_step_limit, w.viol.iter().map(|v| (v.sig.clone(), v.msg.clone())).collect::<Vec<_>>()); for c in &w.conns { let p = c.c.verif_probe(); eprintln!("  {:?} tracked {:?} inflight {} timers {:?} deadline {:?}", c.side, p.sent_packets, p.bytes_in_flight, p.timers_armed, c.deadline); } }
        // an ACK lost just before may leave a sender waiting for a probe timeout that carries the backoff
        // of an earlier loss episode (quinn keeps the PTO backoff when it discards the Handshake space):
        // let every armed loss-detection timer fire and its probe be answered (virtual time is free)
        for _ in 0..6 {
            let next = w.conns.iter().filter(|c| !c.gone && c.c.verif_probe().timers_armed.contains(&"LossDetection")).filter_map(|c| c.deadline.map(|d| d.0)).max();
            let Some(d) = next else { break };
            let until = d.max(w.now) + 2_000_000;
            w.run(until, |_| false);
        }
        let kf1_after = w.conns.iter().any(|c| padded_acks_block_cwnd(x, c));
        let desync = w.conns.iter().any(|c| c.c.verif_probe().authentication_failures >= 3);
        for c in &w.conns {
            let p = c.c.verif_probe();
            if p.state != 1 || kf1_after || desync {
                continue;
            }
            let tracked: usize = p.sent_packets.iter().sum();
            if tracked == 0 && (p.ack_eliciting_in_flight != 0 || p.bytes_in_flight != 0) {
                return CaseOut::fail(
                    "c12/balance-untracked",
                    format!("{:?}: no sent packet is tracked any more but in_flight = {} bytes / {} ack-eliciting", c.side, p.bytes_in_flight, p.ack_eliciting_in_flight),
                );
            }
            if (p.ack_eliciting_in_flight as usize) > tracked {
                return CaseOut::fail(
                    "c12/balance-overcount",
                    format!("{:?}: {} ack-eliciting packets in flight but only {tracked} packets tracked", c.side, p.ack_eliciting_in_flight),
                );
            }
            // perpetual background traffic (CID rotation, keep-alive) never lets in-flight reach zero
            let perpetual = x.net.client_ep.cid_lifetime_ms.is_some()
                || x.net.server_ep.cid_lifetime_ms.is_some()
                || x.net.client_tc.keep_alive_ms.is_some()
                || x.net.server_tc.keep_alive_ms.is_some();
            if perpetual {
                continue;
            }
            if p.ack_eliciting_in_flight != 0 {
                return CaseOut::fail(
                    "c12/balance-ack-eliciting",
                    format!("{:?}: everything was acknowledged over a clean link but ack_eliciting_in_flight = {} (bytes {}); packets tracked {:?}, lost_packets {:?}, timers {:?}, pto_count {}, window {}, now {}\n{}", c.side, p.ack_eliciting_in_flight, p.bytes_in_flight, p.sent_packets, p.lost_packets, p.timers_armed, p.pto_count, p.congestion_window, w.now, w.dump_trace(w.trace.len().saturating_sub(60), 60)),
                );
            }
            let pad = if c.side.is_client() { x.net.client_tc.pad_to_mtu } else { x.net.server_tc.pad_to_mtu };
            if p.bytes_in_flight != 0 && !pad {
                return CaseOut::fail(
                    "c12/balance-bytes",
                    format!("{:?}: everything was acknowledged over a clean link but bytes_in_flight = {} with {:?} packets tracked", c.side, p.bytes_in_flight, p.sent_packets),
                );
            }
            balanced_checked = true;
        }
    }
    let w = &r.world;
    // (3) no spurious loss on a loss-free, in-order, constant-delay path
    let clean = x.net.faults_c2s.iter().all(|f| *f == Fault::Deliver)
        && x.net.faults_s2c.iter().all(|f| *f == Fault::Deliver)
        && x.net.mtu_steps.is_empty()
        && w.stats.dgrams_mtu_dropped == 0
        && x.net.drv.late_us.iter().all(|&l| l == 0);
    if clean {
        for c in &w.conns {
            let st = c.c.stats();
            if st.path.lost_packets != 0 || st.path.congestion_events != 0 {
                return CaseOut::fail(
                    "c12/spurious-loss",
                    format!("{:?}: lost_packets={} congestion_events={} on a loss-free in-order constant-delay path", c.side, st.path.lost_packets, st.path.congestion_events),
                );
            }
        }
    }
    let lost = w.conns.iter().map(|c| c.c.stats().path.lost_packets).sum::<u64>();
    let mut labels = vec![];
    if blocked_seen {
        labels.push("cwnd-limited");
    }
    if lost > 0 {
        labels.push("packets-lost");
    }
    if probes_exempted > 0 {
        labels.push("loss-probe");
    }
    if mtu_probe_exempted > 0 {
        labels.push("mtu-probe");
    }
    if balanced_checked {
        labels.push("balance-checked");
    }
    if clean {
        labels.push("clean-path");
    }
    for tc in [&x.net.client_tc, &x.net.server_tc] {
        labels.push(match tc.cc {
            CcSpec::Cubic => "cubic",
            CcSpec::NewReno => "newreno",
            CcSpec::Bbr => "bbr",
            CcSpec::Scripted(_) => "scripted",
        });
    }
    let f = trace_facts(w);
    CaseOut { verdict: Verdict::Pass, labels, nontrivial: blocked_seen && lost > 0, summary: Some(summary(x, &r, &f)) }
}

pub fn run(report: &Report) -> i32 {
    report.assume("bytes in flight and the window are read through the verif-hooks probe immediately before and after every poll_transmit call");
    report.assume("'clean path' sub-family: no faults, no MTU limit, exact timer service");
    // a third of the cases run on a clean path so that the no-spurious-loss clause is exercised
    run_prop(
        report,
        "c12a",
        "proptest-generated bulk/bursty transfers x all controllers incl. a scripted adversarial window (>= 2 MTU) x loss/reorder/dup/ECN, applications calling path_changed(); oracles: congestion gate around every poll_transmit with the documented exemptions, probe budget, in-flight balance at forced quiescence, no loss declared on a clean path; non-trivial = sender was window-limited AND a packet was declared lost",
        || {
            use proptest::prelude::*;
            (arb_xfer(gen()), 0u8..3, prop::collection::vec((any::<bool>(), 20_000u32..3_000_000), 0..3), prop::bool::weighted(0.3), prop::option::weighted(0.25, (100_000u32..3_000_000, any::<bool>()))).prop_map(|(mut x, k, pcs, with_pc, mv)| {
                if let (Some((t, v4)), true) = (mv, k != 0 && x.net.client_ep.cid_len > 0 && x.net.server_ep.cid_len > 0) {
                    // the client's datagrams leave from another port of the same host in mid-transfer
                    // (with IPv4 addresses quinn carries RTT and congestion state over to the new path)
                    x.net.client_move_at_us = Some(t);
                    x.net.srv.migration = true;
                    x.net.ipv4 = v4;
                }
                if k == 0 {
                    x.net.faults_c2s.clear();
                    x.net.faults_s2c.clear();
                    x.net.mtu_steps.clear();
                    x.net.drv.late_us = vec![0];
                } else if with_pc {
                    // an application that restarts RTT, congestion control and MTU discovery in mid-transfer
                    for (at_client, at_us) in pcs {
                        let side = if at_client { &mut x.client } else { &mut x.server };
                        side.ops.push(TimedOp { at_us, op: AuxOp::PathChanged });
                        side.ops.sort_by_key(|o| o.at_us);
                    }
                }
                x
            })
        },
        report.cases(30_000, 900_000),
        case,
    );
    super::c12b::run_sub(report);
    report.finish("generated-input search (proptest): trace oracles on the real connection plus controller call-history model")
}
