//! C09 — datagrams reach the right connection; connections are isolated.
//!
//! Worlds with 1-3 client endpoints and 1-2 server endpoints carrying 2-10 connections that start
//! at generated times, run independent workloads over a shared faulty link, rotate connection IDs
//! (short CID lifetimes, local_address_changed), and one of which (the target) is closed early by
//! one of its applications. Oracles:
//!  (1) routing — every genuine datagram is tagged by the link with the connection that emitted it;
//!      whenever `Endpoint::handle` hands it to a connection, that connection must be the emitter's
//!      peer (runtime oracle in `World::deliver`, signature c09/misrouted);
//!  (2) isolation — payloads are keyed per connection, so a byte or datagram crossing connections is
//!      caught by the application model; every connection other than the target completes its
//!      workload and sees no ConnectionLost;
//!  (3) bookkeeping — after all connections were closed and drained, every endpoint reports
//!      open_connections() == 0 and a datagram addressed to any connection ID that was ever put on
//!      the wire reaches no connection and creates none.

use super::xfer::*;
use crate::core::*;
use crate::simnet::*;
use crate::spec::*;
use proptest::prelude::*;
use quinn_proto::VarInt;
use serde::{Deserialize, Serialize};
use std::collections::{BTreeMap, BTreeSet};

#[derive(Clone, Debug, Serialize, Deserialize, PartialEq)]
pub struct ConnPlan {
    pub at_ms: u16,
    pub cep: u8,
    pub sep: u8,
    pub client: SideLoad,
    pub server: SideLoad,
    /// client calls local_address_changed() at these times (ms after the connection started)
    pub rebind_at_ms: Vec<u16>,
    /// the client endpoint of this connection starts sending from its alternate address this many ms
    /// after the connection started (a NAT rebinding as seen by the servers; needs server migration)
    #[serde(default)]
    pub move_at_ms: Option<u16>,
}

#[derive(Clone, Debug, Serialize, Deserialize, PartialEq)]
pub struct Case {
    pub net: NetSpec,
    pub n_ceps: u8,
    pub n_seps: u8,
    pub conns: Vec<ConnPlan>,
    /// (connection index, closed by the server side, ms after its start)
    pub target: Option<(u8, bool, u16)>,
    /// (n, hold ms): the n-th connection attempt reaching a server is kept waiting by the application for
    /// longer than its idle timeout, so that accept() abandons it; the client's retransmitted Initial
    /// is a new attempt
    #[serde(default)]
    pub stale: Vec<(u8, u16)>,
    /// connection plans whose first Initial is damaged on the link inside the protected payload: the
    /// server's accept() fails to authenticate it, the client's retransmission is a new attempt
    #[serde(default)]
    pub corrupt_first: Vec<u8>,
    /// the servers announce a preferred address (one more connection ID per connection, carried in the
    /// transport parameters)
    #[serde(default)]
    pub preferred: bool,
}

fn gen() -> XferGen {
    XferGen { max_faults: 40, aux_ops: 2, rustls_share: 5, max_streams: 2, max_total: 40_000, datagrams: true, mtu_steps: false, feasible: true, allow_close: false, ..XferGen::default() }
}

pub fn arb_case() -> impl Strategy<Value = Case> {
    let plan = (0u16..4000, 0u8..3, 0u8..2, arb_load(gen()), arb_load(gen()), prop::collection::vec(0u16..3000, 0..3), prop::option::weighted(0.15, 0u16..3000)).prop_map(|(at_ms, cep, sep, client, server, rebind_at_ms, move_at_ms)| ConnPlan { at_ms, cep, sep, client, server, rebind_at_ms, move_at_ms });
    (
        arb_net(gen()),
        1u8..=3,
        1u8..=2,
        prop::collection::vec(plan, 2..=10),
        prop::option::weighted(0.7, (any::<u8>(), any::<bool>(), 0u16..3000)),
        // CID lifetimes that force rotation during the case
        prop::option::weighted(0.6, 100u32..3000),
        prop::option::weighted(0.6, 100u32..3000),
        // short connection IDs: retired values are issued again soon
        (prop::option::weighted(0.2, 1u8..=2), prop::option::weighted(0.2, 1u8..=2)),
        prop_oneof![2 => Just(vec![]), 1 => prop::collection::vec((0u8..12, 2u16..80), 1..4)],
        prop_oneof![3 => Just(vec![]), 1 => prop::collection::vec(0u8..10, 1..3)],
        prop::bool::weighted(0.2),
    )
        .prop_map(|(net, n_ceps, n_seps, conns, target, life_c, life_s, (short_c, short_s), stale, corrupt_first, preferred)| {
            let mut net = net;
            net.client_ep.cid_lifetime_ms = life_c;
            net.server_ep.cid_lifetime_ms = life_s;
            for (ep, short) in [(&mut net.client_ep, short_c), (&mut net.server_ep, short_s)] {
                if let (Some(l), false) = (short, ep.cid_kind == CidKind::Hashed) {
                    ep.cid_len = l;
                }
            }
            normalize_case(Case { net, n_ceps, n_seps, conns, target, stale, corrupt_first, preferred })
        })
}

/// Apply the workload normalisation of the transfer checks to every connection and remove
/// combinations that are ambiguous by design (zero-length connection IDs need unique address pairs)
pub fn normalize_case(mut c: Case) -> Case {
    let g = gen();
    let mut net = c.net.clone();
    for p in &mut c.conns {
        let x = normalize(Xfer { net: net.clone(), client: p.client.clone(), server: p.server.clone() }, g);
        net = x.net;
        p.client = x.client;
        p.server = x.server;
        p.cep %= c.n_ceps.max(1);
        p.sep %= c.n_seps.max(1);
    }
    // the idle timeout must not end connections that wait for a late starter
    net.client_tc.idle_ms = None;
    net.server_tc.idle_ms = None;
    // byte-sized windows only make cases slow (the liveness bounds are C02's business)
    for tc in [&mut net.client_tc, &mut net.server_tc] {
        tc.send_window = tc.send_window.max(2000);
        tc.recv_window = tc.recv_window.max(2000);
        tc.stream_recv_window = tc.stream_recv_window.max(1000);
    }
    net.client_tc.pad_to_mtu = false;
    net.server_tc.pad_to_mtu = false;
    // known finding c09/zero-length-cid-retry-duplicate-incoming (listed under C02)
    if net.server_ep.cid_len == 0 {
        net.srv.retry = false;
    }
    // known finding c09/misrouted/post-retry-initial-collides-with-issued-cid: with 1-3 byte server IDs
    // the ID announced in a Retry regularly belongs to a live connection and the client never gets
    // through; excluded by construction for tiny IDs (still reported if it happens with longer ones)
    if (1..4).contains(&net.server_ep.cid_len) {
        net.srv.retry = false;
    }
    if net.client_ep.cid_len == 0 || net.server_ep.cid_len == 0 {
        let mut seen = BTreeSet::new();
        c.conns.retain(|p| seen.insert((p.cep, p.sep)));
    }
    // an address change is only survivable with connection IDs on both sides, and (NAT rebinding seen
    // by the server) only once the handshake is over: late moves only
    for p in &mut c.conns {
        if net.client_ep.cid_len == 0 || net.server_ep.cid_len == 0 {
            p.move_at_ms = None;
        }
        if let Some(m) = &mut p.move_at_ms {
            *m = (*m).max(1500);
        }
    }
    if c.conns.iter().any(|p| p.move_at_ms.is_some()) {
        net.srv.migration = true;
    }
    c.net = net;
    c.conns.sort_by_key(|p| p.at_ms);
    if let Some(t) = &mut c.target {
        if c.conns.is_empty() {
            c.target = None;
        } else {
            t.0 %= c.conns.len() as u8;
        }
    }
    c
}

pub fn case(c: &Case) -> CaseOut {
    if c.conns.len() < 2 {
        return CaseOut::discard("fewer than two connections");
    }
    let mut w = World::new(c.net.clone());
    w.check_routing = true;
    // the link-side amplification ledger (C07) is keyed by remote address and assumes one connection
    // per address; several connections share addresses here
    w.check_amp = false;
    w.stale_accepts = c.stale.iter().map(|(n, h)| (*n as u32, *h as u32 * 1000)).collect();
    if c.preferred && c.net.server_ep.cid_len > 0 {
        w.server_cfg_hook = Some(std::rc::Rc::new(|sc: &mut quinn_proto::ServerConfig| {
            sc.preferred_address_v6(Some(std::net::SocketAddrV6::new(std::net::Ipv6Addr::new(0xfd00, 0, 0, 0, 0, 0, 0, 2), 4433, 0, 0)));
        }));
    }
    // additional endpoints (index 0 and 1 exist)
    let mut ceps = vec![CLIENT_EP];
    let mut seps = vec![SERVER_EP];
    for i in 1..c.n_ceps {
        ceps.push(w.add_endpoint(false, vec![addr_v6(0x10 + i as u16, 5000 + i as u16)]));
    }
    // alternate source addresses of the client endpoints (same host, other port: a NAT rebinding)
    for (i, e) in ceps.iter().enumerate() {
        let alt = addr_v6(if i == 0 { 1 } else { 0x10 + i as u16 }, 6000 + i as u16);
        w.eps[*e].addrs.push(alt);
    }
    // (an endpoint moves all its connections; a connection still in its handshake cannot survive that,
    // so moves happen after the last connection had time to establish)
    let last_start_ms = c.conns.iter().map(|p| p.at_ms as u64).max().unwrap_or(0);
    let mut moves: Vec<(u64, usize)> = c.conns.iter().filter_map(|p| p.move_at_ms.map(|m| ((last_start_ms + m as u64) * 1000, ceps[p.cep as usize % ceps.len()]))).collect();
    moves.sort();
    let mut next_move = 0;
    for i in 1..c.n_seps {
        seps.push(w.add_endpoint(true, vec![addr_v6(0x20 + i as u16, 4433)]));
    }
    let target = c.target.map(|t| t.0 as usize);
    // plans -> connections, started at their times
    let mut client_conn: Vec<Option<usize>> = vec![None; c.conns.len()];
    let mut refused = 0;
    let mut next_plan = 0;
    let last_start = c.conns.iter().map(|p| p.at_ms as u64 * 1000).max().unwrap_or(0);
    let done = |w: &World, client_conn: &Vec<Option<usize>>, target: Option<usize>| -> bool {
        client_conn.iter().enumerate().all(|(i, k)| match k {
            None => true,
            Some(k) => {
                if Some(i) == target {
                    return true;
                }
                let cc = &w.conns[*k];
                let sc = cc.peer.map(|p| &w.conns[p]);
                let ok = |cs: &ConnState| cs.app.connected && cs.app.outgoing_complete() && cs.app.recv.values().all(|r| r.terminal.is_some()) && cs.app.next_op_time().is_none();
                ok(cc) && sc.is_some_and(ok) && {
                    let s = sc.unwrap();
                    let seen = |a: &crate::app::App, fwd: bool| a.recv.values().filter(|r| r.fwd == fwd).count();
                    seen(&s.app, true) >= cc.app.mine.streams.len() && seen(&cc.app, true) >= s.app.mine.streams.len()
                }
            }
        })
    };
    let hard_end = 3_600_000_000u64;
    loop {
        // start every plan that is due
        while next_plan < c.conns.len() && (c.conns[next_plan].at_ms as u64) * 1000 <= w.now {
            let p = &c.conns[next_plan];
            let mut client = p.client.clone();
            let mut server = p.server.clone();
            for t in &p.rebind_at_ms {
                client.ops.push(TimedOp { at_us: *t as u32 * 1000, op: AuxOp::LocalAddrChanged });
            }
            if let Some((ti, by_server, at)) = c.target {
                if ti as usize == next_plan {
                    let op = TimedOp { at_us: at as u32 * 1000, op: AuxOp::Close { code: 77, reason_len: 3 } };
                    if by_server {
                        server.ops.push(op);
                    } else {
                        client.ops.push(op);
                    }
                }
            }
            let to = w.eps[seps[p.sep as usize]].addrs[0];
            if c.corrupt_first.iter().any(|x| *x as usize == next_plan) {
                let k = w.conns.len();
                w.corrupt_first_of.insert(k);
            }
            match w.connect_to(ceps[p.cep as usize], ConnLoad { client, server }, to) {
                Ok(k) => client_conn[next_plan] = Some(k),
                Err(_) => refused += 1,
            }
            next_plan += 1;
        }
        while next_move < moves.len() && moves[next_move].0 <= w.now {
            // an address change in the middle of a handshake (or between a Retry and the Initial that
            // answers it) legitimately kills that attempt: wait until every connection of the endpoint
            // is established on both sides
            let ep = moves[next_move].1;
            let ready = next_plan >= c.conns.len()
                && w.conns.iter().filter(|cs| cs.ep == ep && !cs.gone && cs.app.lost.is_empty() && !cs.app.closed_locally).all(|cs| cs.app.connected && cs.peer.is_some_and(|p| w.conns[p].app.connected || !w.conns[p].app.lost.is_empty()));
            if !ready {
                moves[next_move].0 = w.now + 100_000;
                if w.now > last_start + 60_000_000 {
                    next_move += 1; // give up on this move
                }
                break;
            }
            w.eps[ep].cur_src = 1;
            next_move += 1;
        }
        let next_start = c.conns.get(next_plan).map(|p| p.at_ms as u64 * 1000);
        let next_start = match (next_start, moves.get(next_move).map(|m| m.0)) {
            (Some(a), Some(b)) => Some(a.min(b)),
            (a, b) => a.or(b),
        };
        let horizon = match w.faults_done_at {
            Some(t) => t.max(last_start) + 900_000_000,
            None => w.now + 900_000_000,
        }
        .min(hard_end);
        let until = next_start.unwrap_or(horizon).min(horizon);
        let before = (w.now, w.step);
        let all_started = next_plan >= c.conns.len() && next_move >= moves.len();
        let ok = w.run(until, |w| all_started && done(w, &client_conn, target));
        if !ok {
            return CaseOut::inconclusive("step limit");
        }
        if !w.viol.is_empty() {
            break;
        }
        if all_started && (done(&w, &client_conn, target) || w.now >= horizon || (w.now, w.step) == (before.0, before.1 + 1)) {
            break;
        }
        if !all_started && w.now < until && (w.now, w.step) == (before.0, before.1 + 1) {
            // nothing scheduled before the next start: jump
            w.now = until;
            w.clock.0.store(w.now, std::sync::atomic::Ordering::Relaxed);
        }
    }
    let viol = w.collect_violations();
    if let Some(v) = viol.first() {
        return CaseOut::fail(v.sig.clone(), v.msg.clone());
    }
    if w.hit_step_limit {
        return CaseOut::inconclusive("step limit");
    }
    // (2) isolation: everyone but the target completed and lost nothing
    let completed = done(&w, &client_conn, target);
    let mut tiny_reset = false;
    for (i, k) in client_conn.iter().enumerate() {
        let Some(k) = k else { continue };
        if Some(i) == target {
            continue;
        }
        let mut both = vec![*k];
        if let Some(p) = w.conns[*k].peer {
            both.push(p);
        }
        for q in both {
            if !w.conns[q].app.lost.is_empty() {
                // Reset tokens are a function of the connection ID value. With 1-3 byte IDs an endpoint
                // soon issues a value again for which it once sent a stateless reset; a late copy of that
                // reset is then a valid reset of the new owner's connection (a consequence of the
                // configuration, like the routing collisions above)
                let peer_ep = w.conns[q].peer.map(|p| w.conns[p].ep);
                let tiny_peer_cids = peer_ep.is_some_and(|e| (1..4).contains(&w.eps[e].spec.cid_len));
                if tiny_peer_cids && w.conns[q].app.lost.iter().all(|l| l.contains("Reset")) && w.stats.stateless > 0 {
                    tiny_reset = true;
                    continue;
                }
                if std::env::var("QV_TRACE").is_ok() {
                    eprintln!("{}", w.dump_trace(0, 400));
                }
                return CaseOut::fail(
                    "c09/isolation/connection-lost",
                    format!("connection plan {i} ({:?} side, conn {q}) lost its connection: {:?}; only plan {target:?} was closed\nlink: {:?}", w.conns[q].side, w.conns[q].app.lost, w.stats),
                );
            }
        }
    }
    if !completed {
        // known finding of C02 (handshake data congestion-blocked behind packets the peer cannot
        // acknowledge yet): recognised with the same classifier as in c02.rs and reported under its
        // own signature
        for (i, k) in client_conn.iter().enumerate() {
            let Some(k) = k else { continue };
            if Some(i) == target {
                continue;
            }
            let mut pr = vec![w.conns[*k].c.verif_probe()];
            if let Some(p) = w.conns[*k].peer {
                pr.push(w.conns[p].c.verif_probe());
            }
            let handshaking = pr.iter().any(|p| p.state == 0);
            let blocked = pr.iter().any(|p| p.state <= 1 && p.bytes_in_flight + p.current_mtu as u64 >= p.congestion_window);
            if handshaking && blocked {
                return CaseOut::fail("c02/handshake-retransmit-congestion-blocked-by-unackable-packets", format!("connection plan {i}: handshake data cannot be retransmitted, the congestion window is filled by packets the peer cannot acknowledge before the handshake completes"));
            }
        }
        let st: Vec<String> = w
            .conns
            .iter()
            .enumerate()
            .map(|(k, cs)| format!("conn {k} {:?} load {} connected={} lost={:?} out={} recv_terminal={}/{}", cs.side, cs.load_idx, cs.app.connected, cs.app.lost, cs.app.outgoing_complete(), cs.app.recv.values().filter(|r| r.terminal.is_some()).count(), cs.app.recv.len()))
            .collect();
        if std::env::var("QV_TRACE").is_ok() {
            eprintln!("{}", w.dump_trace(0, 200));
        }
        return CaseOut::fail("c09/isolation/workload-incomplete", format!("a connection other than the target did not complete its workload within 15 virtual minutes after the last fault/start: {st:#?}\ntarget {target:?} link {:?}", w.stats));
    }
    // facts for labels before teardown
    let live_max = {
        // maximum number of simultaneously live client connections
        let mut ev: Vec<(u64, i32)> = vec![];
        for k in client_conn.iter().flatten() {
            ev.push((w.conns[*k].started_us, 1));
            ev.push((w.conns[*k].lost_at.or(w.conns[*k].drained_at).unwrap_or(u64::MAX), -1));
        }
        ev.sort();
        let (mut cur, mut max) = (0, 0);
        for (_, d) in ev {
            cur += d;
            max = max.max(cur);
        }
        max
    };
    let mut rotated = false;
    let mut cids: BTreeSet<(usize, Vec<u8>)> = BTreeSet::new();
    // (connection, sequence number) -> connection ID it issued; retirements seen on the wire; client-chosen
    // initial destination IDs
    let mut by_seq: BTreeMap<(usize, u64), Vec<u8>> = BTreeMap::new();
    let mut retired_seq: Vec<(usize, u64)> = vec![];
    let mut odcids: BTreeSet<(usize, Vec<u8>)> = BTreeSet::new();
    // (endpoint that may have registered the token, endpoint that issued it, token)
    let mut tokens: BTreeSet<(usize, usize, [u8; 16])> = BTreeSet::new();
    // A retirement counts as processed by the peer only if the peer acknowledged the 1-RTT packet
    // that carried it (a packet can also be discarded by the receiver, e.g. 1-RTT data arriving
    // before the handshake is complete): (sender, packet number) of retirements, and what each
    // connection acknowledged in the application space
    let mut acked: BTreeMap<usize, Vec<(u64, u64)>> = BTreeMap::new();
    for rec in &w.trace {
        if let Rec::Tx { conn, dgrams, .. } = rec {
            for d in dgrams {
                for p in &d.pkts {
                    if p.ty == crate::wire::PktType::Short {
                        for f in p.frames.iter().flatten() {
                            if let OF::Ack { ranges, .. } = f {
                                acked.entry(*conn).or_default().extend(ranges.iter().copied());
                            }
                        }
                    }
                }
            }
        }
    }
    for rec in &w.trace {
        if let Rec::Tx { conn, dgrams, .. } = rec {
            let ep = w.conns[*conn].ep;
            for d in dgrams {
                for p in &d.pkts {
                    if !p.scid.is_empty() {
                        cids.insert((ep, p.scid.clone()));
                        by_seq.entry((*conn, 0)).or_insert_with(|| p.scid.clone());
                    }
                    if p.ty == crate::wire::PktType::Initial && w.conns[*conn].side.is_client() && !p.dcid.is_empty() {
                        if let Some(peer) = w.conns[*conn].peer {
                            odcids.insert((w.conns[peer].ep, p.dcid.clone()));
                        }
                    }
                    for f in p.frames.iter().flatten() {
                        match f {
                            OF::NewConnectionId { cid, seq, reset_token, .. } => {
                                cids.insert((ep, cid.clone()));
                                by_seq.insert((*conn, *seq), cid.clone());
                                if let Some(peer) = w.conns[*conn].peer {
                                    // the peer's endpoint may register this token under the issuer's addresses
                                    tokens.insert((w.conns[peer].ep, ep, *reset_token));
                                }
                            }
                            OF::RetireConnectionId(s) => {
                                if *s > 0 {
                                    rotated = true;
                                }
                                if let Some(peer) = w.conns[*conn].peer {
                                    let processed = p.ty == crate::wire::PktType::Short && acked.get(&peer).is_some_and(|r| r.iter().any(|(lo, hi)| *lo <= p.pn && p.pn <= *hi));
                                    if processed {
                                        retired_seq.push((peer, *s));
                                    }
                                }
                            }
                            _ => {}
                        }
                    }
                }
            }
        }
    }
    // (2b) while the connections are still alive: connection IDs their peers have retired, and the
    // client-chosen initial destination IDs in short header packets, route to no connection
    {
        if !w.run(w.now + 3_000_000, |_| false) {
            return CaseOut::inconclusive("step limit");
        }
        let first_probe = w.next_dgram_id;
        let t0 = w.now;
        let mut n = 0u64;
        let mut probe = |w: &mut World, ep: usize, cid: &[u8]| {
            if w.eps[ep].spec.cid_len == 0 || cid.is_empty() {
                return;
            }
            // While connections are alive a retired value may legitimately be issued again; that is
            // only negligible when the generator's space is large (the hashed generator draws from
            // 2^24 values, short IDs from 2^(8 len))
            if w.eps[ep].spec.cid_kind == CidKind::Hashed || w.eps[ep].spec.cid_len < 6 {
                return;
            }
            let mut d = vec![0x41u8];
            d.extend_from_slice(cid);
            d.extend((0..40).map(|i| (mix(c.net.seed ^ 0x9b0b, i) & 0xff) as u8));
            let to = w.eps[ep].addrs[0];
            let id = w.inject(t0 + 1000 + n, to, addr_v6(0x99, 9999), d);
            if std::env::var("QV_TRACE").is_ok() {
                eprintln!("probe dgram {id} ep {ep} cid {cid:?}");
            }
            n += 1;
        };
        for (conn, seq) in &retired_seq {
            if let Some(cid) = by_seq.get(&(*conn, *seq)) {
                let ep = w.conns[*conn].ep;
                // a retired ID may have been issued again only by accident of the generator: skip IDs in use
                if by_seq.iter().any(|((c2, s2), c)| c == cid && !(c2 == conn && s2 == seq)) {
                    continue;
                }
                probe(&mut w, ep, cid);
            }
        }
        // (the IDs a server issues in NEW_CONNECTION_ID frames are only visible under SimCrypto; a client
        // switches to such an ID even for its remaining Initial and Handshake packets)
        for (ep, cid) in &odcids {
            // (nor is the connection ID a server announces with its preferred address: it travels in the
            // transport parameters)
            if c.net.crypto == CryptoKind::Sim && !c.preferred && cid.len() == w.eps[*ep].spec.cid_len as usize && !cids.contains(&(*ep, cid.clone())) {
                probe(&mut w, *ep, cid);
            }
        }
        let mark = w.trace.len();
        if !w.run(t0 + 2_000_000, |_| false) {
            return CaseOut::inconclusive("step limit");
        }
        for rec in &w.trace[mark..] {
            if let Rec::Rx { injected: true, routed, dgram_id, .. } = rec {
                if *dgram_id >= first_probe && matches!(routed, Routed::Conn(_) | Routed::NewIncoming) {
                    if std::env::var("QV_TRACE").is_ok() {
                        if std::env::var("QV_DUMP").is_ok() {
                            eprintln!("{}", w.dump_trace(0, 300));
                        }
                        for (k, cs) in w.conns.iter().enumerate().take(3) {
                            eprintln!("conn {k} {:?} probe {:?}\n   stats {:?}", cs.side, cs.c.verif_probe(), cs.c.stats());
                        }
                        eprintln!("retired_seq={retired_seq:?}\nby_seq={by_seq:?}\nodcids={odcids:?}\nprobe rec={rec:?}");
                        for r in &w.trace {
                            match r {
                                Rec::Tx { t, conn, dgrams, .. } => {
                                    for p in dgrams.iter().flat_map(|d| d.pkts.iter()) {
                                        eprintln!("PKT t={t} conn={conn} ty={:?} dcid={:?} scid={:?} parsed={} ncid={:?}", p.ty, p.dcid, p.scid, p.frames.is_some(), p.frames.iter().flatten().filter_map(|f| if let OF::NewConnectionId { seq, cid, .. } = f { Some((*seq, cid.clone())) } else { None }).collect::<Vec<_>>());
                                    }
                                }
                                Rec::TxEp { t, ep, dgram, .. } => {
                                    for p in &dgram.pkts {
                                        eprintln!("PKTEP t={t} ep={ep} ty={:?} dcid={:?} scid={:?}", p.ty, p.dcid, p.scid);
                                    }
                                }
                                _ => {}
                            }
                        }
                        for r in &w.trace {
                            let t = format!("{r:?}");
                            if t.contains("RetireConnectionId") || t.contains("NewConnectionId") || t.starts_with("Rx") || t.starts_with("Lost") || t.starts_with("Drained") {
                                eprintln!("{}", &t[..t.len().min(900)]);
                            }
                        }
                    }
                    return CaseOut::fail("c09/stale-cid-routed-while-alive", format!("a short header datagram addressed to a connection ID the peer had retired (or to a client-chosen initial destination ID) was handed to a connection: {routed:?}"));
                }
            }
        }
        if let Some(v) = w.collect_violations().first() {
            return CaseOut::fail(v.sig.clone(), v.msg.clone());
        }
    }
    // (2c) a genuine stateless reset still finds its connection: for one live client connection whose
    // endpoint also has (or had) other connections to the same server address, the server "loses its
    // state" - a reset carrying the token of the connection ID the client is sending to arrives from the
    // server's address with an unroutable destination ID - and the client must report Reset (the token
    // table is shared by all connections towards one remote address)
    let mut reset_honoured = false;
    {
        let cand = client_conn.iter().enumerate().filter_map(|(i, k)| k.map(|k| (i, k))).find(|(i, k)| {
            let cs = &w.conns[*k];
            Some(*i) != target
                && !cs.gone
                && cs.app.lost.is_empty()
                && !cs.app.closed_locally
                && cs.app.connected
                && cs.peer.is_some()
                && !(1..4).contains(&w.eps[cs.ep].spec.cid_len)
                && cs.c.verif_probe().state == 1
                && w.conns.iter().enumerate().any(|(q, o)| q != *k && o.ep == cs.ep && o.side.is_client() && o.peer.is_some_and(|p| w.conns[p].ep == w.conns[cs.peer.unwrap()].ep))
        });
        if let Some((_, k)) = cand {
            let cep = w.conns[k].ep;
            let sep = w.conns[w.conns[k].peer.unwrap()].ep;
            let rc = w.conns[k].c.verif_remote_cid();
            if !rc.is_empty() {
                let token = w.reset_token_for(sep, &rc);
                let mut d = vec![0x43u8];
                let cl = w.eps[cep].spec.cid_len as usize;
                d.extend((0..cl + 24).map(|i| (mix(c.net.seed ^ 0x5e7, i as u64) & 0xff) as u8));
                d.extend_from_slice(&token);
                let to = w.eps[cep].addrs[w.eps[cep].cur_src];
                let from = w.eps[sep].addrs[0];
                let t0 = w.now;
                w.exact_reset_offered.remove(&k);
                w.inject(t0 + 1, to, from, d);
                if !w.run(t0 + 200_000, |_| false) {
                    return CaseOut::inconclusive("step limit");
                }
                // (with connection IDs the random destination may by accident belong to a sibling, which then
                // discards the datagram: only zero-length or long IDs make the expectation firm)
                // and only if the token was still the one of the connection ID in use when the datagram
                // arrived (rotation may have moved on in between; the network evaluates that at delivery)
                let firm = (cl == 0 || cl >= 6) && w.exact_reset_offered.contains(&k);
                let lost_reset = w.conns[k].app.lost.iter().any(|l| l.contains("Reset"));
                if firm && !lost_reset && w.conns[k].app.lost.is_empty() {
                    if std::env::var("QV_TRACE").is_ok() {
                        eprintln!("remote cid of conn {k}: {:?} token {:?} sep {sep}", rc, token);
                        eprintln!("{}", w.dump_trace(w.trace.len().saturating_sub(12), 12));
                        for r in &w.trace {
                            if let Rec::Tx { t, conn, dgrams, .. } = r {
                                for p in dgrams.iter().flat_map(|d| d.pkts.iter()) {
                                    for f in p.frames.iter().flatten() {
                                        match f {
                                            OF::NewConnectionId { seq, retire_prior_to, cid, reset_token } if w.conns[*conn].side.is_server() => eprintln!("NCID t={t} conn={conn} seq={seq} rpt={retire_prior_to} cid={cid:?} tok={:?}", &reset_token[..4]),
                                            OF::RetireConnectionId(s) if w.conns[*conn].side.is_client() => eprintln!("RETIRE t={t} conn={conn} seq={s}"),
                                            _ => {}
                                        }
                                    }
                                }
                            }
                        }
                    }
                    return CaseOut::fail(
                        "c09/genuine-reset-not-delivered",
                        format!("a stateless reset carrying the token the server issued for the connection ID client connection {k} is sending to arrived from the server's address, but the connection did not report Reset (other connections of the endpoint talk to the same server address)"),
                    );
                }
                reset_honoured = lost_reset;
            }
        }
    }
    let handles: Vec<usize> = w.conns.iter().map(|c| c.ch.0).collect();
    let handle_reuse = {
        let mut per_ep: BTreeMap<(usize, usize), u32> = BTreeMap::new();
        for cs in &w.conns {
            *per_ep.entry((cs.ep, cs.ch.0)).or_insert(0) += 1;
        }
        per_ep.values().any(|n| *n > 1)
    };
    let _ = handles;
    // (3) teardown: close everything, drain, and probe every connection ID ever seen
    let end = w.now + 600_000_000;
    loop {
        // close whatever is alive, including server connections created late by a delayed duplicate of
        // a departed client's Initial (the idle timeout is disabled in this check)
        let now = w.now_instant();
        for k in 0..w.conns.len() {
            if !w.conns[k].gone && w.conns[k].app.lost.is_empty() && !w.conns[k].app.closed_locally {
                w.conns[k].c.close(now, VarInt::from_u32(1), b"done"[..].into());
                w.conns[k].app.closed_locally = true;
                w.conns[k].closed_at = Some(w.now);
                w.conns[k].dirty = true;
            }
        }
        let ok = w.run(end, |w| w.conns.iter().all(|c| c.gone) || w.conns.iter().any(|c| !c.gone && c.app.lost.is_empty() && !c.app.closed_locally));
        if !ok {
            return CaseOut::inconclusive("step limit");
        }
        if w.conns.iter().all(|c| c.gone) || w.now >= end || !w.viol.is_empty() {
            break;
        }
        if !w.conns.iter().any(|c| !c.gone && c.app.lost.is_empty() && !c.app.closed_locally) {
            break;
        }
    }
    if let Some(v) = w.collect_violations().first() {
        return CaseOut::fail(v.sig.clone(), v.msg.clone());
    }
    if !w.conns.iter().all(|c| c.gone) {
        let st: Vec<String> = w.conns.iter().enumerate().filter(|(_, c)| !c.gone).map(|(k, c)| format!("conn {k} {:?} lost={:?} closed_locally={}", c.side, c.app.lost, c.app.closed_locally)).collect();
        return CaseOut::fail("c09/bookkeeping/not-drained", format!("10 virtual minutes after every connection was closed some have not drained: {st:?}"));
    }
    for (i, e) in w.eps.iter().enumerate() {
        let n = e.ep.open_connections();
        if n != 0 {
            return CaseOut::fail("c09/bookkeeping/open-connections", format!("endpoint {i} reports {n} open connections after all of them drained"));
        }
    }
    // every routing table of every endpoint is empty again (attempts still held by the application keep
    // their initial route and buffer)
    for (i, e) in w.eps.iter().enumerate() {
        let mut sz = e.ep.verif_index_sizes();
        if !e.pending_incoming.is_empty() {
            sz[0] = 0;
            sz[5] = 0;
        }
        if sz != [0; 6] {
            return CaseOut::fail(
                "c09/bookkeeping/routing-table-not-empty",
                format!("endpoint {i}: after every connection drained the routing tables still hold [initial destination IDs, issued IDs, incoming remotes, outgoing remotes, reset tokens, buffered attempts] = {sz:?}"),
            );
        }
    }
    // stale connection IDs route nowhere
    let first_probe = w.next_dgram_id;
    let t0 = w.now;
    let mut probes = 0;
    for (ep, cid) in &cids {
        if w.eps[*ep].spec.cid_len == 0 {
            continue;
        }
        let mut d = vec![0x41u8];
        d.extend_from_slice(cid);
        d.extend((0..40).map(|i| (mix(c.net.seed, i) & 0xff) as u8));
        let to = w.eps[*ep].addrs[0];
        // from an address that had talked to this endpoint before
        let from = if w.eps[*ep].is_server { w.eps[ceps[0]].addrs[0] } else { w.eps[seps[0]].addrs[0] };
        w.inject(t0 + 1000 + probes, to, from, d);
        probes += 1;
    }
    // stateless-reset-shaped datagrams carrying every reset token ever announced, from every address
    // of the endpoint that announced it
    for (reg_ep, issuer_ep, tok) in &tokens {
        let to = w.eps[*reg_ep].addrs[0];
        for from in w.eps[*issuer_ep].addrs.clone() {
            let mut d = vec![0x43u8];
            d.extend((0..30).map(|i| (mix(c.net.seed ^ 0x7e5e, i + probes) & 0xff) as u8));
            d.extend_from_slice(tok);
            w.inject(t0 + 1000 + probes, to, from, d);
            probes += 1;
        }
    }
    let record_was = w.record;
    w.record = true;
    let mark = w.trace.len();
    let _ = w.run(t0 + 5_000_000, |_| false);
    w.record = record_was;
    for rec in &w.trace[mark..] {
        if let Rec::Rx { injected: true, routed, dgram_id, .. } = rec {
            if *dgram_id >= first_probe && matches!(routed, Routed::Conn(_) | Routed::NewIncoming) {
                return CaseOut::fail("c09/bookkeeping/stale-cid-routed", format!("after every connection drained, a datagram addressed to a connection ID that had been issued earlier was routed: {routed:?}"));
            }
        }
    }
    if let Some(v) = w.collect_violations().first() {
        return CaseOut::fail(v.sig.clone(), format!("{} (while probing connection IDs after every connection had drained)", v.msg));
    }
    if !w.conns.iter().all(|c| c.gone) || w.eps.iter().any(|e| e.ep.open_connections() != 0) {
        return CaseOut::fail("c09/bookkeeping/stale-cid-created-state", "probing retired connection IDs created endpoint state".to_string());
    }
    let mut labels = vec![];
    if w.stale_abandoned > 0 {
        labels.push("stale-accept-abandoned");
    }
    if tiny_reset {
        labels.push("late-reset-hit-reissued-tiny-cid");
    }
    if reset_honoured {
        labels.push("genuine-reset-honoured");
    }
    if c.preferred {
        labels.push("preferred-address");
    }
    if live_max >= 3 {
        labels.push("three-or-more-live");
    }
    if rotated {
        labels.push("cid-rotation");
    }
    if handle_reuse {
        labels.push("handle-reuse");
    }
    if c.net.client_ep.cid_len == 0 || c.net.server_ep.cid_len == 0 {
        labels.push("zero-length-cid");
    }
    if c.n_ceps > 1 {
        labels.push("several-client-endpoints");
    }
    if c.n_seps > 1 {
        labels.push("several-server-endpoints");
    }
    if target.is_some() {
        labels.push("target-closed");
    }
    if refused > 0 {
        labels.push("connect-refused");
    }
    if w.stats.dgrams_dropped + w.stats.dgrams_duplicated + w.stats.dgrams_delayed > 0 {
        labels.push("faults");
    }
    match c.net.client_ep.cid_kind {
        CidKind::Seeded => {}
        CidKind::Random => labels.push("random-cid-generator"),
        CidKind::Hashed => labels.push("hashed-cid-generator"),
    }
    let nontrivial = live_max >= 3 && (rotated || handle_reuse);
    let summary = serde_json::json!({"connections": w.conns.len(), "max_live": live_max, "cids_probed": probes, "rotated": rotated, "handle_reuse": handle_reuse, "link": format!("{:?}", w.stats)});
    CaseOut { verdict: Verdict::Pass, labels, nontrivial, summary: Some(summary) }
}

pub fn run(report: &Report) -> i32 {
    report.assume("the link's tag (emitting connection) and the pairing of client and server connections through the order of connect() calls are correct");
    report.assume("with zero-length connection IDs each (client endpoint, server endpoint) address pair carries one connection per case (several would be ambiguous by design)");
    run_prop(
        report,
        "c09",
        "proptest-generated worlds with 1-3 client endpoints, 1-2 server endpoints and 2-10 connections starting at generated times over a shared faulty link (drop/dup/delay), CID generators seeded/random/hashed with lengths 0..20, CID lifetimes 0.1-3 s, local_address_changed() rotations, one target connection closed early by either side; oracles: every genuine datagram handed to a connection reaches the peer of its emitter, per-connection content keys, all non-target workloads complete without ConnectionLost, after close+drain open_connections()==0 and every connection ID ever put on the wire routes to nothing; non-trivial = three or more connections live at once AND (a CID rotation completed OR a connection handle was reused)",
        arb_case,
        report.cases(15_000, 500_000),
        case,
    );
    report.finish("generated-input search (proptest) over multi-connection worlds with a link-side routing oracle")
}
