//! C14a — server acceptance of address-validation tokens, against a reference model of "what a
//! token binds" (plus the shared C14 machinery: link tap, cleartext header parsing, Retry tags).
//!
//! A world holds one server endpoint with a fixed token key (SimCrypto's keyed-tag key or the real
//! ring HKDF/AES-256-GCM key quinn uses by default), a harness wall clock with generated jumps, one of
//! four token logs and generated lifetimes. Tokens are *harvested* in that world (Retry tokens cut
//! out of Retry packets on the link, NEW_TOKEN tokens decoded from NEW_TOKEN frames / captured by a
//! recording `TokenStore`), then presented again — genuine, bit-flipped, truncated, extended,
//! spliced, re-sealed under another key — from generated addresses at generated clock values, by
//! real clients (whose `TokenStore::take` returns the chosen bytes) or by crafted Initials.
//!
//! The oracle never decrypts anything: a presented byte string is looked up in the registry of
//! byte strings the server really issued; its bindings (kind, address, issue time, original DCID)
//! were recorded by the harness at issue time.

use super::c14b;
use crate::cfg::SimClock;
use crate::core::*;
use crate::simcrypto::{self, SimTokenKey};
use crate::simnet::*;
use crate::spec::*;
use crate::wire;
use bytes::Bytes;
use proptest::prelude::*;
use quinn_proto::crypto::HandshakeTokenKey;
use quinn_proto::verif::codec::{token_decode, token_encode, VTokenPayload};
use quinn_proto::{
    BloomTokenLog, ConnectionError, ConnectionId, NoneTokenLog, ServerConfig, Side, TimeSource, TokenLog, TokenReuseError,
    TokenStore, TransportErrorCode, ValidationTokenConfig,
};
use serde::{Deserialize, Serialize};
use serde_json::json;
use std::cell::RefCell;
use std::collections::{BTreeMap, HashSet};
use std::net::{IpAddr, Ipv4Addr, Ipv6Addr, SocketAddr};
use std::rc::Rc;
use std::sync::atomic::{AtomicU64, Ordering};
use std::sync::{Arc, Mutex};
use std::time::{Duration, SystemTime, UNIX_EPOCH};

// ---------------------------------------------------------------------------------------------
// Shared machinery (also used by c14b)
// ---------------------------------------------------------------------------------------------

/// Cleartext part of a long-header packet (valid under header protection as well: only the low
/// bits of the first byte and the packet number are masked)
#[derive(Debug, Clone)]
pub struct Long {
    pub first: u8,
    pub ty: wire::PktType,
    pub version: u32,
    pub dcid: Vec<u8>,
    pub scid: Vec<u8>,
    /// Initial: token field; Retry: retry token
    pub token: Vec<u8>,
    /// Retry: integrity tag
    pub tag: Vec<u8>,
    /// total length of this packet inside the datagram
    pub len: usize,
}

pub fn parse_long(d: &[u8]) -> Option<Long> {
    let mut r = wire::Rd::new(d);
    let first = r.u8().ok()?;
    if first & 0x80 == 0 {
        return None;
    }
    let version = r.u32().ok()?;
    let dl = r.u8().ok()? as usize;
    let dcid = r.bytes(dl).ok()?.to_vec();
    let sl = r.u8().ok()? as usize;
    let scid = r.bytes(sl).ok()?.to_vec();
    if version == 0 {
        return Some(Long { first, ty: wire::PktType::VersionNegotiation, version, dcid, scid, token: vec![], tag: vec![], len: d.len() });
    }
    let ty = match (first >> 4) & 3 {
        0 => wire::PktType::Initial,
        1 => wire::PktType::ZeroRtt,
        2 => wire::PktType::Handshake,
        _ => wire::PktType::Retry,
    };
    if ty == wire::PktType::Retry {
        let rest = r.remaining();
        if rest < 16 {
            return None;
        }
        let token = r.bytes(rest - 16).ok()?.to_vec();
        let tag = r.bytes(16).ok()?.to_vec();
        return Some(Long { first, ty, version, dcid, scid, token, tag, len: d.len() });
    }
    let mut token = vec![];
    if ty == wire::PktType::Initial {
        token = r.var_bytes().ok()?.to_vec();
    }
    let length = r.var().ok()? as usize;
    if length > r.remaining() {
        return None;
    }
    Some(Long { first, ty, version, dcid, scid, token, tag: vec![], len: r.pos + length })
}

/// All coalesced long-header packets at the front of a datagram
pub fn long_packets(d: &[u8]) -> Vec<Long> {
    let mut out = vec![];
    let mut off = 0;
    while off < d.len() {
        let Some(p) = parse_long(&d[off..]) else { break };
        let l = p.len.max(1);
        out.push(p);
        off += l;
    }
    out
}

/// RFC 9001 5.8 Retry integrity tag (QUIC v1), computed with ring independently of quinn
pub fn real_retry_tag(odcid: &[u8], packet_without_tag: &[u8]) -> [u8; 16] {
    use ring::aead;
    const KEY: [u8; 16] = [0xbe, 0x0c, 0x69, 0x0b, 0x9f, 0x66, 0x57, 0x5a, 0x1d, 0x76, 0x6b, 0x54, 0xe3, 0x68, 0xc8, 0x4e];
    const NONCE: [u8; 12] = [0x46, 0x15, 0x99, 0xd3, 0x5d, 0x63, 0x2b, 0xf2, 0x23, 0x98, 0x25, 0xbb];
    let mut pseudo = Vec::with_capacity(packet_without_tag.len() + odcid.len() + 1);
    pseudo.push(odcid.len() as u8);
    pseudo.extend_from_slice(odcid);
    pseudo.extend_from_slice(packet_without_tag);
    let key = aead::LessSafeKey::new(aead::UnboundKey::new(&aead::AES_128_GCM, &KEY).unwrap());
    let tag = key.seal_in_place_separate_tag(aead::Nonce::assume_unique_for_key(NONCE), aead::Aad::from(pseudo), &mut []).unwrap();
    tag.as_ref().try_into().unwrap()
}

pub fn retry_tag_for(crypto: &CryptoKind, odcid: &[u8], packet_without_tag: &[u8]) -> [u8; 16] {
    match crypto {
        CryptoKind::Sim => simcrypto::retry_tag(&ConnectionId::new(odcid), packet_without_tag),
        CryptoKind::Rustls => real_retry_tag(odcid, packet_without_tag),
    }
}

/// Build a Retry packet whose integrity tag is valid for `odcid`
pub fn build_retry(crypto: &CryptoKind, odcid: &[u8], dcid: &[u8], scid: &[u8], token: &[u8], first: u8) -> Vec<u8> {
    let mut p = vec![first];
    p.extend_from_slice(&1u32.to_be_bytes());
    p.push(dcid.len() as u8);
    p.extend_from_slice(dcid);
    p.push(scid.len() as u8);
    p.extend_from_slice(scid);
    p.extend_from_slice(token);
    let tag = retry_tag_for(crypto, odcid, &p);
    p.extend_from_slice(&tag);
    p
}

/// One datagram seen by the link tap
#[derive(Debug, Clone)]
pub struct TapRec {
    pub t: u64,
    pub id: u64,
    pub from: SocketAddr,
    pub to: SocketAddr,
    pub bytes: Vec<u8>,
    pub conn: Option<usize>,
}

pub type Tap = Rc<RefCell<Vec<TapRec>>>;

pub fn tap_record(tap: &Tap, now: u64, f: &InFlight) {
    tap.borrow_mut().push(TapRec { t: now, id: f.dgram_id, from: f.from, to: f.to, bytes: f.bytes.clone(), conn: f.origin_conn });
}

pub fn install_tap(w: &mut World) -> Tap {
    let tap: Tap = Rc::new(RefCell::new(vec![]));
    let t2 = tap.clone();
    w.link_hook = Some(Box::new(move |now, _next, f| {
        tap_record(&t2, now, f);
        vec![]
    }));
    tap
}

/// Client-side token store that hands out a chosen byte string once and records what it is given
#[derive(Default)]
pub struct RecStore {
    pub give: Mutex<Option<Bytes>>,
    pub inserted: Mutex<Vec<Vec<u8>>>,
    pub takes: AtomicU64,
}

impl TokenStore for RecStore {
    fn insert(&self, _server_name: &str, token: Bytes) {
        self.inserted.lock().unwrap().push(token.to_vec());
    }
    fn take(&self, _server_name: &str) -> Option<Bytes> {
        self.takes.fetch_add(1, Ordering::Relaxed);
        self.give.lock().unwrap().take()
    }
}

/// Harness token log: exact set of accepted nonces
#[derive(Default)]
pub struct ExactLog(pub Mutex<HashSet<u128>>);
impl TokenLog for ExactLog {
    fn check_and_insert(&self, nonce: u128, _issued: SystemTime, _lifetime: Duration) -> Result<(), TokenReuseError> {
        if self.0.lock().unwrap().insert(nonce) {
            Ok(())
        } else {
            Err(TokenReuseError)
        }
    }
}

/// Wall clock of the server: world time plus a skew the check moves forward (never backward)
#[derive(Clone)]
pub struct SkewClock {
    pub base: SimClock,
    pub skew: Arc<AtomicU64>,
}
pub const EPOCH_S: u64 = 1_700_000_000;
impl TimeSource for SkewClock {
    fn now(&self) -> SystemTime {
        UNIX_EPOCH + Duration::from_secs(EPOCH_S) + Duration::from_micros(self.base.0.load(Ordering::Relaxed) + self.skew.load(Ordering::Relaxed))
    }
}

pub fn token_key(ring_key: bool, seed: u64) -> Arc<dyn HandshakeTokenKey> {
    if ring_key {
        let mut master = [0u8; 64];
        for i in 0..8 {
            master[i * 8..i * 8 + 8].copy_from_slice(&mix(seed, 0x7000 + i as u64).to_le_bytes());
        }
        // same construction as quinn's `ServerConfig::with_crypto`
        Arc::new(ring::hkdf::Salt::new(ring::hkdf::HKDF_SHA256, &[]).extract(&master))
    } else {
        Arc::new(SimTokenKey(mix(seed, 0x70)))
    }
}

pub fn transport_code(e: &ConnectionError) -> Option<(bool, TransportErrorCode)> {
    match e {
        ConnectionError::TransportError(t) => Some((true, t.code)),
        ConnectionError::ConnectionClosed(c) => Some((false, c.error_code)),
        _ => None,
    }
}

pub fn hex(b: &[u8]) -> String {
    b.iter().map(|x| format!("{x:02x}")).collect()
}

/// Violations raised by the world itself (driver contract, application model) are reported with
/// their own signature plus a C14 suffix
pub fn world_violation(w: &mut World) -> Option<CaseOut> {
    w.collect_violations().into_iter().next().map(|v| CaseOut::fail(format!("{}@c14", v.sig), v.msg))
}

// ---------------------------------------------------------------------------------------------
// Scenario
// ---------------------------------------------------------------------------------------------

#[derive(Clone, Debug, Serialize, Deserialize, PartialEq)]
pub enum LogKind {
    BloomDefault,
    /// `BloomTokenLog::new_expected_items(max_bytes, hits)`: converts to the bloom representation early
    BloomTiny { max_bytes: u16, hits: u8 },
    Exact,
    NoneLog,
}

#[derive(Clone, Debug, Serialize, Deserialize, PartialEq)]
pub enum Mutn {
    Genuine,
    /// flip bit `i % (8 * len)`
    Flip(u16),
    /// keep the first `n % len` bytes
    Truncate(u16),
    Extend { n: u8, byte: u8 },
    /// prepend bytes
    Prefix { n: u8, byte: u8 },
    /// first `cut % len` bytes of this token, rest from the other token
    Splice(u16),
    /// sealed part of this token followed by the nonce (last 16 bytes) of the other one
    NonceSwap,
    Empty,
    /// a token with exactly the same plaintext, sealed under another server's key
    ForeignKey,
    Random { len: u8, seed: u16 },
}

#[derive(Clone, Debug, Serialize, Deserialize, PartialEq)]
pub enum FromSel {
    /// the address the token was issued to
    Issuing,
    OtherPort,
    OtherIp,
    /// IPv4 <-> IPv4-mapped IPv6 form of the issuing address (other IP when it has neither form)
    Mapped,
    Pool(u8),
}

#[derive(Clone, Debug, Serialize, Deserialize, PartialEq)]
pub enum WhenSel {
    /// no clock jump
    Now,
    /// server clock = floor(issued) + lifetime * f / 65536
    Frac(u16),
    /// server clock = floor(issued) + lifetime + delta microseconds
    Expiry(i32),
    /// server clock = floor(issued) + lifetime + s seconds
    Past(u32),
}

#[derive(Clone, Debug, Serialize, Deserialize, PartialEq)]
pub struct Pres {
    /// 0 any, 1 prefer Retry tokens, 2 prefer NEW_TOKEN tokens, 3 prefer tokens of the foreign server
    pub kind: u8,
    pub tok: u16,
    pub other: u16,
    pub mutn: Mutn,
    pub from: FromSel,
    pub when: WhenSel,
    /// server answers unvalidated Incomings with Retry
    pub retry_policy: bool,
    /// presented by a real client (always under rustls); otherwise a crafted Initial
    pub via_client: bool,
    /// immediate re-presentations of the same bytes from the same address
    pub repeat: u8,
}

#[derive(Clone, Debug, Serialize, Deserialize, PartialEq)]
pub enum Op {
    Harvest { from: u8, retry: bool },
    Present(Pres),
}

#[derive(Clone, Debug, Serialize, Deserialize, PartialEq)]
pub struct Accept {
    pub seed: u64,
    pub crypto: CryptoKind,
    /// real HKDF/AES-GCM token key (always with rustls)
    pub ring_key: bool,
    pub log: LogKind,
    pub retry_lifetime_ms: u32,
    pub vt_lifetime_s: u32,
    pub tokens_sent: u8,
    /// initial clock skew (microseconds)
    pub start_us: u32,
    pub lat_us: [u32; 2],
    pub server_cid_len: u8,
    /// harvest tokens from a second server (other key, same client address, same clock) first
    pub foreign_world: bool,
    pub ops: Vec<Op>,
}

fn arb_mutn() -> impl Strategy<Value = Mutn> {
    prop_oneof![
        10 => Just(Mutn::Genuine),
        5 => any::<u16>().prop_map(Mutn::Flip),
        2 => any::<u16>().prop_map(Mutn::Truncate),
        1 => (0u8..20, any::<u8>()).prop_map(|(n, byte)| Mutn::Extend { n, byte }),
        1 => (0u8..20, any::<u8>()).prop_map(|(n, byte)| Mutn::Prefix { n, byte }),
        2 => any::<u16>().prop_map(Mutn::Splice),
        1 => Just(Mutn::NonceSwap),
        1 => Just(Mutn::Empty),
        2 => Just(Mutn::ForeignKey),
        1 => (0u8..120, any::<u16>()).prop_map(|(len, seed)| Mutn::Random { len, seed }),
    ]
}

fn arb_when() -> impl Strategy<Value = WhenSel> {
    prop_oneof![
        6 => Just(WhenSel::Now),
        3 => any::<u16>().prop_map(WhenSel::Frac),
        5 => prop_oneof![Just(-1_000_001i32), Just(-1_000_000), Just(-999_999), Just(-1), Just(0), Just(1), Just(2), Just(999_999), Just(1_000_000), -2_000_000i32..2_000_000]
            .prop_map(WhenSel::Expiry),
        1 => prop_oneof![1u32..10, 10u32..100_000].prop_map(WhenSel::Past),
    ]
}

fn arb_pres() -> impl Strategy<Value = Pres> {
    (
        prop_oneof![3 => Just(0u8), 3 => Just(1u8), 3 => Just(2u8), 1 => Just(3u8)],
        any::<u16>(),
        any::<u16>(),
        arb_mutn(),
        prop_oneof![8 => Just(FromSel::Issuing), 2 => Just(FromSel::OtherPort), 2 => Just(FromSel::OtherIp), 2 => Just(FromSel::Mapped), 1 => (0u8..6).prop_map(FromSel::Pool)],
        arb_when(),
        any::<bool>(),
        prop::bool::weighted(0.3),
        prop_oneof![5 => Just(0u8), 2 => Just(1u8), 1 => Just(2u8)],
    )
        .prop_map(|(kind, tok, other, mutn, from, when, retry_policy, via_client, repeat)| Pres { kind, tok, other, mutn, from, when, retry_policy, via_client, repeat })
}

pub fn arb_accept() -> impl Strategy<Value = Accept> {
    let cfg = (
        any::<u64>(),
        prop_oneof![6 => Just(CryptoKind::Sim), 1 => Just(CryptoKind::Rustls)],
        any::<bool>(),
        prop_oneof![
            2 => Just(LogKind::BloomDefault),
            2 => (0u16..200, 1u8..50).prop_map(|(max_bytes, hits)| LogKind::BloomTiny { max_bytes, hits }),
            4 => Just(LogKind::Exact),
            1 => Just(LogKind::NoneLog),
        ],
        prop_oneof![Just(1_000u32), Just(1_500), Just(2_000), Just(15_000), Just(60_000), Just(3_600_000), Just(86_400_000), Just(1_209_600_000), 1_000u32..100_000],
        prop_oneof![Just(1u32), Just(2), Just(10), Just(60), Just(3_600), Just(86_400), Just(1_209_600), Just(2_592_000), 1u32..100_000],
        1u8..=3,
        0u32..3_000_000,
        (500u32..10_000, 500u32..10_000),
        prop_oneof![3 => Just(8u8), 1 => 4u8..=20],
        prop::bool::weighted(0.25),
    );
    let ops = (
        (0u8..6, any::<bool>()),
        prop::collection::vec(
            prop_oneof![
                1 => (0u8..6, any::<bool>()).prop_map(|(from, retry)| Op::Harvest { from, retry }),
                7 => arb_pres().prop_map(Op::Present),
            ],
            3..22,
        ),
    );
    (cfg, ops).prop_map(|((seed, crypto, ring_key, log, retry_lifetime_ms, vt_lifetime_s, tokens_sent, start_us, (l0, l1), server_cid_len, foreign_world), ((from, retry), mut rest))| {
        let mut ops = vec![Op::Harvest { from, retry }];
        // make sure both token kinds exist early on
        if !retry {
            ops.push(Op::Harvest { from, retry: true });
        }
        ops.append(&mut rest);
        let ring_key = ring_key || crypto == CryptoKind::Rustls;
        Accept { seed, crypto, ring_key, log, retry_lifetime_ms, vt_lifetime_s, tokens_sent, start_us, lat_us: [l0, l1], server_cid_len, foreign_world, ops }
    })
}

// ---------------------------------------------------------------------------------------------
// Reference model state
// ---------------------------------------------------------------------------------------------

#[derive(Clone, Copy, Debug, PartialEq)]
enum TokKind {
    Retry,
    Validation,
}

/// A byte string some server issued, with the bindings the harness recorded when it was issued
#[derive(Clone, Debug)]
struct Tok {
    bytes: Vec<u8>,
    kind: TokKind,
    /// address the token was issued to (for NEW_TOKEN tokens only the IP matters)
    addr: SocketAddr,
    /// Retry tokens: destination CID of the Initial that was answered with the Retry
    odcid: Vec<u8>,
    /// server clock at issue time, microseconds after EPOCH_S
    issued_us: u64,
    /// the server has reported an address as validated by this token (NEW_TOKEN tokens)
    accepted: bool,
    /// issued by the other server (other key): unknown to the server under test
    foreign: bool,
}

pub fn pool_addr(i: u8) -> SocketAddr {
    match i % 6 {
        0 => addr_v6(1, 5000),
        1 => addr_v6(1, 5001),
        2 => addr_v6(3, 5000),
        3 => SocketAddr::new(IpAddr::V4(Ipv4Addr::new(10, 0, 0, 7)), 5000),
        4 => SocketAddr::new(IpAddr::V6(Ipv4Addr::new(10, 0, 0, 7).to_ipv6_mapped()), 5000),
        _ => SocketAddr::new(IpAddr::V4(Ipv4Addr::new(10, 0, 0, 8)), 6000),
    }
}

fn other_ip(a: SocketAddr) -> SocketAddr {
    let ip = match a.ip() {
        IpAddr::V4(v) => {
            let mut o = v.octets();
            o[3] ^= 0x10;
            IpAddr::V4(Ipv4Addr::from(o))
        }
        IpAddr::V6(v) => {
            let mut s = v.segments();
            s[7] ^= 0x10;
            IpAddr::V6(Ipv6Addr::from(s))
        }
    };
    SocketAddr::new(ip, a.port())
}

fn mapped_variant(a: SocketAddr) -> SocketAddr {
    match a.ip() {
        IpAddr::V4(v) => SocketAddr::new(IpAddr::V6(v.to_ipv6_mapped()), a.port()),
        IpAddr::V6(v) => match v.to_ipv4_mapped() {
            Some(v4) => SocketAddr::new(IpAddr::V4(v4), a.port()),
            None => other_ip(a),
        },
    }
}

#[derive(Default, Clone, Debug)]
struct Tally {
    presentations: u64,
    genuine_ok: u64,
    one_binding: u64,
    flips: u64,
    invalid_token: u64,
    bloom_fp: u64,
    bloom_ok: u64,
    via_client: u64,
    handshakes_completed_after_altered: u64,
    labels: Vec<&'static str>,
}

impl Tally {
    fn label(&mut self, l: &'static str) {
        if !self.labels.contains(&l) {
            self.labels.push(l);
        }
    }
}

/// Aggregated positive-control counters of a sub-check run
#[derive(Default)]
pub struct AcceptStats {
    pub presentations: AtomicU64,
    pub genuine_ok: AtomicU64,
    pub one_binding: AtomicU64,
    pub flips: AtomicU64,
    pub invalid_token: AtomicU64,
    pub bloom_ok: AtomicU64,
    pub bloom_fp: AtomicU64,
    pub via_client: AtomicU64,
    pub altered_connected: AtomicU64,
}

struct Ctx<'a> {
    a: &'a Accept,
    w: World,
    tap: Tap,
    skew: Arc<AtomicU64>,
    key: Arc<dyn HandshakeTokenKey>,
    foreign_key: Arc<dyn HandshakeTokenKey>,
    reg: Vec<Tok>,
    injected: BTreeMap<u64, Vec<u8>>,
    trace_pos: usize,
    tap_pos: usize,
    craft_ctr: u64,
    sim: bool,
    tally: Tally,
    /// (store, client address) of client phases whose NEW_TOKEN tokens are not registered yet (rustls)
    pending_stores: Vec<(Arc<RecStore>, SocketAddr, usize)>,
}

type Fail = (String, String);

/// What the model expects for one first-flight Initial
#[derive(Debug, Clone, PartialEq)]
enum Exp {
    /// like no token: Incoming, not validated, Retry allowed, original DCID = header DCID
    Absent { why: &'static str },
    /// genuine Retry token in place: validated, no further Retry, original DCID from the registry
    RetryOk { odcid: Vec<u8> },
    /// genuine Retry token, stale or from another address: INVALID_TOKEN close, no Incoming
    InvalidToken { why: &'static str },
    /// genuine NEW_TOKEN token with every binding intact (index into the registry)
    ValOk { idx: usize },
}

fn build_world(a: &Accept, key: Arc<dyn HandshakeTokenKey>, skew: Arc<AtomicU64>) -> (World, Tap) {
    let mut net = NetSpec::default();
    net.seed = a.seed;
    net.crypto = a.crypto.clone();
    net.latency_us = a.lat_us;
    net.server_ep.cid_len = a.server_cid_len.clamp(4, 20);
    net.srv.tokens_sent = a.tokens_sent;
    net.srv.retry_token_lifetime_ms = a.retry_lifetime_ms;
    net.client_tc.mtud = None;
    net.server_tc.mtud = None;
    let mut w = World::new(net);
    w.check_amp = false;
    let log: Arc<dyn TokenLog> = match &a.log {
        LogKind::BloomDefault => Arc::new(BloomTokenLog::default()),
        LogKind::BloomTiny { max_bytes, hits } => Arc::new(BloomTokenLog::new_expected_items(*max_bytes as usize, *hits as u64)),
        LogKind::Exact => Arc::new(ExactLog::default()),
        LogKind::NoneLog => Arc::new(NoneTokenLog),
    };
    let clock = SkewClock { base: w.clock.clone(), skew };
    let (sent, life) = (a.tokens_sent as u32, a.vt_lifetime_s as u64);
    w.server_cfg_hook = Some(Rc::new(move |sc: &mut ServerConfig| {
        sc.token_key(key.clone());
        sc.time_source(Arc::new(clock.clone()));
        let mut vt = ValidationTokenConfig::default();
        vt.sent(sent);
        vt.lifetime(Duration::from_secs(life));
        vt.log(log.clone());
        sc.validation_token_config(vt);
    }));
    w.reconfigure_server();
    let tap = install_tap(&mut w);
    (w, tap)
}

fn ep_for(w: &mut World, addr: SocketAddr) -> usize {
    match w.eps.iter().position(|e| !e.is_server && e.addrs.contains(&addr)) {
        Some(i) => i,
        None => w.add_endpoint(false, vec![addr]),
    }
}

impl<'a> Ctx<'a> {
    fn new(a: &'a Accept) -> Self {
        let skew = Arc::new(AtomicU64::new(a.start_us as u64));
        let key = token_key(a.ring_key, a.seed);
        let foreign_key = token_key(a.ring_key, a.seed ^ 0x5eed_f00d);
        let (w, tap) = build_world(a, key.clone(), skew.clone());
        Self {
            a,
            w,
            tap,
            skew,
            key,
            foreign_key,
            reg: vec![],
            injected: BTreeMap::new(),
            trace_pos: 0,
            tap_pos: 0,
            craft_ctr: 0,
            sim: a.crypto == CryptoKind::Sim,
            tally: Tally::default(),
            pending_stores: vec![],
        }
    }

    fn retry_lifetime_us(&self) -> u64 {
        self.a.retry_lifetime_ms as u64 * 1000
    }
    fn vt_lifetime_us(&self) -> u64 {
        self.a.vt_lifetime_s as u64 * 1_000_000
    }
    /// last clock value (microseconds after EPOCH_S) at which the token is within its lifetime:
    /// the encoding keeps whole seconds only
    fn expiry_us(&self, t: &Tok) -> u64 {
        let floor = t.issued_us - t.issued_us % 1_000_000;
        floor + match t.kind {
            TokKind::Retry => self.retry_lifetime_us(),
            TokKind::Validation => self.vt_lifetime_us(),
        }
    }

    fn phase_len(&self) -> u64 {
        let rtt = (self.a.lat_us[0] + self.a.lat_us[1]) as u64;
        8 * rtt + 60_000
    }

    fn bytes_of(&self, id: u64) -> Option<Vec<u8>> {
        if let Some(b) = self.injected.get(&id) {
            return Some(b.clone());
        }
        let tap = self.tap.borrow();
        // ids are increasing in the tap
        tap.binary_search_by_key(&id, |r| r.id).ok().map(|i| tap[i].bytes.clone())
    }

    /// Model verdict for an Initial carrying `token`, sent from `from` to DCID `dcid`, processed when
    /// the server clock shows `clock` (microseconds after EPOCH_S)
    fn expect(&self, token: &[u8], from: SocketAddr, clock: u64) -> Exp {
        if token.is_empty() {
            return Exp::Absent { why: "no token" };
        }
        let Some(idx) = self.reg.iter().position(|k| !k.foreign && k.bytes == token) else {
            return Exp::Absent { why: "not a token this server issued" };
        };
        let k = &self.reg[idx];
        let fresh = clock <= self.expiry_us(k);
        match k.kind {
            TokKind::Retry => {
                if from != k.addr {
                    Exp::InvalidToken { why: if fresh { "retry token from another address" } else { "retry token from another address and stale" } }
                } else if !fresh {
                    Exp::InvalidToken { why: "stale retry token" }
                } else {
                    Exp::RetryOk { odcid: k.odcid.clone() }
                }
            }
            TokKind::Validation => {
                if from.ip() != k.addr.ip() {
                    Exp::Absent { why: "NEW_TOKEN token from another IP" }
                } else if !fresh {
                    Exp::Absent { why: "stale NEW_TOKEN token" }
                } else if k.accepted {
                    Exp::Absent { why: "NEW_TOKEN token already accepted" }
                } else {
                    Exp::ValOk { idx }
                }
            }
        }
    }

    /// Number of bindings (address, time, reuse) a registered token violates in this presentation
    fn violated_bindings(&self, idx: usize, from: SocketAddr, clock: u64) -> u32 {
        let k = &self.reg[idx];
        let mut n = 0;
        let addr_ok = match k.kind {
            TokKind::Retry => from == k.addr,
            TokKind::Validation => from.ip() == k.addr.ip(),
        };
        if !addr_ok {
            n += 1;
        }
        if clock > self.expiry_us(k) {
            n += 1;
        }
        if k.accepted {
            n += 1;
        }
        n
    }

    /// Walk the trace records added since the last call: evaluate every first-flight Initial the
    /// server saw against the model, register the Retry tokens it issued. Returns the expectation
    /// of each evaluated Initial, in order.
    fn evaluate(&mut self) -> Result<Vec<(u64, Exp)>, Fail> {
        let skew = self.skew.load(Ordering::Relaxed);
        #[derive(Clone)]
        struct Ev {
            t: u64,
            from: SocketAddr,
            id: u64,
            routed: Routed,
            /// frames of the stateless response emitted while handling it (sim), its size
            resp: Option<(Option<Vec<OF>>, usize)>,
        }
        let mut evs: Vec<Ev> = vec![];
        let mut last_resp: Option<(u64, Option<Vec<OF>>, usize)> = None;
        for r in &self.w.trace[self.trace_pos..] {
            match r {
                Rec::TxEp { t, ep, dgram, size, inciting_size, .. } if *ep == SERVER_EP && *inciting_size > 0 => {
                    last_resp = Some((*t, dgram.pkts.first().and_then(|p| p.frames.clone()), *size));
                }
                Rec::Rx { t, ep, from, dgram_id, routed, .. } if *ep == SERVER_EP => {
                    let resp = match (routed, &last_resp) {
                        (Routed::Response(_), Some((rt, f, s))) if rt == t => Some((f.clone(), *s)),
                        _ => None,
                    };
                    last_resp = None;
                    evs.push(Ev { t: *t, from: *from, id: *dgram_id, routed: routed.clone(), resp });
                }
                _ => {}
            }
        }
        self.trace_pos = self.w.trace.len();
        let mut out = vec![];
        for ev in evs {
            if matches!(ev.routed, Routed::Conn(_) | Routed::NoEndpoint) {
                continue;
            }
            let Some(bytes) = self.bytes_of(ev.id) else { continue };
            let Some(h) = parse_long(&bytes) else { continue };
            if h.ty != wire::PktType::Initial || bytes.len() < 1200 {
                continue;
            }
            let clock = ev.t + skew;
            let exp = self.expect(&h.token, ev.from, clock);
            let ctx = |s: &Ctx| {
                format!(
                    "Initial from {} at server clock {}.{:06} s, DCID {}, token ({} bytes) {} -- model: {:?}",
                    ev.from,
                    clock / 1_000_000,
                    clock % 1_000_000,
                    hex(&h.dcid),
                    h.token.len(),
                    s.describe(&h.token),
                    exp
                )
            };
            match &ev.routed {
                Routed::NewIncoming => {
                    let Some(inc) = self.w.incoming_log.iter().rev().find(|i| i.dgram_id == ev.id).cloned() else {
                        return Err(("c14/harness".into(), "Incoming without log record".into()));
                    };
                    match &exp {
                        Exp::Absent { why } => {
                            if inc.validated {
                                let sig = match *why {
                                    "NEW_TOKEN token from another IP" => "c14/moved-token-validated",
                                    "stale NEW_TOKEN token" => "c14/stale-token-validated",
                                    "NEW_TOKEN token already accepted" => "c14/replayed-token-validated",
                                    _ => "c14/forged-token-validated",
                                };
                                return Err((sig.into(), format!("remote_address_validated() == true although: {why}. {}", ctx(self))));
                            }
                            if !inc.may_retry || inc.odcid != h.dcid {
                                return Err((
                                    "c14/altered-token-not-absent".into(),
                                    format!("token must be treated as absent ({why}) but may_retry() == {} and orig_dst_cid() == {} . {}", inc.may_retry, hex(&inc.odcid), ctx(self)),
                                ));
                            }
                        }
                        Exp::InvalidToken { why } => {
                            let sig = if inc.validated {
                                if why.contains("stale") && !why.contains("address") {
                                    "c14/stale-token-validated"
                                } else {
                                    "c14/moved-token-validated"
                                }
                            } else {
                                "c14/retry-token-misuse-not-invalid-token"
                            };
                            return Err((sig.into(), format!("{why}: the attempt must end with INVALID_TOKEN, but an Incoming was produced (validated == {}, may_retry == {}). {}", inc.validated, inc.may_retry, ctx(self))));
                        }
                        Exp::RetryOk { odcid } => {
                            if !inc.validated || inc.may_retry {
                                return Err((
                                    "c14/genuine-token-rejected".into(),
                                    format!("genuine fresh Retry token from the address it was issued to: validated == {}, may_retry == {}. {}", inc.validated, inc.may_retry, ctx(self)),
                                ));
                            }
                            if &inc.odcid != odcid {
                                return Err(("c14/odcid-mismatch".into(), format!("orig_dst_cid() == {} but the Retry answered an Initial to {}. {}", hex(&inc.odcid), hex(odcid), ctx(self))));
                            }
                            self.tally.genuine_ok += 1;
                        }
                        Exp::ValOk { idx } => {
                            if !inc.may_retry || inc.odcid != h.dcid {
                                return Err((
                                    "c14/altered-token-not-absent".into(),
                                    format!("NEW_TOKEN token: may_retry() == {} and orig_dst_cid() == {}. {}", inc.may_retry, hex(&inc.odcid), ctx(self)),
                                ));
                            }
                            match (&self.a.log, inc.validated) {
                                (LogKind::NoneLog, true) => {
                                    return Err(("c14/replayed-token-validated".into(), format!("NoneTokenLog never accepts a token, yet validated == true. {}", ctx(self))));
                                }
                                (LogKind::Exact, false) => {
                                    return Err((
                                        "c14/genuine-token-rejected".into(),
                                        format!("genuine fresh first-use NEW_TOKEN token from the IP it was issued to was not accepted (exact-set token log). {}", ctx(self)),
                                    ));
                                }
                                (LogKind::BloomDefault | LogKind::BloomTiny { .. }, false) => self.tally.bloom_fp += 1,
                                (LogKind::BloomDefault | LogKind::BloomTiny { .. }, true) => self.tally.bloom_ok += 1,
                                _ => {}
                            }
                            if inc.validated {
                                self.reg[*idx].accepted = true;
                                self.tally.genuine_ok += 1;
                            }
                        }
                    }
                    if inc.action == "retry" {
                        // the Retry the server sent in answer: register its token
                        let tok = {
                            let tap = self.tap.borrow();
                            tap.iter()
                                .filter(|r| r.id > ev.id && r.t == ev.t && r.to == ev.from && r.conn.is_none())
                                .filter_map(|r| parse_long(&r.bytes))
                                .find(|p| p.ty == wire::PktType::Retry && p.dcid == h.scid)
                                .map(|p| p.token)
                        };
                        let Some(tok) = tok else {
                            return Err(("c14/harness".into(), "Retry decided but no Retry packet on the link".into()));
                        };
                        self.register(Tok { bytes: tok, kind: TokKind::Retry, addr: ev.from, odcid: h.dcid.clone(), issued_us: clock, accepted: false, foreign: false })?;
                    }
                }
                Routed::Response(_) => {
                    let is_invalid_token = match &ev.resp {
                        Some((Some(frames), _)) => Some(frames.iter().any(|f| matches!(f, OF::ConnectionClose { code: 0x0b, .. }))),
                        _ => None,
                    };
                    match &exp {
                        Exp::InvalidToken { .. } => {
                            if is_invalid_token == Some(false) {
                                return Err(("c14/retry-token-misuse-not-invalid-token".into(), format!("stateless response is not an Initial CONNECTION_CLOSE INVALID_TOKEN: {:?}. {}", ev.resp, ctx(self))));
                            }
                            self.tally.invalid_token += 1;
                        }
                        Exp::RetryOk { .. } => {
                            return Err((
                                "c14/genuine-token-rejected".into(),
                                format!("genuine fresh Retry token from the address it was issued to was answered statelessly ({:?}). {}", ev.resp, ctx(self)),
                            ));
                        }
                        _ => {
                            return Err((
                                "c14/altered-token-not-absent".into(),
                                format!("the server answered statelessly ({:?}) instead of producing an Incoming. {}", ev.resp, ctx(self)),
                            ));
                        }
                    }
                }
                _ => {
                    return Err(("c14/altered-token-not-absent".into(), format!("the server ignored the datagram (no Incoming, no response). {}", ctx(self))));
                }
            }
            out.push((ev.id, exp));
        }
        Ok(out)
    }

    fn describe(&self, token: &[u8]) -> String {
        match self.reg.iter().position(|k| k.bytes == token) {
            Some(i) => {
                let k = &self.reg[i];
                format!(
                    "= registry #{i} ({:?}{} issued to {} at {}.{:06} s, accepted {})",
                    k.kind,
                    if k.foreign { ", FOREIGN server" } else { "" },
                    k.addr,
                    k.issued_us / 1_000_000,
                    k.issued_us % 1_000_000,
                    k.accepted
                )
            }
            None => format!("{} (not issued by any server)", hex(&token[..token.len().min(24)])),
        }
    }

    /// Add an issued token to the registry, cross-checking the harness' record of its bindings with
    /// the token plaintext (verif hook) - a disagreement means the harness model of issue time /
    /// address is wrong, not that quinn is
    fn register(&mut self, t: Tok) -> Result<(), Fail> {
        if self.reg.iter().any(|k| k.bytes == t.bytes) {
            return Ok(());
        }
        let key = if t.foreign { &self.foreign_key } else { &self.key };
        let secs = |st: SystemTime| st.duration_since(UNIX_EPOCH).map(|d| d.as_secs()).unwrap_or(0);
        match (token_decode(&**key, &t.bytes), t.kind) {
            (Some((_, VTokenPayload::Retry { address, orig_dst_cid, issued })), TokKind::Retry) => {
                if address != t.addr || orig_dst_cid[..] != t.odcid[..] || secs(issued) != EPOCH_S + t.issued_us / 1_000_000 {
                    return Err(("c14/harness-registry".into(), format!("registry {t:?} disagrees with token plaintext {address} {orig_dst_cid} {issued:?}")));
                }
            }
            (Some((_, VTokenPayload::Validation { ip, issued })), TokKind::Validation) => {
                if ip != t.addr.ip() || secs(issued) != EPOCH_S + t.issued_us / 1_000_000 {
                    return Err(("c14/harness-registry".into(), format!("registry {t:?} disagrees with token plaintext {ip} {issued:?}")));
                }
            }
            (d, _) => {
                return Err(("c14/harness-registry".into(), format!("registry {t:?}: token does not decode as its kind under the issuing key: {d:?}")));
            }
        }
        self.reg.push(t);
        Ok(())
    }

    /// Register the NEW_TOKEN tokens issued since the last call
    fn register_new_tokens(&mut self, foreign: bool) -> Result<(), Fail> {
        let skew = self.skew.load(Ordering::Relaxed);
        if self.sim {
            let recs: Vec<TapRec> = self.tap.borrow()[self.tap_pos..].iter().filter(|r| r.conn.is_some_and(|k| self.w.conns[k].side.is_server())).cloned().collect();
            for r in recs {
                let ccl = self.w.spec.client_ep.cid_len as usize;
                for p in wire::decode_datagram(&r.bytes, ccl).into_iter().flatten() {
                    if p.ty.space().is_none() {
                        continue;
                    }
                    for f in wire::decode_frames(&p.payload).unwrap_or_default() {
                        if let wire::Frame::NewToken { token } = f {
                            self.register(Tok { bytes: token, kind: TokKind::Validation, addr: r.to, odcid: vec![], issued_us: r.t + skew, accepted: false, foreign })?;
                        }
                    }
                }
            }
            self.pending_stores.clear();
        } else {
            // frames are not observable: take the tokens from the clients' stores; the issue time is
            // read from the token plaintext through the verif hook
            let pend = std::mem::take(&mut self.pending_stores);
            for (store, addr, _k) in pend {
                let toks = store.inserted.lock().unwrap().clone();
                for tok in toks {
                    let key = if foreign { &self.foreign_key } else { &self.key };
                    let Some((_, VTokenPayload::Validation { issued, .. })) = token_decode(&**key, &tok) else {
                        return Err(("c14/harness-registry".into(), format!("NEW_TOKEN token {} received by a client does not decode under the server key", hex(&tok))));
                    };
                    let s = issued.duration_since(UNIX_EPOCH).unwrap().as_secs().saturating_sub(EPOCH_S);
                    self.register(Tok { bytes: tok, kind: TokKind::Validation, addr, odcid: vec![], issued_us: s * 1_000_000, accepted: false, foreign })?;
                }
            }
        }
        self.tap_pos = self.tap.borrow().len();
        Ok(())
    }

    fn run_phase(&mut self) -> Result<(), CaseOut> {
        let until = self.w.now + self.phase_len();
        self.w.run(until, |_| false);
        if self.w.hit_step_limit {
            return Err(CaseOut::inconclusive("step limit"));
        }
        if let Some(c) = world_violation(&mut self.w) {
            return Err(c);
        }
        if self.w.now < until {
            self.w.now = until;
            self.w.clock.0.store(until, Ordering::Relaxed);
        }
        Ok(())
    }

    /// One real client connecting from `addr`, its token store handing out `token`
    fn client_phase(&mut self, addr: SocketAddr, token: &[u8], retry_policy: bool) -> Result<(usize, Vec<(u64, Exp)>, usize), CaseOut> {
        let ep = ep_for(&mut self.w, addr);
        let store = Arc::new(RecStore::default());
        if !token.is_empty() {
            *store.give.lock().unwrap() = Some(Bytes::copy_from_slice(token));
        }
        self.w.client_token_store = Some(store.clone());
        self.w.spec.srv.retry = retry_policy;
        self.w.incoming_ignore = false;
        let server_conns_before = self.w.conns.iter().filter(|c| c.side.is_server()).count();
        let k = match self.w.connect(ep, ConnLoad { client: SideLoad::default(), server: SideLoad::default() }) {
            Ok(k) => k,
            Err(e) => return Err(CaseOut::inconclusive(format!("connect failed: {e:?}"))),
        };
        self.pending_stores.push((store, addr, k));
        self.run_phase()?;
        let exps = self.evaluate().map_err(|(s, m)| fail_or_inconclusive(s, m))?;
        Ok((k, exps, server_conns_before))
    }

    fn harvest(&mut self, from: u8, retry: bool) -> Result<(), CaseOut> {
        let addr = pool_addr(from);
        let (k, exps, _) = self.client_phase(addr, &[], retry)?;
        // whole-second token timestamps: a Retry token with a lifetime of about a second can expire
        // while the client's answer is in flight (the model predicts the INVALID_TOKEN close)
        let expired_in_flight = exps.iter().skip(1).any(|e| matches!(e.1, Exp::InvalidToken { .. }));
        if expired_in_flight {
            self.tally.label("fresh-retry-token-expired-in-flight");
        }
        if !self.w.conns[k].app.connected && !expired_in_flight {
            return Err(CaseOut::fail(
                "c14/handshake-failed",
                format!("plain handshake (no token, retry policy {retry}) from {addr} did not complete: {:?}", self.w.conns[k].app.lost),
            ));
        }
        self.register_new_tokens(false).map_err(|(s, m)| fail_or_inconclusive(s, m))?;
        Ok(())
    }

    fn craft_initial(&mut self, token: &[u8]) -> Vec<u8> {
        self.craft_ctr += 1;
        let ctr = self.craft_ctr;
        self.craft_initial_with(ctr, token, None)
    }

    /// Initial whose CIDs are a function of `ctr`; `dcid_len` overrides the default 8..20 bytes
    fn craft_initial_with(&self, ctr: u64, token: &[u8], dcid_len: Option<usize>) -> Vec<u8> {
        let s = mix(self.a.seed ^ 0xc4af7, ctr);
        let a = mix(s, 1);
        let b = mix(s, 2);
        let c = mix(s, 3);
        let mut dcid = a.to_le_bytes().to_vec();
        dcid.extend_from_slice(&b.to_le_bytes());
        dcid.extend_from_slice(&c.to_le_bytes()[..4]);
        dcid.truncate(dcid_len.unwrap_or(8 + (s % 13) as usize));
        let scid = mix(s, 4).to_le_bytes();
        let payload = wire::encode_frames(&[wire::Frame::Crypto { offset: 0, data: vec![1, 0, 0, 9, 0, 0, 0, 0, 0, 0, 0, 0, 0] }]);
        let key = simcrypto::level_key(simcrypto::conn_key(&ConnectionId::new(&dcid)), 0, Side::Client);
        let mut out = Vec::new();
        wire::build_packet(
            &wire::BuildPkt { ty: wire::PktType::Initial, version: 1, dcid: &dcid, scid: &scid, token, pn: 0, pn_len: 1, key_phase: false, payload: &payload, key, min_len: 1200, first_byte_xor: 0 },
            &mut out,
        );
        out
    }

    fn crafted_phase(&mut self, addr: SocketAddr, token: &[u8]) -> Result<Vec<(u64, Exp)>, CaseOut> {
        let bytes = self.craft_initial(token);
        self.w.incoming_ignore = true;
        let server = self.w.eps[SERVER_EP].addrs[0];
        let at = self.w.now + self.a.lat_us[0] as u64;
        let id = self.w.inject(at, server, addr, bytes.clone());
        self.injected.insert(id, bytes);
        self.w.run(at + 1, |_| false);
        self.w.incoming_ignore = false;
        if self.w.hit_step_limit {
            return Err(CaseOut::inconclusive("step limit"));
        }
        if let Some(c) = world_violation(&mut self.w) {
            return Err(c);
        }
        self.evaluate().map_err(|(s, m)| fail_or_inconclusive(s, m))
    }

    /// Apply the mutation; returns the byte string to present
    fn mutate(&self, base: Option<&Tok>, other: Option<&Tok>, m: &Mutn) -> Vec<u8> {
        let g = base.map(|t| t.bytes.clone()).unwrap_or_default();
        let h = other.map(|t| t.bytes.clone()).unwrap_or_default();
        match m {
            Mutn::Genuine => g,
            Mutn::Flip(i) => {
                let mut v = g;
                if !v.is_empty() {
                    let bit = *i as usize % (8 * v.len());
                    v[bit / 8] ^= 1 << (bit % 8);
                }
                v
            }
            Mutn::Truncate(n) => {
                let mut v = g;
                if !v.is_empty() {
                    let keep = *n as usize % v.len();
                    v.truncate(keep);
                }
                v
            }
            Mutn::Extend { n, byte } => {
                let mut v = g;
                v.extend(std::iter::repeat(*byte).take(*n as usize + 1));
                v
            }
            Mutn::Prefix { n, byte } => {
                let mut v = vec![*byte; *n as usize + 1];
                v.extend_from_slice(&g);
                v
            }
            Mutn::Splice(cut) => {
                if g.is_empty() {
                    return h;
                }
                let c = *cut as usize % g.len();
                let mut v = g[..c].to_vec();
                if h.len() > c {
                    v.extend_from_slice(&h[c..]);
                }
                v
            }
            Mutn::NonceSwap => {
                if g.len() < 16 || h.len() < 16 {
                    return g;
                }
                let mut v = g[..g.len() - 16].to_vec();
                v.extend_from_slice(&h[h.len() - 16..]);
                v
            }
            Mutn::Empty => vec![],
            Mutn::ForeignKey => match base {
                Some(t) => {
                    let issued = UNIX_EPOCH + Duration::from_secs(EPOCH_S + t.issued_us / 1_000_000);
                    let p = match t.kind {
                        TokKind::Retry => VTokenPayload::Retry { address: t.addr, orig_dst_cid: ConnectionId::new(&t.odcid), issued },
                        TokKind::Validation => VTokenPayload::Validation { ip: t.addr.ip(), issued },
                    };
                    let nonce = (mix(self.a.seed, t.issued_us) as u128) << 64 | mix(self.a.seed, t.bytes.len() as u64 + self.craft_ctr) as u128;
                    token_encode(&*self.foreign_key, nonce, &p)
                }
                None => vec![],
            },
            Mutn::Random { len, seed } => {
                let mut s = mix(self.a.seed, *seed as u64);
                (0..*len).map(|_| {
                    s = mix(s, 7);
                    s as u8
                })
                .collect()
            }
        }
    }

    fn present(&mut self, p: &Pres) -> Result<(), CaseOut> {
        // ---- select
        let cand: Vec<usize> = {
            let pref: Vec<usize> = (0..self.reg.len())
                .filter(|&i| match p.kind {
                    1 => self.reg[i].kind == TokKind::Retry && !self.reg[i].foreign,
                    2 => self.reg[i].kind == TokKind::Validation && !self.reg[i].foreign,
                    3 => self.reg[i].foreign,
                    _ => true,
                })
                .collect();
            if pref.is_empty() {
                (0..self.reg.len()).collect()
            } else {
                pref
            }
        };
        let base = if cand.is_empty() { None } else { Some(self.reg[cand[p.tok as usize % cand.len()]].clone()) };
        let other = if self.reg.is_empty() { None } else { Some(self.reg[p.other as usize % self.reg.len()].clone()) };
        let bytes = self.mutate(base.as_ref(), other.as_ref(), &p.mutn);
        let issuing = base.as_ref().map(|t| t.addr).unwrap_or(pool_addr(0));
        let from = match &p.from {
            FromSel::Issuing => issuing,
            FromSel::OtherPort => SocketAddr::new(issuing.ip(), issuing.port() ^ 1),
            FromSel::OtherIp => other_ip(issuing),
            FromSel::Mapped => mapped_variant(issuing),
            FromSel::Pool(i) => pool_addr(*i),
        };
        // ---- clock: the first Initial reaches the server one client->server latency from now
        let td = self.w.now + self.a.lat_us[0] as u64;
        let skew = self.skew.load(Ordering::Relaxed);
        let cur = td + skew;
        let target = match (&p.when, &base) {
            (WhenSel::Now, _) | (_, None) => cur,
            (w, Some(t)) => {
                let exp = self.expiry_us(t);
                let life = exp - (t.issued_us - t.issued_us % 1_000_000);
                match w {
                    WhenSel::Frac(f) => exp - life + (life as u128 * *f as u128 / 65536) as u64,
                    WhenSel::Expiry(d) => (exp as i128 + *d as i128).max(0) as u64,
                    WhenSel::Past(s) => exp + *s as u64 * 1_000_000,
                    WhenSel::Now => cur,
                }
            }
        };
        if target > cur {
            self.skew.store(skew + (target - cur), Ordering::Relaxed);
            self.tally.label("clock-jump");
        }
        let via_client = p.via_client || !self.sim;
        for rep in 0..=p.repeat {
            let clock = self.w.now + self.a.lat_us[0] as u64 + self.skew.load(Ordering::Relaxed);
            // ---- classification for coverage
            let reg_idx = self.reg.iter().position(|k| !k.foreign && k.bytes == bytes);
            let mut nontrivial = false;
            if let Some(i) = reg_idx {
                match self.violated_bindings(i, from, clock) {
                    0 => self.tally.label("genuine-all-bindings-ok"),
                    1 => {
                        nontrivial = true;
                        let k = &self.reg[i];
                        let addr_ok = if k.kind == TokKind::Retry { from == k.addr } else { from.ip() == k.addr.ip() };
                        self.tally.label(if !addr_ok {
                            "only-address-violated"
                        } else if clock > self.expiry_us(k) {
                            "only-lifetime-violated"
                        } else {
                            "only-reuse-violated"
                        });
                        if clock == self.expiry_us(k) + 1 {
                            self.tally.label("one-microsecond-past-expiry");
                        }
                    }
                    _ => self.tally.label("several-bindings-violated"),
                }
                if clock == self.expiry_us(&self.reg[i]) {
                    self.tally.label("exactly-at-expiry");
                }
                if self.reg[i].kind == TokKind::Retry {
                    self.tally.label("retry-token");
                } else {
                    self.tally.label("new-token-token");
                }
            } else if matches!(p.mutn, Mutn::Flip(_)) && base.as_ref().is_some_and(|b| !b.foreign) {
                nontrivial = true;
                self.tally.flips += 1;
                self.tally.label("one-bit-neighbour");
            } else {
                self.tally.label(match p.mutn {
                    Mutn::Truncate(_) => "truncated",
                    Mutn::Extend { .. } | Mutn::Prefix { .. } => "extended",
                    Mutn::Splice(_) | Mutn::NonceSwap => "spliced",
                    Mutn::ForeignKey => "foreign-key-twin",
                    Mutn::Empty => "empty",
                    Mutn::Random { .. } => "random-bytes",
                    _ => {
                        if base.as_ref().is_some_and(|b| b.foreign) {
                            "foreign-server-token"
                        } else {
                            "other"
                        }
                    }
                });
            }
            if nontrivial {
                self.tally.one_binding += 1;
            }
            if rep > 0 {
                self.tally.label("re-presented");
            }
            self.tally.presentations += 1;
            if via_client {
                self.tally.via_client += 1;
                let (k, exps, server_conns_before) = self.client_phase(from, &bytes, p.retry_policy)?;
                let first = exps.first().map(|e| e.1.clone());
                let expired_in_flight = exps.iter().skip(1).any(|e| matches!(e.1, Exp::InvalidToken { .. }));
                if expired_in_flight {
                    self.tally.label("fresh-retry-token-expired-in-flight");
                }
                let c = &self.w.conns[k];
                match first {
                    Some(Exp::InvalidToken { why }) => {
                        let closed_invalid = c.app.lost_reasons.iter().any(|r| transport_code(r) == Some((false, TransportErrorCode::INVALID_TOKEN)));
                        if c.app.connected || !closed_invalid {
                            return Err(CaseOut::fail(
                                "c14/retry-token-misuse-not-invalid-token",
                                format!("{why}: the client must see the attempt end with INVALID_TOKEN; connected == {}, lost == {:?}", c.app.connected, c.app.lost),
                            ));
                        }
                        let now_conns = self.w.conns.iter().filter(|c| c.side.is_server()).count();
                        if now_conns != server_conns_before {
                            return Err(CaseOut::fail("c14/invalid-token-created-connection", format!("{why}: the server created a connection for the attempt")));
                        }
                        self.tally.label("client-saw-invalid-token");
                    }
                    Some(Exp::Absent { why }) => {
                        if !c.app.connected && !expired_in_flight {
                            return Err(CaseOut::fail(
                                "c14/handshake-after-unusable-token-failed",
                                format!("a token that must be treated as absent ({why}) kept the handshake from completing: lost == {:?} (presented from {from}, retry policy {})", c.app.lost, p.retry_policy),
                            ));
                        }
                        if !bytes.is_empty() {
                            self.tally.handshakes_completed_after_altered += 1;
                        }
                    }
                    Some(Exp::ValOk { .. }) => {
                        if !c.app.connected && !expired_in_flight {
                            return Err(CaseOut::fail("c14/handshake-failed", format!("handshake with a genuine NEW_TOKEN token did not complete: {:?}", c.app.lost)));
                        }
                    }
                    // replayed Retry token of an earlier attempt: address validated, but the client
                    // (which saw no Retry) will refuse the CID echo - not asserted
                    Some(Exp::RetryOk { .. }) => self.tally.label("retry-token-replayed-in-lifetime"),
                    None => return Err(CaseOut::inconclusive("the client's Initial did not reach the server")),
                }
                self.register_new_tokens(false).map_err(|(s, m)| fail_or_inconclusive(s, m))?;
            } else {
                let exps = self.crafted_phase(from, &bytes)?;
                if exps.is_empty() {
                    return Err(CaseOut::inconclusive("crafted Initial was not evaluated"));
                }
            }
        }
        Ok(())
    }

    /// Tokens of a second server: another key, same client address, same clock
    fn foreign_harvest(&mut self) -> Result<(), CaseOut> {
        let skew2 = Arc::new(AtomicU64::new(self.skew.load(Ordering::Relaxed)));
        let (w2, tap2) = build_world(self.a, self.foreign_key.clone(), skew2.clone());
        let mut f = Ctx {
            a: self.a,
            w: w2,
            tap: tap2,
            skew: skew2,
            key: self.foreign_key.clone(),
            foreign_key: self.foreign_key.clone(),
            reg: vec![],
            injected: BTreeMap::new(),
            trace_pos: 0,
            tap_pos: 0,
            craft_ctr: 0,
            sim: self.sim,
            tally: Tally::default(),
            pending_stores: vec![],
        };
        f.harvest(0, true)?;
        for mut t in f.reg {
            t.foreign = true;
            self.reg.push(t);
        }
        self.tally.label("foreign-server-harvest");
        Ok(())
    }
}

fn fail_or_inconclusive(sig: String, msg: String) -> CaseOut {
    if sig.starts_with("c14/harness") {
        CaseOut::inconclusive(format!("{sig}: {msg}"))
    } else {
        CaseOut::fail(sig, msg)
    }
}

pub fn case_accept(a: &Accept) -> CaseOut {
    exec_accept(a, None)
}

pub fn exec_accept(a: &Accept, stats: Option<&AcceptStats>) -> CaseOut {
    let mut cx = Ctx::new(a);
    if a.foreign_world {
        if let Err(c) = cx.foreign_harvest() {
            return c;
        }
    }
    for op in &a.ops {
        let r = match op {
            Op::Harvest { from, retry } => cx.harvest(*from, *retry),
            Op::Present(p) => cx.present(p),
        };
        if let Err(c) = r {
            return c;
        }
    }
    let t = &cx.tally;
    if let Some(s) = stats {
        s.presentations.fetch_add(t.presentations, Ordering::Relaxed);
        s.genuine_ok.fetch_add(t.genuine_ok, Ordering::Relaxed);
        s.one_binding.fetch_add(t.one_binding, Ordering::Relaxed);
        s.flips.fetch_add(t.flips, Ordering::Relaxed);
        s.invalid_token.fetch_add(t.invalid_token, Ordering::Relaxed);
        s.bloom_ok.fetch_add(t.bloom_ok, Ordering::Relaxed);
        s.bloom_fp.fetch_add(t.bloom_fp, Ordering::Relaxed);
        s.via_client.fetch_add(t.via_client, Ordering::Relaxed);
        s.altered_connected.fetch_add(t.handshakes_completed_after_altered, Ordering::Relaxed);
    }
    let mut labels = t.labels.clone();
    if !cx.sim {
        labels.push("rustls");
    }
    if a.ring_key {
        labels.push("ring-token-key");
    }
    labels.push(match a.log {
        LogKind::BloomDefault => "log-bloom-default",
        LogKind::BloomTiny { .. } => "log-bloom-tiny",
        LogKind::Exact => "log-exact",
        LogKind::NoneLog => "log-none",
    });
    if t.invalid_token > 0 {
        labels.push("invalid-token-close");
    }
    if t.bloom_fp > 0 {
        labels.push("bloom-false-positive");
    }
    let retry_tokens = cx.reg.iter().filter(|k| k.kind == TokKind::Retry && !k.foreign).count();
    let summary = json!({
        "crypto": format!("{:?}", a.crypto), "ring_key": a.ring_key, "log": format!("{:?}", a.log),
        "retry_lifetime_ms": a.retry_lifetime_ms, "new_token_lifetime_s": a.vt_lifetime_s,
        "registry": {"retry_tokens": retry_tokens, "new_token_tokens": cx.reg.iter().filter(|k| k.kind == TokKind::Validation && !k.foreign).count(), "foreign": cx.reg.iter().filter(|k| k.foreign).count()},
        "presentations": t.presentations, "exactly_one_binding_violated_or_one_bit_neighbour": t.one_binding, "accepted_genuine": t.genuine_ok,
        "invalid_token_closes": t.invalid_token, "via_real_client": t.via_client,
        "final_clock_skew_s": cx.skew.load(Ordering::Relaxed) / 1_000_000,
    });
    CaseOut { verdict: Verdict::Pass, labels, nontrivial: t.one_binding > 0, summary: Some(summary) }
}

// ---------------------------------------------------------------------------------------------
// "Treated as absent", differentially: the same crafted Initial with and without the unusable token
// ---------------------------------------------------------------------------------------------

#[derive(Clone, Debug, Serialize, Deserialize, PartialEq)]
pub struct Probe {
    pub kind: u8,
    pub tok: u16,
    pub other: u16,
    pub mutn: Mutn,
    pub from: FromSel,
    /// length of the Initial's destination CID (0..=20)
    pub dcid_len: u8,
}

#[derive(Clone, Debug, Serialize, Deserialize, PartialEq)]
pub struct Twin {
    pub base: Accept,
    pub probes: Vec<Probe>,
}

pub fn arb_twin() -> impl Strategy<Value = Twin> {
    let probe = (
        0u8..3,
        any::<u16>(),
        any::<u16>(),
        arb_mutn(),
        prop_oneof![4 => Just(FromSel::Issuing), 1 => Just(FromSel::OtherPort), 1 => Just(FromSel::OtherIp)],
        prop_oneof![3 => 0u8..8, 2 => 8u8..=20],
    )
        .prop_map(|(kind, tok, other, mutn, from, dcid_len)| Probe { kind, tok, other, mutn, from, dcid_len });
    (any::<u64>(), any::<bool>(), prop_oneof![2 => 0u8..8, 1 => 8u8..=20], 0u8..6, prop::collection::vec(probe, 1..12)).prop_map(|(seed, ring_key, server_cid_len, from, probes)| Twin {
        base: Accept {
            seed,
            crypto: CryptoKind::Sim,
            ring_key,
            log: LogKind::Exact,
            retry_lifetime_ms: 15_000,
            vt_lifetime_s: 3_600,
            tokens_sent: 1,
            start_us: 0,
            lat_us: [1000, 1000],
            server_cid_len,
            foreign_world: false,
            ops: vec![Op::Harvest { from, retry: true }],
        },
        probes,
    })
}

#[derive(Debug, Clone, PartialEq)]
enum Outcome {
    Incoming { validated: bool, may_retry: bool, odcid_is_dcid: bool },
    /// stateless answer: CONNECTION_CLOSE codes in it
    Response(Vec<u64>),
    Nothing,
}

impl<'a> Ctx<'a> {
    fn probe(&mut self, ctr: u64, addr: SocketAddr, token: &[u8], dcid_len: usize) -> Result<Outcome, CaseOut> {
        let bytes = self.craft_initial_with(ctr, token, Some(dcid_len));
        let dcid = parse_long(&bytes).map(|h| h.dcid).unwrap_or_default();
        self.w.incoming_ignore = true;
        let server = self.w.eps[SERVER_EP].addrs[0];
        let at = self.w.now + self.a.lat_us[0] as u64;
        let id = self.w.inject(at, server, addr, bytes);
        let tr0 = self.w.trace.len();
        self.w.run(at + 1, |_| false);
        self.w.incoming_ignore = false;
        if self.w.hit_step_limit {
            return Err(CaseOut::inconclusive("step limit"));
        }
        if let Some(c) = world_violation(&mut self.w) {
            return Err(c);
        }
        let mut resp: Option<Vec<u64>> = None;
        for r in &self.w.trace[tr0..] {
            match r {
                Rec::TxEp { ep, dgram, inciting_size, .. } if *ep == SERVER_EP && *inciting_size > 0 => {
                    resp = Some(dgram.pkts.iter().flat_map(|p| p.frames.iter().flatten()).filter_map(|f| if let OF::ConnectionClose { code, .. } = f { Some(*code) } else { None }).collect());
                }
                Rec::Rx { dgram_id, routed, .. } if *dgram_id == id => {
                    return Ok(match routed {
                        Routed::NewIncoming => {
                            let inc = self.w.incoming_log.iter().rev().find(|i| i.dgram_id == id).cloned();
                            match inc {
                                Some(i) => Outcome::Incoming { validated: i.validated, may_retry: i.may_retry, odcid_is_dcid: i.odcid == dcid },
                                None => return Err(CaseOut::inconclusive("Incoming without record")),
                            }
                        }
                        Routed::Response(_) => Outcome::Response(resp.unwrap_or_default()),
                        _ => Outcome::Nothing,
                    });
                }
                _ => {}
            }
        }
        Err(CaseOut::inconclusive("probe was not delivered"))
    }
}

/// A token that is not usable (not issued by this server) must change nothing: the Initial gets the
/// same treatment as the identical Initial without a token - for every destination CID length.
pub fn case_twin(t: &Twin) -> CaseOut {
    let mut cx = Ctx::new(&t.base);
    for op in &t.base.ops {
        if let Op::Harvest { from, retry } = op {
            if let Err(c) = cx.harvest(*from, *retry) {
                return c;
            }
        }
    }
    let scl = t.base.server_cid_len.clamp(4, 20) as usize;
    let mut labels: Vec<&'static str> = vec![];
    let mut nontrivial = false;
    let mut samples = vec![];
    for (i, p) in t.probes.iter().enumerate() {
        let cand: Vec<usize> = (0..cx.reg.len())
            .filter(|&i| match p.kind {
                1 => cx.reg[i].kind == TokKind::Retry,
                2 => cx.reg[i].kind == TokKind::Validation,
                _ => true,
            })
            .collect();
        if cand.is_empty() {
            return CaseOut::inconclusive("nothing harvested");
        }
        let base = cx.reg[cand[p.tok as usize % cand.len()]].clone();
        let other = cx.reg[p.other as usize % cx.reg.len()].clone();
        let bytes = cx.mutate(Some(&base), Some(&other), &p.mutn);
        if bytes.is_empty() || cx.reg.iter().any(|k| k.bytes == bytes) {
            continue; // genuine tokens are the business of the binding model
        }
        let from = match &p.from {
            FromSel::OtherPort => SocketAddr::new(base.addr.ip(), base.addr.port() ^ 1),
            FromSel::OtherIp => other_ip(base.addr),
            _ => base.addr,
        };
        let ctr = 1000 + i as u64;
        let dl = p.dcid_len.min(20) as usize;
        let without = match cx.probe(ctr, from, &[], dl) {
            Ok(o) => o,
            Err(c) => return c,
        };
        let with = match cx.probe(ctr, from, &bytes, dl) {
            Ok(o) => o,
            Err(c) => return c,
        };
        if dl < 8 {
            labels.push("dcid-shorter-than-8");
            if dl == scl {
                labels.push("short-dcid-of-server-cid-length");
                nontrivial = true;
            }
        }
        if matches!(p.mutn, Mutn::Flip(_)) {
            nontrivial = true;
        }
        if with != without {
            // known shape (genuine finding): the DCID length rule for first Initials is skipped as soon
            // as any token is attached and the DCID has the server's own CID length
            let short_dcid_shape = dl < 8 && dl == scl && without == Outcome::Response(vec![0x0a]) && matches!(with, Outcome::Incoming { validated: false, may_retry: true, odcid_is_dcid: true });
            return CaseOut::fail(
                if short_dcid_shape { "c14/short-dcid-accepted-with-unusable-token" } else { "c14/unusable-token-changes-treatment" },
                format!(
                    "an Initial with a {dl}-byte destination CID (server CID length {scl}) from {from}: without token => {without:?}; with the unusable token {} ({:?} of a genuine {:?} token, {} bytes) => {with:?}",
                    hex(&bytes[..bytes.len().min(20)]),
                    p.mutn,
                    base.kind,
                    bytes.len()
                ),
            );
        }
        if samples.len() < 3 {
            samples.push(json!({"dcid_len": dl, "mutation": format!("{:?}", p.mutn), "outcome": format!("{with:?}")}));
        }
    }
    labels.sort();
    labels.dedup();
    CaseOut { verdict: Verdict::Pass, labels, nontrivial, summary: Some(json!({"server_cid_len": scl, "probes": samples})) }
}

// ---------------------------------------------------------------------------------------------
// Enumerations: every single-bit flip and every truncation length of a handful of tokens
// ---------------------------------------------------------------------------------------------

fn enum_scenarios(report: &Report) -> Vec<Accept> {
    let thorough = report.opts.tier == Tier::Thorough;
    let mut out = vec![];
    let mut configs: Vec<(CryptoKind, bool, u64)> = vec![(CryptoKind::Sim, false, 1), (CryptoKind::Sim, true, 2), (CryptoKind::Rustls, true, 3), (CryptoKind::Sim, false, 4), (CryptoKind::Sim, true, 5)];
    if thorough {
        for i in 0..12 {
            configs.push((CryptoKind::Sim, i % 2 == 0, 10 + i));
        }
        for i in 0..3 {
            configs.push((CryptoKind::Rustls, true, 30 + i));
        }
    }
    for (crypto, ring_key, n) in configs {
        let seed = mix(report.opts.seed, 0xf11b + n);
        let rustls = crypto == CryptoKind::Rustls;
        // token lengths: Retry <= 1+19+21+8+16+16 = 81 bytes, NEW_TOKEN <= 1+17+8+16+16 = 58 bytes
        let stride = if rustls && !thorough { 8 } else { 1 };
        let from = (n % 6) as u8;
        for kind in [1u8, 2u8] {
            let bits: Vec<u16> = (0..(84 * 8) as u16).step_by(stride).collect();
            for chunk in bits.chunks(if rustls { 24 } else { 96 }) {
                let mut ops = vec![Op::Harvest { from, retry: true }];
                for &b in chunk {
                    ops.push(Op::Present(Pres { kind, tok: 0, other: 0, mutn: Mutn::Flip(b), from: FromSel::Issuing, when: WhenSel::Now, retry_policy: b % 2 == 0, via_client: rustls, repeat: 0 }));
                }
                // positive control at the end: the genuine token still works
                ops.push(Op::Present(Pres { kind, tok: 0, other: 0, mutn: Mutn::Genuine, from: FromSel::Issuing, when: WhenSel::Now, retry_policy: false, via_client: rustls, repeat: 0 }));
                out.push(Accept { seed, crypto: crypto.clone(), ring_key, log: LogKind::Exact, retry_lifetime_ms: 15_000, vt_lifetime_s: 3_600, tokens_sent: 1, start_us: 123_456, lat_us: [1000, 1000], server_cid_len: 8, foreign_world: false, ops });
            }
            if !rustls || thorough {
                let lens: Vec<u16> = (0..84u16).collect();
                for chunk in lens.chunks(if rustls { 28 } else { 84 }) {
                    let mut ops = vec![Op::Harvest { from, retry: true }];
                    for &l in chunk {
                        ops.push(Op::Present(Pres { kind, tok: 0, other: 0, mutn: Mutn::Truncate(l), from: FromSel::Issuing, when: WhenSel::Now, retry_policy: l % 2 == 0, via_client: rustls, repeat: 0 }));
                    }
                    out.push(Accept { seed, crypto: crypto.clone(), ring_key, log: LogKind::Exact, retry_lifetime_ms: 15_000, vt_lifetime_s: 3_600, tokens_sent: 1, start_us: 123_456, lat_us: [1000, 1000], server_cid_len: 8, foreign_world: false, ops });
                }
            }
        }
    }
    out
}

/// `Flip(i)` is taken modulo the token's bit length and `Truncate(n)` modulo its byte length, so
/// 0..84*8 / 0..84 cover every bit and every proper prefix of tokens up to 84 bytes at least once.
fn run_enum(report: &Report) {
    let name = "c14a-flips";
    if !report.wants(name) {
        return;
    }
    let started = std::time::Instant::now();
    let scen = enum_scenarios(report);
    let stats = AcceptStats::default();
    let next = AtomicU64::new(0);
    let results: Mutex<Vec<(usize, CaseOut)>> = Mutex::new(vec![]);
    let classes: Mutex<BTreeMap<String, u64>> = Mutex::new(BTreeMap::new());
    std::thread::scope(|sc| {
        for _ in 0..report.opts.threads.max(1) {
            sc.spawn(|| loop {
                let i = next.fetch_add(1, Ordering::Relaxed) as usize;
                if i >= scen.len() {
                    break;
                }
                let out = match catch(|| exec_accept(&scen[i], Some(&stats))) {
                    Ok(o) => o,
                    Err(p) => panic_to_case(p, false),
                };
                {
                    let mut c = classes.lock().unwrap();
                    for l in &out.labels {
                        *c.entry(l.to_string()).or_insert(0) += 1;
                    }
                }
                results.lock().unwrap().push((i, out));
            });
        }
    });
    let mut results = results.into_inner().unwrap();
    results.sort_by_key(|r| r.0);
    let mut sub = SubStats {
        name: name.into(),
        rule: "enumeration: every single-bit flip (every 8th bit under rustls in the quick tier) and every truncation length of one harvested Retry token and one NEW_TOKEN token per configuration (SimCrypto with the keyed-tag token key, SimCrypto with the ring HKDF/AES-GCM key, rustls), presented from the issuing address within the lifetime: never validated, always treated as absent, and the untouched token is accepted afterwards; every case is a one-bit neighbour / proper prefix of a genuine token".into(),
        exhaustive: true,
        classes: classes.into_inner().unwrap(),
        ..SubStats::default()
    };
    let mut reported = false;
    for (i, out) in results {
        sub.evaluations += scen[i].ops.len() as u64 - 1;
        match out.verdict {
            Verdict::Pass => {
                sub.distinct_nontrivial += scen[i].ops.iter().filter(|o| matches!(o, Op::Present(p) if p.mutn != Mutn::Genuine)).count() as u64;
                if sub.samples.len() < 2 {
                    sub.samples.extend(out.summary);
                }
            }
            Verdict::Fail { sig, msg } => {
                if !reported || report.is_known(&sig) {
                    // shrink greedily: drop presentations that are not needed
                    let mut s = scen[i].clone();
                    let mut j = 1;
                    while j < s.ops.len() {
                        let mut t = s.clone();
                        t.ops.remove(j);
                        let again = catch(|| exec_accept(&t, None)).ok();
                        if matches!(again.map(|o| o.verdict), Some(Verdict::Fail { sig: s2, .. }) if s2 == sig) {
                            s = t;
                        } else {
                            j += 1;
                        }
                    }
                    let known = report.is_known(&sig);
                    report.fail_direct("c14a-accept", &sig, msg, serde_json::to_value(&s).unwrap());
                    reported |= !known;
                }
            }
            Verdict::Discard(_) => sub.discards += 1,
            Verdict::Inconclusive(why) => {
                sub.inconclusive += 1;
                report.note(format!("[{name}] inconclusive: {why}"));
                println!("    inconclusive: {why}");
            }
        }
    }
    sub.wall_s = started.elapsed().as_secs_f64();
    println!(
        "  [{}] worlds={} presentations={} nontrivial={} inconclusive={} {:.1}s (one-bit neighbours {}, accepted genuine {})",
        name,
        scen.len(),
        sub.evaluations,
        sub.distinct_nontrivial,
        sub.inconclusive,
        sub.wall_s,
        stats.flips.load(Ordering::Relaxed),
        stats.genuine_ok.load(Ordering::Relaxed)
    );
    report.add_sub(sub);
}

pub const RULE_ACCEPT: &str = "proptest-generated worlds: one server (SimCrypto or rustls; SimTokenKey or ring HKDF/AES-GCM token key; token log in {BloomTokenLog default, tiny BloomTokenLog, exact set, NoneTokenLog}; Retry lifetime 1 s..14 d, NEW_TOKEN lifetime 1 s..30 d; 1-3 NEW_TOKEN frames per connection; harness wall clock with generated forward jumps), tokens harvested in that world from Retry packets and NEW_TOKEN frames (plus a second server with another key), then 3-40 presentations by real clients or crafted Initials: genuine / bit flip / truncation / extension / prefix / splice / nonce swap / same plaintext under a foreign key / random / empty, from the issuing address, same IP other port, other IP, IPv4 <-> IPv4-mapped form, at clock values before / exactly at / 1 us after / long after floor(issued)+lifetime, repeated; oracle: binding model over the registry of issued byte strings (validated only if byte-identical to an issued token and address, lifetime and first-use bindings hold; otherwise exactly like no token; stale or moved Retry token => Initial CONNECTION_CLOSE INVALID_TOKEN and no connection; genuine fresh first-use tokens are accepted where deterministic); non-trivial = a presentation violated exactly one binding of a token that is genuine for this server, or was a one-bit neighbour of one";

pub const RULE_TWIN: &str = "proptest-generated pairs of crafted Initials that are identical (same CIDs of length 0..20, same source address, same payload) except that one carries an unusable token (bit flip, truncation, extension, splice, nonce swap, foreign key, random bytes derived from tokens harvested in the same world) - server CID length 4..20, SimTokenKey or ring key; oracle: the server's treatment (Incoming with the same validated / may_retry / original DCID, or the same stateless answer, or silence) must be identical: an unusable token is treated as absent; non-trivial = one-bit neighbour of a genuine token, or a destination CID shorter than 8 bytes of exactly the server's CID length";

pub fn run_sub(report: &Report) {
    report.assume("C14: unforgeability of the token AEAD itself (ring AES-256-GCM / SimCrypto keyed tag) and of the Retry integrity tag construction is assumed; the checks show that quinn consults them and binds tokens to address, lifetime and first use");
    report.assume("C14a: the issue time of a NEW_TOKEN token is the server clock when the datagram carrying the frame was emitted (observed on the link under SimCrypto; read from the token plaintext through the verif hook under rustls, where frames are not observable); the registry is cross-checked against the token plaintext");
    let stats = AcceptStats::default();
    run_prop(report, "c14a-accept", RULE_ACCEPT, arb_accept, report.cases(30_000, 500_000), |a| exec_accept(a, Some(&stats)));
    if report.wants("c14a-accept") {
        let g = |a: &AtomicU64| a.load(Ordering::Relaxed);
        let line = format!(
            "[c14a-accept] {} presentations ({} by real clients), {} with exactly one binding violated or a one-bit neighbour ({} bit flips), {} genuine tokens accepted (positive control), {} INVALID_TOKEN closes, bloom logs: {} fresh tokens accepted / {} refused (false positives, tolerated), {} handshakes completed although an unusable token was presented",
            g(&stats.presentations),
            g(&stats.via_client),
            g(&stats.one_binding),
            g(&stats.flips),
            g(&stats.genuine_ok),
            g(&stats.invalid_token),
            g(&stats.bloom_ok),
            g(&stats.bloom_fp),
            g(&stats.altered_connected)
        );
        println!("  {line}");
        report.note(line);
        let (ok, fp) = (g(&stats.bloom_ok), g(&stats.bloom_fp));
        if ok + fp > 200 && ok == 0 {
            report.fail_direct(
                "c14a-accept-bloom",
                "c14/genuine-token-rejected",
                format!("BloomTokenLog worlds: none of {fp} genuine fresh first-use NEW_TOKEN tokens was accepted"),
                json!({"bloom_ok": ok, "bloom_refused": fp}),
            );
        }
    }
    run_prop(report, "c14a-twin", RULE_TWIN, arb_twin, report.cases(20_000, 500_000), case_twin);
    run_enum(report);
    c14b::run_sub(report);
}
