//! placeholder until the token-presentation check is wired in
pub fn run_sub(_report: &crate::core::Report) {}
