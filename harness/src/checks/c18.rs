//! C18 — async API: wakeups, cancellation, teardown (engine E5 `asyncsim`, no hooks).
//!
//! A world is one or two `quinn::Endpoint`s on the deterministic harness runtime, up to two
//! connections, and a handful of application tasks running generated scripts over the public
//! API. The generated value also contains the scheduler choice sequence, the link fault stream,
//! cancellation points for every awaited operation and handle-drop points. See NOTES (delivered
//! with this check) for the exact coverage; the oracles are:
//!
//! 1. *no lost wakeup*: whenever no task is ready (before virtual time advances) every pending
//!    application operation is probed from outside — spuriously re-polled, and for `&self`
//!    operations a fresh future is polled once — and must still be pending; operations that stay
//!    pending for `OP_DEADLINE` of virtual time are stuck (finite idle timeout, no keep-alive);
//!    datagrams may not be stranded in a socket whose owner was not told to poll again.
//! 2. *integrity*: stream bytes equal the keyed content function at their offset, in order,
//!    exactly once; EOF / Reset / Stopped / close codes must be explained by what the peer did;
//!    datagrams intact, at most once, and conserved (`frame_rx.datagram` = read + buffered).
//! 3. *cancel safety*: drop-and-retry of documented cancel-safe operations loses and duplicates
//!    nothing (offsets, stream indices, datagram ids, `write_chunks` buffers stay consistent).
//! 4. *teardown*: implicit finish / stop(0) / close(0) on drop reach the peer (in worlds without
//!    datagram loss, within `SETTLE`); after all tasks ended every driver task completes, no
//!    waker is ever invoked into a completed application task, and a completed driver task is
//!    woken at most `DRIVER_DEAD_WAKE_LIMIT` times; a world that keeps polling without virtual
//!    time advancing is a livelock.
//! 5. panics inside quinn are violations.
//!
//! `QV_C18_STRICT=1` additionally reports eight behaviours of the unchanged tree that contradict
//! the rustdoc or leave a future parked (signatures `c18/strict/*`, see NOTES D1-D8); by default
//! scripts avoid or tolerate them so that the check is silent on the unchanged tree.
//! `QV_TRACE=1` (replay) prints the application-level log, `QV_WIRE=1` every datagram.

use crate::asyncsim::*;
use crate::cfg::{SeededCid, SimClock};
use crate::core::*;
use crate::simcrypto::*;
use bytes::Bytes;
use proptest::prelude::*;
use quinn::{ConnectionError, ReadError, ReadExactError, ReadToEndError, SendDatagramError, StoppedError, VarInt, WriteError};
use serde::{Deserialize, Serialize};
use std::cell::{Cell, RefCell};
use std::collections::{BTreeMap, BTreeSet};
use std::future::Future;
use std::net::SocketAddr;
use std::pin::Pin;
use std::rc::Rc;
use std::sync::atomic::AtomicU64;
use std::sync::Arc;
use std::task::{Context, Poll};
use std::time::Duration;

/// Virtual time after which a peer's finish / stop / close must have been observed by an
/// operation that was pending all along (only applied in worlds without datagram loss)
pub const SETTLE_NS: u64 = 3_000_000_000;
/// An operation pending this long is stuck (idle timeout is at most 12 s, scripts sleep < 30 s)
pub const OP_DEADLINE_NS: u64 = 150_000_000_000;
/// `Endpoint::accept` gives up after this long without an incoming connection (not an alarm)
pub const ACCEPT_DEADLINE_NS: u64 = 40_000_000_000;
/// Wakes into one completed *driver* task that are tolerated. quinn's connection / endpoint state
/// outlives its driver future while application handles exist and keeps the driver's waker in up
/// to three places (the `driver` slot, the timer registration, the event-channel receiver); each
/// fires at most once. Observed maximum over 1.5 M worlds on the unchanged tree: 3. Wakes into
/// completed *application* tasks were never observed and are not tolerated at all.
pub const DRIVER_DEAD_WAKE_LIMIT: u32 = 4;
pub const STEP_LIMIT: u64 = 300_000;
/// task polls without any advance of virtual time that count as a livelock
pub const STALL_LIMIT: u64 = 60_000;

// ---------------------------------------------------------------------------------------------
// Scenario
// ---------------------------------------------------------------------------------------------

#[derive(Clone, Debug, Default, Serialize, Deserialize, PartialEq)]
pub struct Cancel {
    /// for each incarnation of the future: drop it when it has returned Pending this many times
    pub at: Vec<u8>,
    /// drop at the poll *after* that Pending (i.e. when the task was woken) instead of right away
    pub on_wake: bool,
    /// after the last cancellation re-issue the operation (cancel-safe ops) instead of abandoning it
    pub retry: bool,
}

#[derive(Clone, Debug, Serialize, Deserialize)]
pub enum IncAct {
    Accept,
    /// the application sits on the Incoming for a while before it accepts (other tasks, e.g. one that
    /// closes the endpoint, run in between)
    AcceptLate { us: u32 },
    /// the application closes the endpoint while it holds the Incoming, then accepts it: the attempt
    /// must not turn into a live connection
    CloseThenAccept { code: u8 },
    Refuse,
    Retry,
    Ignore,
    Drop,
}

#[derive(Clone, Debug, Serialize, Deserialize)]
pub enum Op {
    OpenUni(Cancel),
    OpenBi(Cancel),
    AcceptUni(Cancel),
    AcceptBi(Cancel),
    Write { s: u8, len: u16, c: Cancel },
    WriteAll { s: u8, len: u16, c: Cancel },
    WriteChunks { s: u8, lens: Vec<u16>, c: Cancel },
    WriteChunk { s: u8, len: u16, c: Cancel },
    WriteAllChunks { s: u8, lens: Vec<u16>, c: Cancel },
    /// `write` / `write_chunks` in a loop until `total` bytes went out
    WriteTotal { s: u8, total: u16, piece: u16, chunks: bool, c: Cancel },
    Finish { s: u8 },
    Reset { s: u8, code: u8 },
    Stopped { s: u8, c: Cancel },
    DropSend { s: u8 },
    Read { r: u8, len: u16, c: Cancel },
    ReadChunk { r: u8, max: u16, ordered: bool, c: Cancel },
    ReadChunks { r: u8, n: u8, c: Cancel },
    ReadExact { r: u8, len: u16, c: Cancel },
    ReadToEnd { r: u8, limit: u32, c: Cancel },
    /// read until EOF or error; style 0 `read`, 1 `read_chunk`, 2 `read_chunks`, 3 tokio `AsyncRead::poll_read`
    ReadAll { r: u8, style: u8, piece: u16, c: Cancel },
    ReceivedReset { r: u8, c: Cancel },
    Stop { r: u8, code: u8 },
    DropRecv { r: u8 },
    SendDgram { len: u16 },
    /// `lazy`: the future is created, then the task yields that many times before polling it first
    SendDgramWait {
        len: u16,
        c: Cancel,
        #[serde(default)]
        lazy: u8,
    },
    ReadDgram(Cancel),
    Closed(Cancel),
    Close { code: u8 },
    DropConn,
    EpClose { code: u8 },
    WaitIdle(Cancel),
    DropEp,
    Sleep { us: u32 },
    Yield,
    /// (choreography marker) this side has released every half of the peer-initiated bidirectional stream it
    /// held: the peer's stream slot is free again from now on
    SlotReleased,
    /// (choreography) `set_max_concurrent_{bi,uni}_streams(count)` on an otherwise quiet connection whose
    /// configured limit is 0: the peer's pending open must complete
    RaiseStreamLimit { uni: bool, count: u8 },
    /// `Connection::authenticated()` (resolves when the handshake completed, 0-RTT accepted or not)
    Authenticated(Cancel),
}

#[derive(Clone, Debug, Serialize, Deserialize)]
pub struct CfgSpec {
    pub idle_ms: u32,
    pub stream_window: u32,
    pub conn_window: u32,
    pub send_window: u32,
    pub max_bi: u8,
    pub max_uni: u8,
    pub dgram_send_buf: u32,
    pub initial_rtt_ms: u16,
}

#[derive(Clone, Debug, Serialize, Deserialize)]
pub struct ConnProg {
    pub start_delay_us: u32,
    pub connect_cancel: Cancel,
    /// scripts of the client-side tasks (task 0 is the one that connected)
    pub client: Vec<Vec<Op>>,
    pub server: Vec<Vec<Op>>,
}

#[derive(Clone, Debug, Serialize, Deserialize)]
pub struct Scenario {
    pub seed: u64,
    pub net: NetSpec,
    pub cfg: CfgSpec,
    /// client and server share one endpoint
    pub one_endpoint: bool,
    /// what the acceptor does with the n-th `Incoming` (then it stops accepting)
    pub acceptor: Vec<IncAct>,
    pub accept_cancel: Vec<Cancel>,
    pub conns: Vec<ConnProg>,
    pub sched: Vec<u8>,
}

// ---------------------------------------------------------------------------------------------
// Model shared by all application tasks of a world
// ---------------------------------------------------------------------------------------------

/// directed stream: (connection, raw stream id, initiator→acceptor direction)
pub type DKey = (usize, u64, bool);

#[derive(Clone, Debug)]
pub struct Fin {
    pub lo: u64,
    pub hi: u64,
    pub t: u64,
    pub implicit: bool,
}

#[derive(Default, Debug)]
pub struct DStream {
    pub written: u64,
    /// bytes that an abandoned non-cancel-safe write may have added on top of `written`
    pub extra: u64,
    pub finished: Option<Fin>,
    pub resets: Vec<u64>,
    /// (code, time, implicit)
    pub stops: Vec<(u64, u64, bool)>,
}

#[derive(Clone, Debug)]
pub struct CloseRec {
    pub code: u64,
    pub reason: Vec<u8>,
    pub t: u64,
    pub implicit: bool,
    /// true: the connection was already lost (idle timeout, reset) when it was closed; nothing is sent
    pub silent: bool,
}

#[derive(Default, Debug)]
pub struct SideM {
    pub ep: usize,
    pub handles: u32,
    pub conn_handles: u32,
    pub established: Option<u64>,
    pub closes: Vec<CloseRec>,
    pub first_err: Option<(String, u64)>,
    pub next_open: [u64; 2],
    /// streams opened in 0-RTT that the server then rejected (ids are handed out again afterwards)
    pub next_open_early: [u64; 2],
    pub next_accept: [u64; 2],
    /// a probe of `authenticated()` found the handshake complete
    pub connected_seen: bool,
    pub dgram_sent: BTreeMap<u64, usize>,
    pub dgram_maybe: BTreeMap<u64, usize>,
    pub dgram_got: BTreeSet<u64>,
    pub dgram_read: u64,
}

#[derive(Default, Debug)]
pub struct ConnM {
    pub sides: [SideM; 2],
    pub streams: BTreeMap<(u64, bool), DStream>,
    pub dcid: Vec<u8>,
    pub next_dgram: u64,
    /// the acceptor refused (or dropped) an Incoming of this connection attempt
    pub refused: bool,
    /// stop-drop choreography: when the server side let go of the one client-initiated bidirectional stream
    pub slot_released_at: Option<u64>,
    /// raise-limit choreography: when the server application raised its stream limit from 0 (uni?, time)
    pub limit_raised_at: Option<(bool, u64)>,
}

#[derive(Default, Debug)]
pub struct EpM {
    pub handles: u32,
    pub closes: Vec<CloseRec>,
    /// root tasks that may still create connections on this endpoint
    pub creators: u32,
}

#[derive(Clone, Debug)]
pub struct PendOp {
    pub kind: &'static str,
    pub conn: Option<(usize, usize)>,
    /// stream the operation waits on and whether we are its reader
    pub stream: Option<(DKey, bool)>,
    pub off: u64,
    pub since: u64,
    /// stream whose blocked-reader/writer slot the operation registers in (kept when `stream` is cleared)
    pub wkey: Option<(DKey, bool)>,
}

#[derive(Default)]
pub struct Model {
    pub viol: Vec<(String, String)>,
    pub conns: Vec<ConnM>,
    pub eps: Vec<EpM>,
    pub pending: BTreeMap<TaskId, PendOp>,
    pub probe: bool,
    pub labels: BTreeSet<&'static str>,
    pub cancels: u64,
    pub drops_while_pending: u64,
    pub ops_done: u64,
    pub bytes_read: u64,
    pub dgrams_read: u64,
    pub probes: u64,
    pub app_tasks: u64,
    pub trace: bool,
    pub log: Vec<String>,
    /// set in worlds of the 0-RTT sub-check
    pub z: Option<ZWorld>,
}

/// 0-RTT sub-check: connection 0 provisions the ticket, connection 1 is attempted with `into_0rtt`
pub struct ZWorld {
    /// the server's early-data policy (the generated value)
    pub rejected: bool,
    pub half_rtt: bool,
    /// the server validates the client's address with Retry on the second connection
    pub retry: bool,
    pub client_crypto: Arc<SimClientConfig>,
    /// `into_0rtt()` succeeded on the client
    pub used: bool,
    /// datagrams accepted by `send_datagram` before the handshake completed
    pub early_dgrams: BTreeSet<u64>,
    pub early_handles: u64,
    pub early_ops: u64,
    /// (raw stream id, reader side) of rejected 0-RTT handles dropped after the handshake completed
    pub clobbered: BTreeSet<(u64, bool)>,
}

impl Model {
    pub fn fail(&mut self, sig: impl Into<String>, msg: impl Into<String>) {
        if self.viol.len() < 4 {
            self.viol.push((sig.into(), msg.into()));
        }
    }
    fn stream(&mut self, k: DKey) -> &mut DStream {
        self.conns[k.0].streams.entry((k.1, k.2)).or_default()
    }
    /// every close action that may explain what `side` of `ci` observes from its peer
    fn peer_closes(&self, ci: usize, side: usize) -> Vec<CloseRec> {
        let p = &self.conns[ci].sides[1 - side];
        let mut v = p.closes.clone();
        v.extend(self.eps[p.ep].closes.iter().cloned());
        v
    }
    fn local_closes(&self, ci: usize, side: usize) -> Vec<CloseRec> {
        let p = &self.conns[ci].sides[side];
        let mut v: Vec<_> = p.closes.iter().filter(|c| !c.implicit).cloned().collect();
        v.extend(self.eps[p.ep].closes.iter().cloned());
        v
    }
}

#[derive(Clone)]
pub struct Ctx {
    pub m: Rc<RefCell<Model>>,
    pub sim: Arc<SimInner>,
    pub sp: Spawner,
    pub cur: Rc<Cell<TaskId>>,
    pub sc: Rc<Scenario>,
}

impl Ctx {
    pub fn now(&self) -> u64 {
        self.sim.now_ns()
    }
    fn no_loss(&self) -> bool {
        self.sim.lock().net.dropped == 0
    }
    fn label(&self, l: &'static str) {
        self.m.borrow_mut().labels.insert(l);
    }
    fn fail(&self, sig: impl Into<String>, msg: impl Into<String>) {
        self.m.borrow_mut().fail(sig, msg);
    }
    fn log(&self, f: impl FnOnce() -> String) {
        let mut m = self.m.borrow_mut();
        if m.trace {
            let s = format!("[{:>10.3}ms t{}] {}", self.sim.now_ns() as f64 / 1e6, self.cur.get() as isize, f());
            m.log.push(s);
        }
    }
    fn begin(&self, mut p: PendOp) {
        p.since = self.now();
        self.m.borrow_mut().pending.insert(self.cur.get(), p);
    }
    fn end(&self) -> PendOp {
        let mut m = self.m.borrow_mut();
        m.ops_done += 1;
        m.pending.remove(&self.cur.get()).expect("pending op entry")
    }
    fn ckey(&self, ci: usize) -> u64 {
        mix(self.sc.seed, 0xc0 + ci as u64)
    }
    /// Another task has an operation pending on this connection (for the non-trivial rule)
    fn note_drop(&self, ci: usize, label: &'static str) {
        let me = self.cur.get();
        let mut m = self.m.borrow_mut();
        if m.pending.iter().any(|(t, p)| *t != me && p.conn.map(|c| c.0) == Some(ci)) {
            m.drops_while_pending += 1;
            m.labels.insert(label);
        }
    }
}

impl Ctx {
    /// (0-RTT sub-check) whether the client of connection 1 is known to have completed its
    /// handshake: `authenticated()` polled once, non-blocking. quinn sets `connected` in the same
    /// driver poll (under the connection lock) in which `is_handshaking()` turns false, so this is
    /// exactly the instant from which `check_0rtt()` can fail.
    fn z_connected(&self, c: &quinn::Connection, ci: usize, side: usize) -> bool {
        if self.m.borrow().conns[ci].sides[side].connected_seen {
            return true;
        }
        let w = noop_waker();
        let mut cx = Context::from_waker(&w);
        let f = c.authenticated();
        let mut f = std::pin::pin!(f);
        let done = matches!(f.as_mut().poll(&mut cx), Poll::Ready(Ok(())));
        if done {
            self.m.borrow_mut().conns[ci].sides[side].connected_seen = true;
        }
        done
    }
    /// Whether something created on (ci, side) right now belongs to the client's 0-RTT phase
    fn z_early(&self, c: &quinn::Connection, ci: usize, side: usize) -> bool {
        let used = self.m.borrow().z.as_ref().map_or(false, |z| z.used);
        // (on a connection that already failed nothing can be opened, and streams accepted from it
        // were queued by the peer, i.e. after the handshake)
        used && ci == 1 && side == 0 && !self.z_connected(c, ci, side) && c.close_reason().is_none()
    }
    /// Z3: whether the blocked-reader/writer registration of pending operation `p` may have been
    /// removed by the drop of a rejected 0-RTT handle that had the same stream id
    fn z_clobbered(&self, p: &PendOp) -> bool {
        match (&self.m.borrow().z, p.wkey) {
            (Some(z), Some((k, reader))) => k.0 == 1 && z.clobbered.contains(&(k.1 & !EARLY_BIT, reader)),
            _ => false,
        }
    }
    fn z_note_drop(&self, early: bool, zc: &Option<quinn::Connection>, ci: usize, side: usize, raw: u64, reader: bool) {
        if early && self.z_rejected() {
            if let Some(c) = zc {
                if self.z_connected(c, ci, side) {
                    if let Some(z) = self.m.borrow_mut().z.as_mut() {
                        z.clobbered.insert((raw & !EARLY_BIT, reader));
                    }
                }
            }
        }
    }
    fn z_rejected(&self) -> bool {
        self.m.borrow().z.as_ref().map_or(false, |z| z.used && z.rejected)
    }
    /// An operation on a stream handle completed; `zr` = with ZeroRttRejected. `early` = the handle
    /// was created in the client's 0-RTT phase, `zc` a connection handle to probe with.
    fn z_judge(&self, early: bool, zc: &Option<quinn::Connection>, ci: usize, side: usize, kind: &str, zr: bool) {
        if early {
            if let Some(z) = self.m.borrow_mut().z.as_mut() {
                z.early_ops += 1;
            }
        }
        if zr {
            // Z1: `check_0rtt()` also fails once a connection that was still handshaking got closed
            // or lost (is_handshaking() is false in the Closed state), so operations on 0-RTT
            // streams then report ZeroRttRejected instead of ConnectionLost although nothing was
            // rejected. Tolerated unless QV_C18_STRICT.
            let lost_early = early && !self.m.borrow().conns[ci].sides[side].connected_seen && {
                let m = self.m.borrow();
                let s = &m.conns[ci].sides[side];
                s.first_err.is_some() || !m.local_closes(ci, side).is_empty() || !m.peer_closes(ci, side).is_empty() || zc.as_ref().map_or(false, |c| c.close_reason().is_some())
            };
            if lost_early && !self.z_rejected() {
                if strict("Z1") {
                    self.fail("c18/strict/zero-rtt-rejected-reported-for-closed-connection", format!("{kind} on a 0-RTT stream of conn {ci} failed with ZeroRttRejected although the server accepts 0-RTT: the connection was closed or lost while still handshaking"));
                }
                self.label("zero-rtt-rejected-after-early-close");
            } else if !(early && self.z_rejected()) {
                let sig = if self.m.borrow().z.is_some() { "c18/0rtt/unexpected-zero-rtt-rejected" } else { "c18/error/zero-rtt" };
                self.fail(sig, format!("{kind} on conn {ci} side {side} failed with ZeroRttRejected although the stream was not opened in 0-RTT or 0-RTT was not rejected (0-RTT handle: {early})"));
            } else {
                self.label("0rtt-rejection-observed");
            }
        } else if early && self.z_rejected() {
            if let Some(c) = zc {
                if self.z_connected(c, ci, side) {
                    self.fail("c18/0rtt/not-rejected", format!("{kind} on a stream opened in 0-RTT (conn {ci} side {side}) completed with something other than ZeroRttRejected although the handshake has completed and the server rejected 0-RTT"));
                }
            }
        }
    }
}

fn code_reason(code: u64) -> Vec<u8> {
    format!("c{code}").into_bytes()
}

fn err_name(e: &ConnectionError) -> String {
    match e {
        ConnectionError::ApplicationClosed(a) => format!("ApplicationClosed({})", a.error_code),
        ConnectionError::ConnectionClosed(c) => format!("ConnectionClosed({:?})", c.error_code),
        ConnectionError::TransportError(t) => format!("TransportError({:?}: {})", t.code, t.reason),
        other => format!("{other:?}"),
    }
}

// ---------------------------------------------------------------------------------------------
// Judging errors and overdue deliveries
// ---------------------------------------------------------------------------------------------

impl Ctx {
    /// Delivery rules (worlds without datagram loss only): what the peer finished / stopped /
    /// closed at time T must have reached an operation that was pending throughout within SETTLE.
    fn check_overdue(&self, p: &PendOp) {
        if !self.no_loss() {
            return;
        }
        let now = self.now();
        let mut found: Option<(String, String)> = None;
        {
            let m = self.m.borrow();
            // stop-drop choreography: the peer has let go of the only stream that occupied the slot
            if let ("open_bi", Some((ci, 0))) = (p.kind, p.conn) {
                if let Some(t) = m.conns[ci].slot_released_at {
                    if m.conns[ci].sides[0].first_err.is_none() && m.conns[ci].sides[1].first_err.is_none() && now.saturating_sub(t.max(p.since)) >= SETTLE_NS {
                        found = Some(("c18/teardown/stream-slot-not-released".into(), format!("open_bi on connection {ci} pending since {} ns; the peer read the only client-initiated bidirectional stream to its end, was stopped on its sending half and dropped both handles at {t} ns, now {now} ns, no datagram was lost: the stream never became terminal at the peer, its slot was not returned", p.since)));
                    }
                }
            }
            if let (kind @ ("open_bi" | "open_uni"), Some((ci, 0))) = (p.kind, p.conn) {
                if let Some((uni, t)) = m.conns[ci].limit_raised_at {
                    // (the raise grants one stream: only while the client has opened none of this kind)
                    if uni == (kind == "open_uni") && m.conns[ci].sides[0].next_open[uni as usize] == 0 && m.conns[ci].sides[0].first_err.is_none() && m.conns[ci].sides[1].first_err.is_none() && now.saturating_sub(t.max(p.since)) >= SETTLE_NS {
                        found = Some(("c18/lost-wakeup/raised-stream-limit-not-announced".into(), format!("{kind} on connection {ci} pending since {} ns; the peer application raised its limit for these streams from 0 to 1 at {t} ns (set_max_concurrent_*_streams), now {now} ns, no datagram was lost: the new limit never reached this side", p.since)));
                    }
                }
            }
            if let Some((k, reader)) = p.stream {
                if let Some(d) = m.conns[k.0].streams.get(&(k.1, k.2)) {
                    if reader {
                        if let Some(f) = &d.finished {
                            if f.lo == f.hi && p.off == f.lo && d.resets.is_empty() && now.saturating_sub(f.t.max(p.since)) >= SETTLE_NS {
                                let sig = if p.kind == "received_reset" {
                                    "c18/strict/received-reset-pending-after-finish"
                                } else if f.implicit {
                                    "c18/teardown/implicit-finish-not-delivered"
                                } else {
                                    "c18/teardown/finish-not-delivered"
                                };
                                found = Some((sig.into(), format!("{} on stream {:?} pending since {} ns with all {} bytes read; the peer finished the stream at {} ns (implicit={}), now {} ns, no datagram was lost", p.kind, k, p.since, p.off, f.t, f.implicit, now)));
                            }
                        }
                    } else if let Some(s) = d.stops.first().filter(|_| p.kind.starts_with("stopped") || strict("D3")) {
                        // (a parked write is exempt by default: suspected defect D3)
                        if now.saturating_sub(s.1.max(p.since)) >= SETTLE_NS {
                            let sig = if !p.kind.starts_with("stopped") {
                                "c18/strict/write-parked-on-stopped-stream"
                            } else if s.2 {
                                "c18/teardown/implicit-stop-not-delivered"
                            } else {
                                "c18/teardown/stop-not-delivered"
                            };
                            found = Some((sig.into(), format!("{} on stream {:?} pending since {} ns; the peer stopped the stream (code {}, implicit={}) at {} ns, now {} ns, no datagram was lost", p.kind, k, p.since, s.0, s.2, s.1, now)));
                        }
                    }
                }
            }
            if found.is_none() {
                if let Some((ci, side)) = p.conn {
                    if m.conns[ci].sides[side].established.is_some() {
                        let peer = &m.conns[ci].sides[1 - side];
                        let mut cl: Vec<&CloseRec> = peer.closes.iter().filter(|c| !c.silent).collect();
                        // endpoint closes only count for connections that existed at that time
                        // (and had not been lost on that side before: a connection that has timed out announces nothing)
                        cl.extend(m.eps[peer.ep].closes.iter().filter(|c| peer.established.map_or(false, |e| e <= c.t) && peer.first_err.as_ref().map_or(true, |e| e.1 > c.t)));
                        if let Some(c) = cl.iter().min_by_key(|c| c.t) {
                            if now.saturating_sub(c.t.max(p.since)) >= SETTLE_NS {
                                let sig = if c.implicit { "c18/teardown/implicit-close-not-delivered" } else { "c18/teardown/close-not-delivered" };
                                found = Some((sig.into(), format!("{} on connection {} side {} pending since {} ns; the peer closed (code {}, implicit={}) at {} ns, now {} ns, no datagram was lost", p.kind, ci, side, p.since, c.code, c.implicit, c.t, now)));
                            }
                        }
                    }
                }
            }
        }
        if let Some((s, msg)) = found {
            self.fail(s, msg);
        }
    }

    /// An operation on (ci, side) completed with connection error `e`: is that explained?
    fn check_conn_err(&self, ci: usize, side: usize, e: &ConnectionError, p: &PendOp) {
        let now = self.now();
        {
            let mut m = self.m.borrow_mut();
            let s = &mut m.conns[ci].sides[side];
            if s.first_err.is_none() {
                s.first_err = Some((err_name(e), now));
            }
        }
        self.log(|| format!("{} -> connection error {}", p.kind, err_name(e)));
        let (peer_closes, local_closes, peer_err, refusable) = {
            let m = self.m.borrow();
            (m.peer_closes(ci, side), m.local_closes(ci, side), m.conns[ci].sides[1 - side].first_err.clone(), m.conns[ci].refused || !m.eps[m.conns[ci].sides[1].ep].closes.is_empty())
        };
        match e {
            ConnectionError::LocallyClosed => {
                if local_closes.is_empty() {
                    self.fail("c18/error/locally-closed-without-close", format!("{} on conn {ci} side {side} failed with LocallyClosed but nothing closed the connection locally", p.kind));
                }
            }
            ConnectionError::ApplicationClosed(a) => {
                let code = a.error_code.into_inner();
                match peer_closes.iter().find(|c| c.code == code && c.reason[..] == a.reason[..]) {
                    Some(c) => {
                        if c.implicit {
                            self.label("implicit-close-observed");
                        }
                    }
                    None => self.fail(
                        "c18/error/unexplained-application-close",
                        format!("{} on conn {ci} side {side} failed with ApplicationClosed(code {code}, reason {:?}) but the peer's close actions were {:?}", p.kind, a.reason, peer_closes),
                    ),
                }
            }
            ConnectionError::ConnectionClosed(c) => {
                use quinn::TransportErrorCode as T;
                let ok = (c.error_code == T::APPLICATION_ERROR && !peer_closes.is_empty()) || (c.error_code == T::CONNECTION_REFUSED && side == 0 && refusable) || (c.error_code == T::NO_ERROR && !peer_closes.is_empty());
                if !ok {
                    self.fail("c18/error/unexpected-transport-close", format!("{} on conn {ci} side {side}: peer closed with transport error {c:?}; peer closes {:?}", p.kind, peer_closes));
                }
            }
            ConnectionError::TimedOut => {
                self.label("timed-out");
            }
            ConnectionError::Reset => {
                if !local_closes.is_empty() {
                    // The connection was closed locally; the peer forgot it and answered a late
                    // packet with a stateless reset, which replaces LocallyClosed as the reported
                    // reason (NOTES, D7). Tolerated unless QV_C18_STRICT.
                    if strict("D7") {
                        self.fail("c18/strict/reset-reported-after-local-close", format!("{} on conn {ci} side {side} failed with Reset although the connection had been closed locally ({local_closes:?}): close() promises LocallyClosed", p.kind));
                    }
                    self.label("reset-after-local-close");
                } else if peer_closes.is_empty() && peer_err.is_none() {
                    self.fail("c18/error/unexpected-stateless-reset", format!("{} on conn {ci} side {side}: stateless reset although the peer neither closed nor lost the connection", p.kind));
                }
            }
            other => {
                self.fail("c18/error/transport-error", format!("{} on conn {ci} side {side} between honest peers failed with {}", p.kind, err_name(other)));
            }
        }
        self.check_overdue(p);
    }
}

// ---------------------------------------------------------------------------------------------
// Handle wrappers: keep the model informed about drops
// ---------------------------------------------------------------------------------------------

pub struct EpH {
    pub e: quinn::Endpoint,
    ctx: Ctx,
    idx: usize,
}

impl EpH {
    fn new(ctx: &Ctx, e: quinn::Endpoint, idx: usize) -> Self {
        ctx.m.borrow_mut().eps[idx].handles += 1;
        Self { e, ctx: ctx.clone(), idx }
    }
    fn dup(&self) -> Self {
        Self::new(&self.ctx, self.e.clone(), self.idx)
    }
}

impl Drop for EpH {
    fn drop(&mut self) {
        self.ctx.m.borrow_mut().eps[self.idx].handles -= 1;
    }
}

fn handle_acquired(ctx: &Ctx, ci: usize, side: usize, conn: bool) {
    let mut m = ctx.m.borrow_mut();
    let s = &mut m.conns[ci].sides[side];
    s.handles += 1;
    if conn {
        s.conn_handles += 1;
    }
}

fn handle_released(ctx: &Ctx, ci: usize, side: usize, conn: bool) {
    let now = ctx.now();
    let mut m = ctx.m.borrow_mut();
    let s = &mut m.conns[ci].sides[side];
    s.handles -= 1;
    if conn {
        s.conn_handles -= 1;
    }
    if s.handles == 0 && s.first_err.is_some() {
        // the connection was already lost on this side (e.g. idle timeout): nothing is announced any more
    } else if s.handles == 0 {
        // last handle: quinn closes the connection with code 0 and an empty reason
        s.closes.push(CloseRec { code: 0, reason: vec![], t: now, implicit: true, silent: false });
        if m.trace {
            m.log.push(format!("[{:>10.3}ms] conn {ci} side {side}: last handle dropped (implicit close)", now as f64 / 1e6));
        }
    }
}

pub struct ConnH {
    pub c: quinn::Connection,
    ctx: Ctx,
    ci: usize,
    side: usize,
}

impl ConnH {
    fn new(ctx: &Ctx, c: quinn::Connection, ci: usize, side: usize) -> Self {
        handle_acquired(ctx, ci, side, true);
        Self { c, ctx: ctx.clone(), ci, side }
    }
    fn dup(&self) -> Self {
        Self::new(&self.ctx, self.c.clone(), self.ci, self.side)
    }
}

impl Drop for ConnH {
    fn drop(&mut self) {
        self.ctx.note_drop(self.ci, "drop-connection");
        handle_released(&self.ctx, self.ci, self.side, true);
    }
}

pub struct SendH {
    pub s: quinn::SendStream,
    ctx: Ctx,
    ci: usize,
    side: usize,
    key: DKey,
    /// an abandoned `write_all`-style future left the stream offset unknown: no more writes
    poisoned: bool,
    finished: bool,
    reset: bool,
    /// (0-RTT sub-check) created while the client was still handshaking
    early: bool,
    /// ... and then a connection handle to probe the handshake state with. A `SendStream` keeps the
    /// connection alive exactly like a `Connection` clone does, so this changes no drop semantics.
    zc: Option<quinn::Connection>,
}

/// Streams opened in 0-RTT that the server rejects never reach it and their ids are handed out
/// again after the handshake: the model keeps them apart with this bit in the stream id.
const EARLY_BIT: u64 = 1 << 62;

impl SendH {
    fn new(ctx: &Ctx, s: quinn::SendStream, ci: usize, side: usize, conn: Option<&quinn::Connection>) -> Self {
        let id = s.id();
        let raw = VarInt::from(id).into_inner();
        let fwd = (id.initiator() == quinn::Side::Client) == (side == 0);
        handle_acquired(ctx, ci, side, false);
        let early = conn.map_or(false, |c| ctx.z_early(c, ci, side));
        // `fwd` for a send handle = we initiated the stream
        let key = (ci, if early && fwd && ctx.z_rejected() { raw | EARLY_BIT } else { raw }, fwd);
        ctx.m.borrow_mut().stream(key);
        if early {
            if let Some(z) = ctx.m.borrow_mut().z.as_mut() {
                z.early_handles += 1;
            }
        }
        Self { s, ctx: ctx.clone(), ci, side, key, poisoned: false, finished: false, reset: false, early, zc: if early { conn.cloned() } else { None } }
    }
    fn z_other(&self, kind: &str) {
        self.ctx.z_judge(self.early, &self.zc, self.ci, self.side, kind, false);
    }
    fn written(&self) -> u64 {
        self.ctx.m.borrow_mut().stream(self.key).written
    }
}

impl Drop for SendH {
    fn drop(&mut self) {
        self.ctx.z_note_drop(self.early, &self.zc, self.ci, self.side, self.key.1, false);
        let now = self.ctx.now();
        // (nothing is announced on a connection this side has already seen lost, e.g. by idle timeout)
        let lost = self.ctx.m.borrow().conns[self.ci].sides[self.side].first_err.is_some();
        if !self.finished && !self.reset && !lost {
            self.ctx.note_drop(self.ci, "drop-sendstream");
            let mut m = self.ctx.m.borrow_mut();
            let d = m.stream(self.key);
            if d.finished.is_none() {
                d.finished = Some(Fin { lo: d.written, hi: d.written + d.extra, t: now, implicit: true });
            }
        }
        handle_released(&self.ctx, self.ci, self.side, false);
    }
}

pub struct RecvH {
    pub r: quinn::RecvStream,
    ctx: Ctx,
    ci: usize,
    side: usize,
    key: DKey,
    off: u64,
    unordered: bool,
    ranges: Vec<(u64, u64)>,
    /// EOF / reset / connection loss was reported, or the stream was stopped: no more reads
    terminal: bool,
    /// quinn will not send an implicit STOP_SENDING on drop
    no_implicit_stop: bool,
    lost_by_illegal_read: bool,
    early: bool,
    zc: Option<quinn::Connection>,
    /// the reset code a read on this handle has reported (received_reset() must agree with it)
    reset_reported: Option<u64>,
}

impl RecvH {
    fn new(ctx: &Ctx, r: quinn::RecvStream, ci: usize, side: usize, conn: Option<&quinn::Connection>) -> Self {
        let id = r.id();
        let raw = VarInt::from(id).into_inner();
        // data flows towards us: forward direction iff the peer initiated the stream
        let fwd = (id.initiator() == quinn::Side::Client) != (side == 0);
        handle_acquired(ctx, ci, side, false);
        let early = conn.map_or(false, |c| ctx.z_early(c, ci, side));
        if conn.is_some() && ctx.m.borrow().z.is_some() && ci == 1 && side == 0 && r.is_0rtt() != early {
            ctx.fail("c18/0rtt/is-0rtt-flag", format!("RecvStream::is_0rtt() is {} for {id} although the handshake had{} completed when the stream was created", r.is_0rtt(), if early { " not" } else { "" }));
        }
        let key = (ci, if early && !fwd && ctx.z_rejected() { raw | EARLY_BIT } else { raw }, fwd);
        ctx.m.borrow_mut().stream(key);
        Self { r, ctx: ctx.clone(), ci, side, key, off: 0, unordered: false, ranges: vec![], terminal: false, no_implicit_stop: false, lost_by_illegal_read: false, early, zc: if early { conn.cloned() } else { None }, reset_reported: None }
    }
    fn z_other(&self, kind: &str) {
        self.ctx.z_judge(self.early, &self.zc, self.ci, self.side, kind, false);
    }
}

impl Drop for RecvH {
    fn drop(&mut self) {
        self.ctx.z_note_drop(self.early, &self.zc, self.ci, self.side, self.key.1, true);
        let now = self.ctx.now();
        let lost = self.ctx.m.borrow().conns[self.ci].sides[self.side].first_err.is_some();
        if !self.no_implicit_stop && !lost {
            self.ctx.note_drop(self.ci, "drop-recvstream");
            self.ctx.m.borrow_mut().stream(self.key).stops.push((0, now, true));
        }
        handle_released(&self.ctx, self.ci, self.side, false);
    }
}

// ---------------------------------------------------------------------------------------------
// Operation runner: cancellation plan, deadline, probes
// ---------------------------------------------------------------------------------------------

pub struct PlanRun<'a> {
    plan: &'a Cancel,
    idx: usize,
    pendings: u8,
    armed: bool,
    deadline_ns: u64,
}

impl<'a> PlanRun<'a> {
    fn new(plan: &'a Cancel, deadline_ns: u64) -> Self {
        Self { plan, idx: 0, pendings: 0, armed: false, deadline_ns }
    }
    /// called after a cancellation: whether the operation is to be issued again
    fn again(&mut self) -> bool {
        self.idx += 1;
        self.pendings = 0;
        self.armed = false;
        self.idx < self.plan.at.len() || self.plan.retry
    }
}

/// Which of the behaviours D1..D8 described in notes/c18-NOTES.md are held to the strict reading.
/// D1 (a rejected ordered read destroyed the stream), D3 (a write parked on a stopped stream) and D6
/// (a stale blocked-reader registration) were genuine defects and are repaired in quinn ("fix:"
/// commits), so they are always checked. D2, D4, D5 and D8 contradict neither the property as stated
/// nor the rustdoc of the operations involved (see DESIGN.md) and D7 is known finding
/// c08/local-close-reported of C08; `QV_C18_STRICT=1` reports those as well.
/// Z1, Z2, Z3 are findings of the 0-RTT sub-check. Z2 (`finish()` on a rejected 0-RTT handle acts on
/// the stream that reuses its id) and Z3 (dropping a rejected 0-RTT handle removes the waker of the
/// stream that reuses its id) were genuine defects, repaired in quinn, and are always checked. Z1
/// (`ZeroRttRejected` reported for a connection closed while handshaking) concerns which error an
/// operation completes with, which the property does not fix: tolerated unless `QV_C18_STRICT=1`.
pub fn strict(d: &str) -> bool {
    (matches!(d, "D1" | "D3" | "D6" | "Z2" | "Z3") && std::env::var("QV_C18_LENIENT").is_err()) || std::env::var("QV_C18_STRICT").is_ok()
}

/// Results that a probe may find ready without that being reported (default mode only).
///
/// `write*` on a stream the peer has stopped: quinn-proto tests the connection-level budget before
/// the stream's own state, so while the connection window is exhausted the write stays parked even
/// though it would fail with `Stopped` (NOTES, suspected defect D3). `QV_C18_STRICT` reports it.
pub trait Benign {
    fn benign(&self) -> bool {
        false
    }
}
macro_rules! never_benign {
    ($($t:ty),* $(,)?) => { $(impl Benign for $t {})* };
}
never_benign!(
    (),
    ConnectionError,
    Option<quinn::Incoming>,
    Result<quinn::Connection, ConnectionError>,
    Result<quinn::SendStream, ConnectionError>,
    Result<quinn::RecvStream, ConnectionError>,
    Result<(quinn::SendStream, quinn::RecvStream), ConnectionError>,
    Result<Bytes, ConnectionError>,
    Result<Option<usize>, ReadError>,
    Result<Option<quinn::Chunk>, ReadError>,
    Result<(), ReadExactError>,
    Result<Vec<u8>, ReadToEndError>,
    Result<Option<VarInt>, quinn::ResetError>,
    Result<Option<VarInt>, StoppedError>,
    Result<(), SendDatagramError>,
    Result<(), ConnectionError>,
    Result<usize, std::io::Error>,
);
impl<T> Benign for Result<T, WriteError> {
    fn benign(&self) -> bool {
        matches!(self, Err(WriteError::Stopped(_)))
    }
}

pub enum OpRes<T> {
    Done(T),
    Cancelled,
    Deadline,
}

pub struct OpFut<'a, 'b, F: Future> {
    fut: Pin<&'a mut F>,
    run: &'a mut PlanRun<'b>,
    ctx: &'a Ctx,
    fresh: Option<&'a dyn Fn() -> F>,
    /// polling this operation has protocol side effects (a blocked `open_*` queues a
    /// STREAMS_BLOCKED frame), so it is only probed when this counter moved since the last probe
    gate: Option<&'a dyn Fn() -> u64>,
    gate_seen: Option<u64>,
    timer: Option<Sleep>,
    /// the future was polled (and returned Pending) at least once: only then can a probe apply
    started: bool,
}

impl<'a, 'b, F: Future> OpFut<'a, 'b, F> {
    fn new(fut: Pin<&'a mut F>, run: &'a mut PlanRun<'b>, ctx: &'a Ctx, fresh: Option<&'a dyn Fn() -> F>) -> Self {
        Self { fut, run, ctx, fresh, gate: None, gate_seen: None, timer: None, started: false }
    }
    fn gated(mut self, gate: Option<&'a dyn Fn() -> u64>) -> Self {
        self.gate_seen = gate.map(|g| g());
        self.gate = gate;
        self
    }
}

impl<F: Future> Future for OpFut<'_, '_, F>
where
    F::Output: Benign,
{
    type Output = OpRes<F::Output>;
    fn poll(self: Pin<&mut Self>, cx: &mut Context<'_>) -> Poll<Self::Output> {
        // SAFETY-free: all fields are Unpin (references and a pinned reference)
        let this = self.get_mut();
        let me = this.ctx.cur.get();
        let probe = this.ctx.m.borrow().probe;
        if probe && this.started {
            let p = this.ctx.m.borrow().pending.get(&me).cloned();
            let kind = p.as_ref().map_or("?", |p| p.kind);
            if let Some(g) = this.gate {
                let v = g();
                if this.gate_seen == Some(v) {
                    // the re-poll probes are not due, the overdue oracles are
                    if let Some(p) = &p {
                        this.ctx.check_overdue(p);
                    }
                    return Poll::Pending;
                }
                this.gate_seen = Some(v);
            }
            this.ctx.m.borrow_mut().probes += 1;
            // (a) a spurious poll of the pending future must not find it ready
            if let Poll::Ready(v) = this.fut.as_mut().poll(cx) {
                if v.benign() {
                    if strict("D3") {
                        this.ctx.fail("c18/strict/write-parked-on-stopped-stream", format!("no task was ready, yet re-polling the pending {kind} future (pending since {} ns) fails it with Stopped at {} ns: the writer was not woken (or was parked again) after the peer stopped the stream ({p:?})", p.as_ref().map_or(0, |p| p.since), this.ctx.now()));
                    }
                    this.ctx.label("stop-masked-by-connection-window");
                    return Poll::Ready(OpRes::Done(v));
                }
                if let Some(pp) = &p {
                    if this.ctx.z_clobbered(pp) {
                        // Z3: the registration of this operation was removed when a rejected 0-RTT
                        // handle with the same stream id was dropped (NOTES)
                        if strict("Z3") {
                            this.ctx.fail("c18/strict/rejected-0rtt-handle-drop-removes-waker-of-reused-stream", format!("no task was ready, yet re-polling the pending {kind} future (pending since {} ns) completed it at {} ns; a rejected 0-RTT stream handle with the same stream id was dropped meanwhile, which removed this operation's blocked-reader/writer registration ({pp:?})", pp.since, this.ctx.now()));
                        }
                        this.ctx.label("waker-removed-by-rejected-0rtt-handle-drop");
                        return Poll::Ready(OpRes::Done(v));
                    }
                }
                let kind = if kind == "stopped-after-reset" { "strict-stopped-after-reset" } else { kind };
                this.ctx.fail(format!("c18/lost-wakeup/{kind}"), format!("no task was ready, yet re-polling the pending {kind} future (pending since {} ns) completed it at {} ns: it was never woken after its condition became true ({p:?})", p.as_ref().map_or(0, |p| p.since), this.ctx.now()));
                return Poll::Ready(OpRes::Done(v));
            }
            // (b) neither may a fresh future of the same operation be ready
            if let Some(mk) = this.fresh {
                let f2 = mk();
                let mut f2 = std::pin::pin!(f2);
                if f2.as_mut().poll(cx).is_ready() {
                    let kind = if kind == "stopped-after-reset" { "strict-stopped-after-reset" } else { kind };
                    this.ctx.fail(format!("c18/lost-wakeup/{kind}"), format!("no task was ready, the {kind} future is pending since {} ns, yet a fresh {kind} future is immediately ready at {} ns ({p:?})", p.as_ref().map_or(0, |p| p.since), this.ctx.now()));
                }
            }
            if let Some(p) = &p {
                this.ctx.check_overdue(p);
            }
            return Poll::Pending;
        }
        if this.run.armed {
            // cancellation at wake-up: the future is dropped without being polled again
            return Poll::Ready(OpRes::Cancelled);
        }
        let r = this.fut.as_mut().poll(cx);
        if this.ctx.m.borrow().trace {
            let kind = this.ctx.m.borrow().pending.get(&me).map_or("?", |p| p.kind);
            this.ctx.log(|| format!("  poll {} -> {}", kind, if r.is_ready() { "Ready" } else { "Pending" }));
        }
        match r {
            Poll::Ready(v) => Poll::Ready(OpRes::Done(v)),
            Poll::Pending => {
                this.started = true;
                // what happened before this poll is no wake-up the operation is owed: the gate counts from here
                if let Some(g) = this.gate {
                    this.gate_seen = Some(g());
                }
                this.run.pendings = this.run.pendings.saturating_add(1);
                if let Some(&k) = this.run.plan.at.get(this.run.idx) {
                    if this.run.pendings >= k.max(1) {
                        if this.run.plan.on_wake {
                            this.run.armed = true;
                        } else {
                            return Poll::Ready(OpRes::Cancelled);
                        }
                    }
                }
                let t = this.timer.get_or_insert_with(|| sleep_until(&this.ctx.sim, this.run.deadline_ns));
                if Pin::new(t).poll(cx).is_ready() {
                    return Poll::Ready(OpRes::Deadline);
                }
                Poll::Pending
            }
        }
    }
}

/// Run an operation whose future borrows its handle mutably: the expression is re-evaluated for
/// every incarnation. Yields `(Option<output>, PendOp)`; `None` = abandoned after a cancellation
/// or stuck until the deadline (reported).
macro_rules! op_mut {
    ($ctx:expr, $pend:expr, $cancel:expr, $retry_ok:expr, $mk:expr) => {{
        let ctx_: &Ctx = $ctx;
        let cancel_: &Cancel = $cancel;
        let mut run = PlanRun::new(cancel_, ctx_.now() + OP_DEADLINE_NS);
        ctx_.begin($pend);
        let out = loop {
            let res = {
                let fut = $mk;
                let mut fut = std::pin::pin!(fut);
                OpFut::new(fut.as_mut(), &mut run, ctx_, None).await
            };
            match res {
                OpRes::Done(v) => break Some(v),
                OpRes::Cancelled => {
                    ctx_.m.borrow_mut().cancels += 1;
                    if $retry_ok && run.again() {
                        continue;
                    }
                    break None;
                }
                OpRes::Deadline => {
                    ctx_.stuck();
                    break None;
                }
            }
        };
        (out, ctx_.end())
    }};
}

impl Ctx {
    fn stuck(&self) {
        let p = self.m.borrow().pending.get(&self.cur.get()).cloned();
        if let Some(p) = p {
            self.fail(format!("c18/stuck/{}", p.kind), format!("{} pending for {} s of virtual time although the idle timeout is {} ms and keep-alive is off ({p:?})", p.kind, OP_DEADLINE_NS / 1_000_000_000, self.sc.cfg.idle_ms));
        }
    }

    /// Run an operation whose future only borrows its handle immutably (`mk` can be called while
    /// an earlier future is alive, which is what the fresh-future probe does).
    async fn run_shared<F: Future>(&self, pend: PendOp, cancel: &Cancel, deadline_ns: Option<u64>, mk: &dyn Fn() -> F) -> (Option<F::Output>, PendOp, bool)
    where
        F::Output: Benign,
    {
        self.run_shared_gated(pend, cancel, deadline_ns, mk, None).await
    }

    async fn run_shared_gated<F: Future>(&self, pend: PendOp, cancel: &Cancel, deadline_ns: Option<u64>, mk: &dyn Fn() -> F, gate: Option<&dyn Fn() -> u64>) -> (Option<F::Output>, PendOp, bool)
    where
        F::Output: Benign,
    {
        let quiet = deadline_ns.is_some();
        let mut run = PlanRun::new(cancel, deadline_ns.unwrap_or(self.now() + OP_DEADLINE_NS));
        self.begin(pend);
        let mut timed_out = false;
        let out = loop {
            let res = {
                let fut = mk();
                let mut fut = std::pin::pin!(fut);
                OpFut::new(fut.as_mut(), &mut run, self, Some(mk)).gated(gate).await
            };
            match res {
                OpRes::Done(v) => break Some(v),
                OpRes::Cancelled => {
                    self.m.borrow_mut().cancels += 1;
                    if run.again() {
                        continue;
                    }
                    break None;
                }
                OpRes::Deadline => {
                    timed_out = true;
                    if !quiet {
                        self.stuck();
                    }
                    break None;
                }
            }
        };
        (out, self.end(), timed_out)
    }

    /// Run an owned future (connect / handshake): cancelling means dropping it for good
    async fn run_owned<F: Future>(&self, pend: PendOp, cancel: &Cancel, fut: F) -> (Option<F::Output>, PendOp)
    where
        F::Output: Benign,
    {
        let mut run = PlanRun::new(cancel, self.now() + OP_DEADLINE_NS);
        self.begin(pend);
        let mut fut = std::pin::pin!(fut);
        let res = OpFut::new(fut.as_mut(), &mut run, self, None).await;
        let out = match res {
            OpRes::Done(v) => Some(v),
            OpRes::Cancelled => {
                self.m.borrow_mut().cancels += 1;
                None
            }
            OpRes::Deadline => {
                self.stuck();
                None
            }
        };
        (out, self.end())
    }
}

/// A future created now and polled first only after the task has yielded `yields` times (an
/// application that builds the future and gets to `.await` it later)
struct LazyStart<F> {
    inner: F,
    yields: u8,
}

impl<F: Future> Future for LazyStart<F> {
    type Output = F::Output;
    fn poll(self: Pin<&mut Self>, cx: &mut Context<'_>) -> Poll<Self::Output> {
        // SAFETY: `inner` is structurally pinned, `yields` is not; neither is moved out
        let this = unsafe { self.get_unchecked_mut() };
        if this.yields > 0 {
            this.yields -= 1;
            cx.waker().wake_by_ref();
            return Poll::Pending;
        }
        unsafe { Pin::new_unchecked(&mut this.inner) }.poll(cx)
    }
}

// ---------------------------------------------------------------------------------------------
// Script interpreter
// ---------------------------------------------------------------------------------------------

fn content(ctx: &Ctx, k: DKey, off: u64, len: usize) -> Vec<u8> {
    let mut v = vec![0u8; len];
    crate::app::fill_content(ctx.ckey(k.0), k.1, k.2, off, &mut v);
    v
}

fn pick(i: u8, len: usize) -> Option<usize> {
    if len == 0 {
        None
    } else {
        Some((i as usize * len) >> 8)
    }
}

fn no_cancel() -> Cancel {
    Cancel::default()
}

impl SendH {
    fn pend(&self, kind: &'static str) -> PendOp {
        PendOp { kind, conn: Some((self.ci, self.side)), stream: Some((self.key, false)), off: 0, since: 0, wkey: Some((self.key, false)) }
    }
    fn wrote(&self, n: u64) {
        self.z_other("write");
        self.ctx.m.borrow_mut().stream(self.key).written += n;
    }
    /// a multi-write of `n` bytes (announced as `extra` before it started) completed
    fn wrote_all(&self, n: u64) {
        self.z_other("write_all");
        let mut m = self.ctx.m.borrow_mut();
        let d = m.stream(self.key);
        d.written += n;
        d.extra -= n;
    }
    fn write_err(&mut self, e: &WriteError, p: &PendOp) {
        self.ctx.z_judge(self.early, &self.zc, self.ci, self.side, p.kind, matches!(e, WriteError::ZeroRttRejected));
        match e {
            WriteError::Stopped(code) => {
                let code = code.into_inner();
                let st = self.ctx.m.borrow_mut().stream(self.key).stops.clone();
                match st.iter().find(|s| s.0 == code) {
                    Some(s) => {
                        if s.2 {
                            self.ctx.label("implicit-stop-observed");
                        }
                    }
                    None => self.ctx.fail("c18/integrity/unexplained-stopped", format!("{} on {:?} failed with Stopped({code}) but the peer's stops were {st:?}", p.kind, self.key)),
                }
            }
            WriteError::ConnectionLost(e) => self.ctx.check_conn_err(self.ci, self.side, e, p),
            WriteError::ClosedStream => {
                if !self.finished && !self.reset {
                    self.ctx.fail("c18/error/unexpected-closed-stream", format!("{} on {:?} failed with ClosedStream although the stream was neither finished nor reset locally", p.kind, self.key));
                }
            }
            // judged above; nothing more can be written to a rejected 0-RTT stream
            WriteError::ZeroRttRejected => self.poisoned = true,
        }
    }
}

impl RecvH {
    fn pend(&self, kind: &'static str) -> PendOp {
        PendOp { kind, conn: Some((self.ci, self.side)), stream: Some((self.key, true)), off: self.off, since: 0, wkey: Some((self.key, true)) }
    }

    fn bound(&self) -> u64 {
        let mut m = self.ctx.m.borrow_mut();
        let d = m.stream(self.key);
        d.written + d.extra
    }

    /// `data` was delivered for stream offset `off`
    fn got_data(&mut self, what: &str, off: u64, data: &[u8], ordered: bool) {
        self.z_other(what);
        let ctx = self.ctx.clone();
        if data.is_empty() {
            ctx.fail("c18/integrity/empty-read", format!("{what} on {:?} returned zero bytes", self.key));
            return;
        }
        if let Some(i) = crate::app::check_content(ctx.ckey(self.key.0), self.key.1, self.key.2, off, data) {
            ctx.fail("c18/integrity/content", format!("{what} on {:?}: byte at stream offset {} differs from what was written there (read of {} bytes at offset {off}; reader position {})", self.key, off + i as u64, data.len(), self.off));
        }
        let end = off + data.len() as u64;
        let bound = self.bound();
        if end > bound {
            ctx.fail("c18/integrity/read-beyond-written", format!("{what} on {:?} delivered bytes up to offset {end} but only {bound} were written", self.key));
        }
        if ordered {
            if off != self.off {
                ctx.fail("c18/integrity/offset", format!("{what} on {:?} delivered data for offset {off} while the next unread offset is {} (lost or duplicated bytes)", self.key, self.off));
            }
            self.off = end;
        } else {
            let pos = self.ranges.partition_point(|r| r.1 <= off);
            if pos < self.ranges.len() && self.ranges[pos].0 < end {
                ctx.fail("c18/integrity/duplicate-range", format!("{what} on {:?} delivered [{off},{end}) overlapping already delivered {:?}", self.key, self.ranges[pos]));
            }
            self.ranges.insert(pos, (off, end));
        }
        ctx.m.borrow_mut().bytes_read += data.len() as u64;
    }

    fn go_unordered(&mut self) {
        if !self.unordered {
            self.unordered = true;
            if self.off > 0 {
                self.ranges.push((0, self.off));
            }
        }
    }

    fn got_eof(&mut self, what: &str) {
        self.z_other(what);
        let ctx = self.ctx.clone();
        self.terminal = true;
        self.no_implicit_stop = true;
        let fin = ctx.m.borrow_mut().stream(self.key).finished.clone();
        let pos = if self.unordered {
            let mut at = 0;
            for r in &self.ranges {
                if r.0 != at {
                    ctx.fail("c18/integrity/eof-with-gap", format!("{what} on {:?} reported the end of the stream but [{at},{}) was never delivered", self.key, r.0));
                    break;
                }
                at = r.1;
            }
            at
        } else {
            self.off
        };
        match fin {
            None => ctx.fail("c18/integrity/eof-without-finish", format!("{what} on {:?} reported the end of the stream at offset {pos} but the peer never finished it (nor dropped it)", self.key)),
            Some(f) => {
                if pos < f.lo || pos > f.hi {
                    ctx.fail("c18/integrity/eof-at-wrong-offset", format!("{what} on {:?} reported the end of the stream at offset {pos}; the peer finished it at {}..={}", self.key, f.lo, f.hi));
                }
                if f.implicit {
                    ctx.label("implicit-finish-observed");
                }
            }
        }
    }

    fn got_reset(&mut self, what: &str, code: VarInt) {
        self.z_other(what);
        self.terminal = true;
        self.no_implicit_stop = true;
        let code = code.into_inner();
        if what != "received_reset" {
            self.reset_reported = Some(code);
        }
        let (resets, stops) = {
            let mut m = self.ctx.m.borrow_mut();
            let d = m.stream(self.key);
            (d.resets.clone(), d.stops.clone())
        };
        // a SendStream dropped after being stopped is reset with the stop code
        if !resets.contains(&code) && !stops.iter().any(|s| s.0 == code) {
            self.ctx.fail("c18/integrity/unexplained-reset", format!("{what} on {:?} failed with Reset({code}); the peer's resets were {resets:?}", self.key));
        }
    }

    /// returns true if the error was the expected IllegalOrderedRead
    fn got_err(&mut self, e: &ReadError, p: &PendOp, ordered: bool) {
        if !matches!(e, ReadError::ZeroRttRejected | ReadError::Reset(_)) {
            self.z_other(p.kind);
        }
        match e {
            ReadError::Reset(code) => self.got_reset(p.kind, *code),
            ReadError::ConnectionLost(e) => {
                self.terminal = true;
                self.no_implicit_stop = true;
                self.ctx.check_conn_err(self.ci, self.side, e, p);
            }
            ReadError::ClosedStream => {
                self.terminal = true;
                self.ctx.fail("c18/error/unexpected-closed-stream", format!("{} on {:?} failed with ClosedStream although the stream was not stopped and no end was reported", p.kind, self.key));
            }
            ReadError::IllegalOrderedRead => {
                if !(self.unordered && ordered) {
                    self.terminal = true;
                    self.ctx.fail("c18/error/illegal-ordered-read", format!("{} on {:?} failed with IllegalOrderedRead without a preceding unordered read", p.kind, self.key));
                } else {
                    self.ctx.label("illegal-ordered-read");
                    // The rejected call must leave the stream as it was (quinn-proto used to drop the
                    // stream's receive state on this error path: NOTES D1, repaired in quinn)
                    if !strict("D1") {
                        self.terminal = true;
                        self.no_implicit_stop = true;
                    }
                    self.lost_by_illegal_read = true;
                }
            }
            ReadError::ZeroRttRejected => {
                self.ctx.z_judge(self.early, &self.zc, self.ci, self.side, p.kind, true);
                self.terminal = true;
                self.no_implicit_stop = true;
            }
        }
    }
}

pub struct Task {
    ci: usize,
    side: usize,
    conn: Option<ConnH>,
    ep: Option<EpH>,
    sends: Vec<SendH>,
    recvs: Vec<RecvH>,
}

async fn do_write(ctx: &Ctx, h: &mut SendH, len: usize, chunks: bool, c: &Cancel) -> bool {
    // writing after finish()/reset() is documented as an error; quinn-proto may park such a write
    // as Blocked instead of failing it (NOTES, observation D3), so scripts do not do it
    if h.poisoned || h.finished || h.reset || len == 0 {
        return false;
    }
    let off = h.written();
    let data = content(ctx, h.key, off, len);
    if !chunks {
        let (out, p) = op_mut!(ctx, h.pend("write"), c, true, h.s.write(&data));
        match out {
            Some(Ok(n)) => {
                if n == 0 || n > len {
                    ctx.fail("c18/integrity/write-count", format!("write of {len} bytes returned {n}"));
                }
                h.wrote(n as u64);
                true
            }
            Some(Err(e)) => {
                h.write_err(&e, &p);
                false
            }
            None => {
                ctx.label("cancel-write");
                false
            }
        }
    } else {
        // split into up to three chunks
        let cut1 = len / 3;
        let cut2 = len - len / 4;
        let all = Bytes::from(data);
        let mut bufs = vec![all.slice(..cut1), all.slice(cut1..cut2), all.slice(cut2..)];
        let (out, p) = op_mut!(ctx, h.pend("write_chunks"), c, true, h.s.write_chunks(&mut bufs));
        let left: usize = bufs.iter().map(|b| b.len()).sum();
        match out {
            Some(Ok(w)) => {
                let full = bufs.iter().take_while(|b| b.is_empty()).count();
                let rest: Vec<u8> = bufs.iter().flat_map(|b| b.iter().copied()).collect();
                if w.bytes == 0 || w.bytes > len || left != len - w.bytes || rest[..] != all[w.bytes..] || w.chunks > full {
                    ctx.fail("c18/cancel/write_chunks-accounting", format!("write_chunks of {len} bytes reported {w:?} but left {left} bytes in the buffers (a cancelled attempt may have consumed data)"));
                }
                h.wrote(w.bytes as u64);
                true
            }
            Some(Err(e)) => {
                if left != len {
                    ctx.fail("c18/cancel/write_chunks-accounting", format!("write_chunks failed with {e:?} but consumed {} bytes of the buffers", len - left));
                }
                h.write_err(&e, &p);
                false
            }
            None => {
                if left != len {
                    ctx.fail("c18/cancel/write_chunks-accounting", format!("a cancelled write_chunks consumed {} bytes of the buffers", len - left));
                }
                ctx.label("cancel-write");
                false
            }
        }
    }
}

/// One cancel-safe read; returns true while the stream may be read further
async fn do_read(ctx: &Ctx, h: &mut RecvH, style: u8, piece: usize, c: &Cancel) -> bool {
    if h.terminal {
        return false;
    }
    let piece = piece.max(1);
    match style {
        0 => {
            let mut buf = vec![0u8; piece];
            let (out, p) = op_mut!(ctx, h.pend("read"), c, true, h.r.read(&mut buf));
            match out {
                Some(Ok(Some(n))) => {
                    if n > piece {
                        ctx.fail("c18/integrity/read-count", format!("read into {piece} bytes returned {n}"));
                        return false;
                    }
                    h.got_data("read", h.off, &buf[..n], true);
                }
                Some(Ok(None)) => h.got_eof("read"),
                Some(Err(e)) => h.got_err(&e, &p, true),
                None => {
                    ctx.label("cancel-read");
                    return false;
                }
            }
        }
        1 => {
            let (out, p) = op_mut!(ctx, h.pend("read_chunk"), c, true, h.r.read_chunk(piece, true));
            match out {
                Some(Ok(Some(ch))) => {
                    if ch.bytes.len() > piece {
                        ctx.fail("c18/integrity/read-count", format!("read_chunk(max {piece}) returned {} bytes", ch.bytes.len()));
                    }
                    h.got_data("read_chunk", ch.offset, &ch.bytes, true);
                }
                Some(Ok(None)) => h.got_eof("read_chunk"),
                Some(Err(e)) => h.got_err(&e, &p, true),
                None => {
                    ctx.label("cancel-read");
                    return false;
                }
            }
        }
        3 => {
            // through the tokio `AsyncRead` adapter; end of stream is a read of zero bytes there
            let mut buf = vec![0u8; piece];
            let (out, p) = op_mut!(ctx, h.pend("read"), c, true, async {
                let mut rb = tokio::io::ReadBuf::new(&mut buf);
                let r = std::future::poll_fn(|cx| tokio::io::AsyncRead::poll_read(std::pin::Pin::new(&mut h.r), cx, &mut rb)).await;
                r.map(|()| rb.filled().len())
            });
            match out {
                Some(Ok(0)) => h.got_eof("read"),
                Some(Ok(n)) => {
                    if n > piece {
                        ctx.fail("c18/integrity/read-count", format!("AsyncRead::poll_read into {piece} bytes filled {n}"));
                        return false;
                    }
                    h.got_data("read", h.off, &buf[..n], true);
                }
                Some(Err(e)) => match e.get_ref().and_then(|x| x.downcast_ref::<ReadError>()) {
                    Some(re) => {
                        let re = re.clone();
                        h.got_err(&re, &p, true)
                    }
                    None => {
                        ctx.fail("c18/integrity/io-error", format!("AsyncRead::poll_read failed with an error that does not wrap a ReadError: {e:?}"));
                        return false;
                    }
                },
                None => {
                    ctx.label("cancel-read");
                    return false;
                }
            }
        }
        _ => {
            let n = (piece % 4) + 1;
            let mut bufs = vec![Bytes::new(); n];
            let (out, p) = op_mut!(ctx, h.pend("read_chunks"), c, true, h.r.read_chunks(&mut bufs));
            match out {
                Some(Ok(Some(k))) => {
                    if k == 0 || k > n {
                        ctx.fail("c18/integrity/read-count", format!("read_chunks into {n} buffers returned {k}"));
                        return false;
                    }
                    for b in &bufs[..k] {
                        h.got_data("read_chunks", h.off, b, true);
                    }
                }
                Some(Ok(None)) => h.got_eof("read_chunks"),
                Some(Err(e)) => h.got_err(&e, &p, true),
                None => {
                    ctx.label("cancel-read");
                    return false;
                }
            }
        }
    }
    !h.terminal
}

fn verify_dgram(ctx: &Ctx, ci: usize, side: usize, b: &[u8]) {
    let mut m = ctx.m.borrow_mut();
    m.dgrams_read += 1;
    if b.len() < 8 {
        m.fail("c18/integrity/datagram", format!("conn {ci} side {side} received a {}-byte datagram that was never sent", b.len()));
        return;
    }
    let id = u64::from_be_bytes(b[..8].try_into().unwrap());
    let key = mix(ctx.sc.seed, 0xc0 + ci as u64);
    let peer = &m.conns[ci].sides[1 - side];
    let len = peer.dgram_sent.get(&id).or_else(|| peer.dgram_maybe.get(&id)).copied();
    let ok = len == Some(b.len()) && crate::app::dgram_payload(key, id, b.len())[..] == b[..];
    if !ok {
        m.fail("c18/integrity/datagram", format!("conn {ci} side {side} received a datagram (id {id}, {} bytes) that differs from everything the peer sent (sent len {len:?})", b.len()));
        return;
    }
    if ci == 1 && side == 1 && m.z.as_ref().map_or(false, |z| z.used && z.rejected && z.early_dgrams.contains(&id)) {
        m.fail("c18/0rtt/early-datagram-delivered", format!("the server application received datagram {id}, which the client sent before its handshake completed, although the server rejected 0-RTT (early data must not be conveyed)"));
        return;
    }
    let s = &mut m.conns[ci].sides[side];
    s.dgram_read += 1;
    if !s.dgram_got.insert(id) {
        m.fail("c18/integrity/datagram-duplicate", format!("conn {ci} side {side} received datagram {id} twice"));
    }
}

impl Task {
    fn new_send(&mut self, ctx: &Ctx, s: quinn::SendStream, opened: bool) {
        let c = self.conn.as_ref().map(|c| &c.c);
        let h = SendH::new(ctx, s, self.ci, self.side, c);
        check_stream_id(ctx, self.ci, self.side, h.s.id(), opened, h.key.1 & EARLY_BIT != 0);
        self.sends.push(h);
    }
    fn new_recv(&mut self, ctx: &Ctx, r: quinn::RecvStream) {
        let c = self.conn.as_ref().map(|c| &c.c);
        let h = RecvH::new(ctx, r, self.ci, self.side, c);
        self.recvs.push(h);
    }
    fn cpend(&self, kind: &'static str) -> PendOp {
        PendOp { kind, conn: Some((self.ci, self.side)), stream: None, off: 0, since: 0, wkey: None }
    }
}

/// opened / accepted streams come in consecutive index order per direction, from the right side
fn check_stream_id(ctx: &Ctx, ci: usize, side: usize, id: quinn::StreamId, opened: bool, early_rejected: bool) {
    let mut m = ctx.m.borrow_mut();
    let d = id.dir() as usize;
    let local = (id.initiator() == quinn::Side::Client) == (side == 0);
    let s = &mut m.conns[ci].sides[side];
    let next = if opened && early_rejected {
        &mut s.next_open_early[d]
    } else if opened {
        &mut s.next_open[d]
    } else {
        &mut s.next_accept[d]
    };
    let want = *next;
    *next = (*next).max(id.index() + 1);
    if local != opened || id.index() != want {
        let what = if opened { "open" } else { "accept" };
        m.fail(format!("c18/cancel/{what}-stream-order"), format!("conn {ci} side {side}: {what} returned {id} but the next expected index was {want} (a stream was lost or duplicated)"));
    }
}

async fn exec_op(ctx: &Ctx, t: &mut Task, op: &Op) {
    let (ci, side) = (t.ci, t.side);
    ctx.log(|| format!("c{ci}s{side} op {op:?}"));
    match op {
        Op::OpenUni(c) | Op::OpenBi(c) => {
            let Some(conn) = &t.conn else { return };
            let cq = &conn.c;
            if matches!(op, Op::OpenUni(_)) {
                let (out, p, _) = ctx.run_shared_gated(t.cpend("open_uni"), c, None, &|| cq.open_uni(), Some(&|| cq.stats().frame_rx.max_streams_uni)).await;
                match out {
                    Some(Ok(s)) => t.new_send(ctx, s, true),
                    Some(Err(e)) => ctx.check_conn_err(ci, side, &e, &p),
                    None => ctx.label("cancel-open"),
                }
            } else {
                let (out, p, _) = ctx.run_shared_gated(t.cpend("open_bi"), c, None, &|| cq.open_bi(), Some(&|| cq.stats().frame_rx.max_streams_bidi)).await;
                match out {
                    Some(Ok((s, r))) => {
                        t.new_send(ctx, s, true);
                        t.new_recv(ctx, r);
                    }
                    Some(Err(e)) => ctx.check_conn_err(ci, side, &e, &p),
                    None => ctx.label("cancel-open"),
                }
            }
        }
        Op::AcceptUni(c) | Op::AcceptBi(c) => {
            let Some(conn) = &t.conn else { return };
            let cq = &conn.c;
            if matches!(op, Op::AcceptUni(_)) {
                let (out, p, _) = ctx.run_shared(t.cpend("accept_uni"), c, None, &|| cq.accept_uni()).await;
                match out {
                    Some(Ok(r)) => {
                        check_stream_id(ctx, ci, side, r.id(), false, false);
                        t.new_recv(ctx, r);
                    }
                    Some(Err(e)) => ctx.check_conn_err(ci, side, &e, &p),
                    None => ctx.label("cancel-accept"),
                }
            } else {
                let (out, p, _) = ctx.run_shared(t.cpend("accept_bi"), c, None, &|| cq.accept_bi()).await;
                match out {
                    Some(Ok((s, r))) => {
                        check_stream_id(ctx, ci, side, r.id(), false, false);
                        let h = SendH::new(ctx, s, ci, side, t.conn.as_ref().map(|c| &c.c));
                        t.sends.push(h);
                        t.new_recv(ctx, r);
                    }
                    Some(Err(e)) => ctx.check_conn_err(ci, side, &e, &p),
                    None => ctx.label("cancel-accept"),
                }
            }
        }
        Op::Write { s, len, c } => {
            if let Some(i) = pick(*s, t.sends.len()) {
                do_write(ctx, &mut t.sends[i], *len as usize, false, c).await;
            }
        }
        Op::WriteChunks { s, lens, c } => {
            if let Some(i) = pick(*s, t.sends.len()) {
                let len: usize = lens.iter().map(|&l| l as usize).sum::<usize>().max(3);
                do_write(ctx, &mut t.sends[i], len, true, c).await;
            }
        }
        Op::WriteTotal { s, total, piece, chunks, c } => {
            if let Some(i) = pick(*s, t.sends.len()) {
                let mut left = *total as usize;
                let mut n = 0;
                while left > 0 {
                    let h = &mut t.sends[i];
                    let before = h.written();
                    let want = left.min((*piece).max(16) as usize);
                    let nc = no_cancel();
                    if !do_write(ctx, h, want, *chunks, if n < 2 { c } else { &nc }).await {
                        break;
                    }
                    left -= (h.written() - before) as usize;
                    n += 1;
                }
            }
        }
        Op::WriteAll { s, len, c } | Op::WriteChunk { s, len, c } => {
            if let Some(i) = pick(*s, t.sends.len()) {
                let h = &mut t.sends[i];
                let len = *len as usize;
                if h.poisoned || h.finished || h.reset || len == 0 {
                    return;
                }
                let data = content(ctx, h.key, h.written(), len);
                // a multi-write future makes a growing prefix visible to the peer while it is pending
                ctx.m.borrow_mut().stream(h.key).extra += len as u64;
                let (out, p) = if matches!(op, Op::WriteAll { .. }) {
                    op_mut!(ctx, h.pend("write_all"), c, false, h.s.write_all(&data))
                } else {
                    let b = Bytes::from(data);
                    op_mut!(ctx, h.pend("write_chunk"), c, false, h.s.write_chunk(b.clone()))
                };
                match out {
                    Some(Ok(())) => h.wrote_all(len as u64),
                    Some(Err(e)) => {
                        // a prefix may have gone out before the error
                        h.poisoned = true;
                        h.write_err(&e, &p);
                    }
                    None => {
                        h.poisoned = true;
                        ctx.label("cancel-write-all");
                    }
                }
            }
        }
        Op::WriteAllChunks { s, lens, c } => {
            if let Some(i) = pick(*s, t.sends.len()) {
                let h = &mut t.sends[i];
                if h.poisoned || h.finished || h.reset || lens.is_empty() {
                    return;
                }
                let len: usize = lens.iter().map(|&l| l.max(1) as usize).sum();
                let all = Bytes::from(content(ctx, h.key, h.written(), len));
                let mut bufs = vec![];
                let mut at = 0;
                for &l in lens {
                    bufs.push(all.slice(at..at + l.max(1) as usize));
                    at += l.max(1) as usize;
                }
                ctx.m.borrow_mut().stream(h.key).extra += len as u64;
                let (out, p) = op_mut!(ctx, h.pend("write_all_chunks"), c, false, h.s.write_all_chunks(&mut bufs));
                match out {
                    Some(Ok(())) => {
                        if bufs.iter().any(|b| !b.is_empty()) {
                            ctx.fail("c18/integrity/write-count", "write_all_chunks succeeded but left data in the buffers");
                        }
                        h.wrote_all(len as u64);
                    }
                    Some(Err(e)) => {
                        h.poisoned = true;
                        h.write_err(&e, &p);
                    }
                    None => {
                        h.poisoned = true;
                        ctx.label("cancel-write-all");
                    }
                }
            }
        }
        Op::Finish { s } => {
            if let Some(i) = pick(*s, t.sends.len()) {
                let h = &mut t.sends[i];
                let now = ctx.now();
                // Z2: `SendStream::finish()` does not consult `check_0rtt()` (unlike write, reset,
                // stopped and drop). After a rejection stream ids are handed out again, so finish()
                // on a rejected 0-RTT handle finishes whatever 1-RTT stream now owns the id. Scripts
                // do not call it on a rejected handle unless QV_C18_STRICT.
                if h.early && ctx.z_rejected() && !strict("Z2") {
                    if let Some(c) = &h.zc {
                        if ctx.z_connected(c, ci, side) {
                            ctx.label("finish-on-rejected-0rtt-skipped");
                            return;
                        }
                    }
                }
                // odd selectors go through the tokio `AsyncWrite` adapter (`poll_shutdown`)
                let res = if *s & 1 == 1 && !h.early {
                    let mut cx = std::task::Context::from_waker(std::task::Waker::noop());
                    match tokio::io::AsyncWrite::poll_shutdown(std::pin::Pin::new(&mut h.s), &mut cx) {
                        std::task::Poll::Ready(r) => r.map_err(|_| ()),
                        std::task::Poll::Pending => {
                            ctx.fail("c18/integrity/shutdown-pending", "AsyncWrite::poll_shutdown returned Pending".to_string());
                            return;
                        }
                    }
                } else {
                    h.s.finish().map_err(|_| ())
                };
                match res {
                    Ok(()) => {
                        h.finished = true;
                        let mut m = ctx.m.borrow_mut();
                        let d = m.stream(h.key);
                        if d.finished.is_none() {
                            d.finished = Some(Fin { lo: d.written, hi: d.written + d.extra, t: now, implicit: false });
                        }
                    }
                    Err(_) => {
                        // (finish() on a rejected 0-RTT stream is undocumented: Ok or ClosedStream)
                        if !h.finished && !h.reset && !(h.early && ctx.z_rejected()) {
                            ctx.fail("c18/error/unexpected-closed-stream", format!("finish on {:?} failed with ClosedStream although the stream was neither finished nor reset", h.key));
                        }
                    }
                }
            }
        }
        Op::Reset { s, code } => {
            if let Some(i) = pick(*s, t.sends.len()) {
                let h = &mut t.sends[i];
                // recorded first: the reset is visible to the peer from now on
                match h.s.reset(VarInt::from_u32(*code as u32)) {
                    Ok(()) => {
                        h.reset = true;
                        ctx.m.borrow_mut().stream(h.key).resets.push(*code as u64);
                    }
                    Err(_) => {
                        if !h.finished && !h.reset {
                            ctx.fail("c18/error/unexpected-closed-stream", format!("reset on {:?} failed with ClosedStream although the stream was neither finished nor reset", h.key));
                        }
                    }
                }
            }
        }
        Op::Stopped { s, c } => {
            if let Some(i) = pick(*s, t.sends.len()) {
                let h = &mut t.sends[i];
                let strict = strict("D4");
                if h.reset && !strict {
                    // stopped() on a stream that was reset locally stays pending until the connection
                    // closes although a fresh stopped() yields None once the reset is acknowledged
                    // (NOTES, suspected defect D4); scripts do not wait for it
                    return;
                }
                let sref = &h.s;
                let (out, p, _) = ctx.run_shared(h.pend(if h.reset { "stopped-after-reset" } else { "stopped" }), c, None, &|| sref.stopped()).await;
                if let Some(r) = &out {
                    ctx.z_judge(h.early, &h.zc, ci, side, "stopped", matches!(r, Err(StoppedError::ZeroRttRejected)));
                }
                match out {
                    Some(Ok(Some(code))) => {
                        let code = code.into_inner();
                        let st = ctx.m.borrow_mut().stream(h.key).stops.clone();
                        match st.iter().find(|s| s.0 == code) {
                            Some(s) => {
                                if s.2 {
                                    ctx.label("implicit-stop-observed");
                                }
                            }
                            None => ctx.fail("c18/integrity/unexplained-stopped", format!("stopped() on {:?} yielded Some({code}) but the peer's stops were {st:?}", h.key)),
                        }
                    }
                    Some(Ok(None)) => {
                        if !h.finished && !h.reset {
                            ctx.fail("c18/integrity/stopped-none-without-finish", format!("stopped() on {:?} yielded None although the stream was neither finished nor reset", h.key));
                        }
                    }
                    Some(Err(StoppedError::ConnectionLost(e))) => ctx.check_conn_err(ci, side, &e, &p),
                    Some(Err(StoppedError::ZeroRttRejected)) => {}
                    None => ctx.label("cancel-stopped"),
                }
            }
        }
        Op::DropSend { s } => {
            if let Some(i) = pick(*s, t.sends.len()) {
                drop(t.sends.remove(i));
            }
        }
        Op::Read { r, len, c } => {
            if let Some(i) = pick(*r, t.recvs.len()) {
                let h = &mut t.recvs[i];
                if h.unordered && !h.terminal {
                    expect_illegal(ctx, h).await;
                } else {
                    do_read(ctx, h, 0, *len as usize, c).await;
                }
            }
        }
        Op::ReadChunks { r, n, c } => {
            if let Some(i) = pick(*r, t.recvs.len()) {
                let h = &mut t.recvs[i];
                if h.unordered && !h.terminal {
                    expect_illegal(ctx, h).await;
                } else {
                    do_read(ctx, h, 2, *n as usize, c).await;
                }
            }
        }
        Op::ReadChunk { r, max, ordered, c } => {
            if let Some(i) = pick(*r, t.recvs.len()) {
                let h = &mut t.recvs[i];
                if h.terminal {
                    return;
                }
                if *ordered && h.unordered {
                    expect_illegal(ctx, h).await;
                } else if *ordered {
                    do_read(ctx, h, 1, *max as usize, c).await;
                } else {
                    let max = (*max).max(1) as usize;
                    // merely attempting an unordered read switches the stream to unordered mode
                    h.go_unordered();
                    let (out, p) = op_mut!(ctx, h.pend("read_chunk_unordered"), c, true, h.r.read_chunk(max, false));
                    match out {
                        Some(Ok(Some(ch))) => {
                            if ch.bytes.len() > max {
                                ctx.fail("c18/integrity/read-count", format!("read_chunk(max {max}) returned {} bytes", ch.bytes.len()));
                            }
                            h.got_data("read_chunk(unordered)", ch.offset, &ch.bytes, false);
                            ctx.label("unordered-read");
                        }
                        Some(Ok(None)) => {
                            h.got_eof("read_chunk(unordered)");
                        }
                        Some(Err(e)) => h.got_err(&e, &p, false),
                        None => ctx.label("cancel-read"),
                    }
                }
            }
        }
        Op::ReadAll { r, style, piece, c } => {
            if let Some(i) = pick(*r, t.recvs.len()) {
                let h = &mut t.recvs[i];
                if h.unordered {
                    return;
                }
                let mut n = 0;
                let nc = no_cancel();
                // a plan that abandons the read ends the loop
                while do_read(ctx, h, *style % 4, (*piece).max(1) as usize, if n < 3 { c } else { &nc }).await {
                    n += 1;
                }
            }
        }
        Op::ReadExact { r, len, c } => {
            if let Some(i) = pick(*r, t.recvs.len()) {
                let h = &mut t.recvs[i];
                if h.terminal {
                    return;
                }
                if h.unordered {
                    expect_illegal(ctx, h).await;
                    return;
                }
                let len = (*len).max(1) as usize;
                let mut buf = vec![0u8; len];
                let (out, p) = op_mut!(ctx, h.pend("read_exact"), c, false, h.r.read_exact(&mut buf));
                match out {
                    Some(Ok(())) => h.got_data("read_exact", h.off, &buf, true),
                    Some(Err(ReadExactError::FinishedEarly(k))) => {
                        if k >= len {
                            ctx.fail("c18/integrity/read-count", format!("read_exact({len}) failed with FinishedEarly({k})"));
                        } else {
                            if k > 0 {
                                h.got_data("read_exact", h.off, &buf[..k], true);
                            }
                            h.got_eof("read_exact");
                        }
                    }
                    Some(Err(ReadExactError::ReadError(e))) => {
                        // bytes consumed before the error are gone: the position is unknown now
                        h.got_err(&e, &p, true);
                        h.terminal = true;
                    }
                    None => {
                        h.terminal = true;
                        ctx.label("cancel-read-exact");
                    }
                }
            }
        }
        Op::ReadToEnd { r, limit, c } => {
            if let Some(i) = pick(*r, t.recvs.len()) {
                let h = &mut t.recvs[i];
                if h.terminal || h.unordered {
                    return;
                }
                let limit = *limit as usize;
                let (out, p) = op_mut!(ctx, h.pend("read_to_end"), c, false, h.r.read_to_end(limit));
                match out {
                    Some(Ok(v)) => {
                        if v.len() > limit {
                            // ReadToEnd compares each chunk's own end (not the largest end seen) with
                            // the lowest offset seen, so chunks delivered out of order slip past the
                            // limit (NOTES, suspected defect D5)
                            if strict("D5") {
                                ctx.fail("c18/strict/read-to-end-exceeds-limit", format!("read_to_end({limit}) returned {} bytes", v.len()));
                            }
                            ctx.label("read-to-end-exceeds-limit");
                        }
                        if !v.is_empty() {
                            h.got_data("read_to_end", h.off, &v, true);
                        }
                        h.got_eof("read_to_end");
                    }
                    Some(Err(ReadToEndError::TooLong)) => {
                        h.z_other("read_to_end");
                        h.terminal = true;
                        if h.bound().saturating_sub(h.off) <= limit as u64 {
                            ctx.fail("c18/integrity/too-long", format!("read_to_end({limit}) on {:?} failed with TooLong but at most {} bytes were written after offset {}", h.key, h.bound(), h.off));
                        }
                    }
                    Some(Err(ReadToEndError::Read(e))) => {
                        h.got_err(&e, &p, false);
                        h.terminal = true;
                    }
                    None => {
                        h.terminal = true;
                        ctx.label("cancel-read-to-end");
                    }
                }
            }
        }
        Op::ReceivedReset { r, c } => {
            if let Some(i) = pick(*r, t.recvs.len()) {
                let h = &mut t.recvs[i];
                if let (true, Some(code)) = (h.terminal, h.reset_reported) {
                    // a read on this handle has already reported the peer's reset: received_reset() is
                    // ready at once and names the same code
                    let mut fut = std::pin::pin!(h.r.received_reset());
                    let w = noop_waker();
                    let mut cx = Context::from_waker(&w);
                    match fut.as_mut().poll(&mut cx) {
                        Poll::Ready(Ok(Some(c2))) if c2.into_inner() == code => ctx.label("received-reset-after-read-reset"),
                        Poll::Ready(Err(quinn::ResetError::ConnectionLost(_))) | Poll::Ready(Err(quinn::ResetError::ZeroRttRejected)) => {}
                        other => ctx.fail("c18/integrity/received-reset-disagrees-with-read", format!("a read on {:?} failed with Reset({code}); received_reset() on the same handle then gave {other:?}", h.key)),
                    }
                    return;
                }
                if h.terminal {
                    return;
                }
                // The rustdoc says received_reset() yields None once "the stream was finish()ed by the
                // peer and all data has been received"; in fact it stays pending until the application
                // has also read the end of the stream (NOTES, observation D2). Only QV_C18_STRICT
                // holds it to the documented behaviour (as a reader waiting for the FIN).
                let mut pend = h.pend("received_reset");
                if !strict("D2") {
                    pend.stream = None;
                }
                let (out, p) = op_mut!(ctx, pend, c, true, h.r.received_reset());
                match &out {
                    Some(Err(quinn::ResetError::ZeroRttRejected)) => ctx.z_judge(h.early, &h.zc, ci, side, "received_reset", true),
                    Some(Ok(None)) | Some(Err(quinn::ResetError::ConnectionLost(_))) => h.z_other("received_reset"),
                    _ => {}
                }
                match out {
                    Some(Ok(Some(code))) => h.got_reset("received_reset", code),
                    Some(Ok(None)) => {
                        let fin = ctx.m.borrow_mut().stream(h.key).finished.is_some();
                        if !fin {
                            ctx.fail("c18/integrity/received-reset-none", format!("received_reset() on {:?} yielded None although the stream was neither stopped nor finished by the peer", h.key));
                        }
                    }
                    Some(Err(quinn::ResetError::ConnectionLost(e))) => {
                        h.terminal = true;
                        h.no_implicit_stop = true;
                        ctx.check_conn_err(ci, side, &e, &p);
                    }
                    Some(Err(quinn::ResetError::ZeroRttRejected)) => {
                        h.terminal = true;
                        h.no_implicit_stop = true;
                    }
                    None => {
                        ctx.label("cancel-received-reset");
                        // The cancelled future leaves its waker in `blocked_readers` even when the
                        // FIN is already there; if a later read reaches the end of the stream,
                        // `RecvStream::drop` skips its clean-up (and trips a debug_assert in debug
                        // builds): a stale registration (NOTES, suspected defect D6). Scripts stop
                        // reading here unless QV_C18_STRICT is set.
                        if !strict("D6") {
                            h.terminal = true;
                        }
                    }
                }
            }
        }
        Op::Stop { r, code } => {
            if let Some(i) = pick(*r, t.recvs.len()) {
                let h = &mut t.recvs[i];
                let now = ctx.now();
                // (nothing is announced on a connection this side has already seen lost, e.g. by idle timeout:
                // quinn accepts the call, but no STOP_SENDING can leave any more)
                let lost = ctx.m.borrow().conns[ci].sides[side].first_err.is_some();
                if h.r.stop(VarInt::from_u32(*code as u32)).is_ok() {
                    if !lost {
                        ctx.m.borrow_mut().stream(h.key).stops.push((*code as u64, now, false));
                    } else {
                        ctx.label("stop-on-lost-connection");
                    }
                    h.terminal = true;
                    h.no_implicit_stop = true;
                    ctx.label("stop");
                } else if !h.terminal {
                    ctx.label("stop-closed-stream");
                }
            }
        }
        Op::DropRecv { r } => {
            if let Some(i) = pick(*r, t.recvs.len()) {
                drop(t.recvs.remove(i));
            }
        }
        Op::SendDgram { len } | Op::SendDgramWait { len, .. } => {
            let Some(conn) = &t.conn else { return };
            let max = conn.c.max_datagram_size();
            let len = (*len as usize).max(8);
            let id = {
                let mut m = ctx.m.borrow_mut();
                m.conns[ci].next_dgram += 1;
                m.conns[ci].next_dgram
            };
            let data = Bytes::from(crate::app::dgram_payload(ctx.ckey(ci), id, len));
            let res = if let Op::SendDgramWait { c, lazy, .. } = op {
                // not documented as cancel-safe: a cancelled attempt is never re-issued
                let c1 = Cancel { at: c.at.iter().take(1).copied().collect(), on_wake: c.on_wake, retry: false };
                ctx.m.borrow_mut().conns[ci].sides[side].dgram_maybe.insert(id, len);
                let cq = &conn.c;
                // Space freed by another task's send_datagram() (which discards queued datagrams)
                // does not emit DatagramsUnblocked; the waiter is only woken once the driver has
                // transmitted a datagram (NOTES, D8). By default the probe therefore waits until
                // DATAGRAM frames were actually sent since the last probe.
                let strict = strict("D8");
                let gate = || cq.stats().frame_tx.datagram;
                let (out, p, _) = ctx
                    .run_shared_gated(t.cpend("send_datagram_wait"), &c1, None, &|| LazyStart { inner: cq.send_datagram_wait(data.clone()), yields: *lazy }, if strict { None } else { Some(&gate) })
                    .await;
                match out {
                    Some(r) => r.map_err(|e| (e, p)),
                    None => {
                        ctx.label("cancel-datagram-send");
                        return;
                    }
                }
            } else {
                // a datagram accepted before the handshake completed is early data: if the server
                // rejects 0-RTT it must never reach the peer's application
                let early = ctx.z_early(&conn.c, ci, side);
                let r = conn.c.send_datagram(data).map_err(|e| (e, t.cpend("send_datagram")));
                if early && r.is_ok() {
                    if let Some(z) = ctx.m.borrow_mut().z.as_mut() {
                        z.early_dgrams.insert(id);
                        z.early_ops += 1;
                    }
                    ctx.label("early-datagram");
                }
                r
            };
            match res {
                Ok(()) => {
                    ctx.m.borrow_mut().conns[ci].sides[side].dgram_sent.insert(id, len);
                    ctx.label("datagram-sent");
                }
                Err((SendDatagramError::ConnectionLost(e), mut p)) => {
                    p.since = ctx.now();
                    ctx.check_conn_err(ci, side, &e, &p)
                }
                Err((SendDatagramError::TooLarge, _)) => {
                    if max.map_or(false, |m| len <= m) {
                        ctx.fail("c18/error/datagram-too-large", format!("datagram of {len} bytes rejected as TooLarge although max_datagram_size() was {max:?}"));
                    }
                }
                Err((SendDatagramError::UnsupportedByPeer, _)) if ctx.m.borrow().z.is_some() && ci == 1 && !ctx.z_connected(&conn.c, ci, side) => {
                    // before the handshake completed (0-RTT / 0.5-RTT) the peer's limits may be unknown
                    ctx.label("datagram-unsupported-before-handshake");
                }
                Err((e, _)) => ctx.fail("c18/error/datagram", format!("send_datagram failed with {e:?} although both peers enable datagrams")),
            }
        }
        Op::ReadDgram(c) => {
            let Some(conn) = &t.conn else { return };
            let cq = &conn.c;
            let (out, p, _) = ctx.run_shared(t.cpend("read_datagram"), c, None, &|| cq.read_datagram()).await;
            match out {
                Some(Ok(b)) => verify_dgram(ctx, ci, side, &b),
                Some(Err(e)) => ctx.check_conn_err(ci, side, &e, &p),
                None => ctx.label("cancel-datagram-read"),
            }
        }
        Op::Closed(c) => {
            let Some(conn) = &t.conn else { return };
            let cq = &conn.c;
            ctx.log(|| format!("close_reason before closed(): {:?}", cq.close_reason().map(|e| err_name(&e))));
            let (out, p, _) = ctx.run_shared(t.cpend("closed"), c, None, &|| cq.closed()).await;
            match out {
                Some(e) => {
                    if cq.close_reason().is_none() {
                        ctx.fail("c18/error/closed-without-reason", "closed() resolved but close_reason() is None");
                    }
                    ctx.check_conn_err(ci, side, &e, &p)
                }
                None => ctx.label("cancel-closed"),
            }
        }
        Op::Close { code } => {
            let Some(conn) = &t.conn else { return };
            let now = ctx.now();
            let code = *code as u64;
            // (close() on a connection that is already lost, e.g. by idle timeout, announces nothing)
            let already_lost = matches!(conn.c.close_reason(), Some(quinn::ConnectionError::TimedOut) | Some(quinn::ConnectionError::Reset));
            ctx.m.borrow_mut().conns[ci].sides[side].closes.push(CloseRec { code, reason: code_reason(code), t: now, implicit: false, silent: already_lost });
            ctx.note_drop(ci, "close-while-pending");
            conn.c.close(VarInt::from_u32(code as u32), &code_reason(code));
            ctx.label("close");
        }
        Op::DropConn => {
            t.finish_datagrams(ctx);
            t.conn = None;
        }
        Op::EpClose { code } => {
            let Some(ep) = &t.ep else { return };
            let now = ctx.now();
            let code = *code as u64;
            ctx.m.borrow_mut().eps[ep.idx].closes.push(CloseRec { code, reason: code_reason(code), t: now, implicit: false, silent: false });
            ep.e.close(VarInt::from_u32(code as u32), &code_reason(code));
            ctx.label("endpoint-close");
        }
        Op::WaitIdle(c) => {
            let Some(ep) = &t.ep else { return };
            let eq = &ep.e;
            let pend = PendOp { kind: "wait_idle", conn: None, stream: None, off: 0, since: 0, wkey: None };
            let (out, _, _) = ctx.run_shared(pend, c, None, &|| eq.wait_idle()).await;
            match out {
                Some(()) => {
                    ctx.label("wait-idle");
                    let creators = ctx.m.borrow().eps[ep.idx].creators;
                    let open = eq.open_connections();
                    if creators == 0 && open != 0 {
                        ctx.fail("c18/teardown/open-connections-after-wait-idle", format!("wait_idle() returned but open_connections() is {open} and nothing can create connections on this endpoint any more"));
                    }
                }
                None => ctx.label("cancel-wait-idle"),
            }
        }
        Op::DropEp => t.ep = None,
        Op::Sleep { us } => sleep(&ctx.sim, *us as u64 * 1000).await,
        Op::Yield => Yield::default().await,
        Op::RaiseStreamLimit { uni, count } => {
            let Some(conn) = &t.conn else { return };
            if *uni {
                conn.c.set_max_concurrent_uni_streams(VarInt::from_u32(*count as u32));
            } else {
                conn.c.set_max_concurrent_bi_streams(VarInt::from_u32(*count as u32));
            }
            let now = ctx.now();
            ctx.m.borrow_mut().conns[ci].limit_raised_at.get_or_insert((*uni, now));
            ctx.label("stream-limit-raised");
        }
        Op::SlotReleased => {
            let now = ctx.now();
            ctx.m.borrow_mut().conns[ci].slot_released_at.get_or_insert(now);
            ctx.label("stream-slot-released");
        }
        Op::Authenticated(c) => {
            let Some(conn) = &t.conn else { return };
            let cq = &conn.c;
            let (out, p, _) = ctx.run_shared(t.cpend("authenticated"), c, None, &|| cq.authenticated()).await;
            match out {
                Some(Ok(())) => {
                    ctx.m.borrow_mut().conns[ci].sides[side].connected_seen = true;
                    ctx.label("authenticated");
                }
                Some(Err(e)) => ctx.check_conn_err(ci, side, &e, &p),
                None => ctx.label("cancel-authenticated"),
            }
        }
    }
}

/// An ordered read after an unordered one must fail immediately with IllegalOrderedRead
async fn expect_illegal(ctx: &Ctx, h: &mut RecvH) {
    if h.terminal {
        return;
    }
    let mut buf = [0u8; 8];
    let nc = no_cancel();
    let (out, p) = op_mut!(ctx, h.pend("read"), &nc, true, h.r.read(&mut buf));
    match out {
        Some(Err(e)) => h.got_err(&e, &p, true),
        Some(Ok(_)) => {
            h.terminal = true;
            ctx.fail("c18/error/illegal-ordered-read", format!("an ordered read after an unordered read on {:?} succeeded", h.key));
        }
        None => {}
    }
    if h.lost_by_illegal_read && strict("D1") {
        // D1: the rejected ordered read must leave the stream usable for unordered reads
        let w = noop_waker();
        let mut cx = Context::from_waker(&w);
        let polled = {
            let f = h.r.read_chunk(usize::MAX, false);
            let mut f = std::pin::pin!(f);
            f.as_mut().poll(&mut cx)
        };
        // whatever this extra unordered read returns is accounted like any other read
        match polled {
            Poll::Ready(Err(ReadError::ClosedStream)) => {
                h.terminal = true;
                ctx.fail("c18/strict/stream-lost-after-illegal-ordered-read", format!("after read() on {:?} was rejected with IllegalOrderedRead, an unordered read_chunk fails with ClosedStream: the rejected call destroyed the stream's receive state", h.key));
            }
            Poll::Ready(Ok(Some(ch))) => h.got_data("read_chunk(unordered)", ch.offset, &ch.bytes, false),
            Poll::Ready(Ok(None)) => h.got_eof("read_chunk(unordered)"),
            Poll::Ready(Err(e)) => {
                let p = h.pend("read_chunk_unordered");
                h.got_err(&e, &p, false)
            }
            Poll::Pending => {}
        }
    }
}

impl Task {
    /// When the last `Connection` handle of this side goes away: drain buffered datagrams and
    /// check that every DATAGRAM frame the connection received reached the application exactly
    /// once (the receive buffer is configured larger than everything a scenario sends).
    fn finish_datagrams(&mut self, ctx: &Ctx) {
        let Some(conn) = &self.conn else { return };
        if ctx.m.borrow().conns[self.ci].sides[self.side].conn_handles != 1 {
            return;
        }
        let w = noop_waker();
        let mut cx = Context::from_waker(&w);
        loop {
            let f = conn.c.read_datagram();
            let mut f = std::pin::pin!(f);
            match f.as_mut().poll(&mut cx) {
                Poll::Ready(Ok(b)) => verify_dgram(ctx, self.ci, self.side, &b),
                _ => break,
            }
        }
        if conn.c.close_reason().is_some() {
            // frames that arrive on a closed connection are counted but (rightly) not delivered
            return;
        }
        let rx = conn.c.stats().frame_rx.datagram;
        let got = ctx.m.borrow().conns[self.ci].sides[self.side].dgram_read;
        if rx != got {
            ctx.fail("c18/cancel/datagram-conservation", format!("conn {} side {}: {rx} DATAGRAM frames were received but the application obtained {got} datagrams (lost or duplicated across read_datagram futures)", self.ci, self.side));
        }
    }
}

struct Noop;
impl std::task::Wake for Noop {
    fn wake(self: Arc<Self>) {}
}
fn noop_waker() -> std::task::Waker {
    std::task::Waker::from(Arc::new(Noop))
}

async fn conn_task(ctx: Ctx, conn: ConnH, ep: Option<EpH>, ops: Vec<Op>) {
    let mut t = Task { ci: conn.ci, side: conn.side, conn: Some(conn), ep, sends: vec![], recvs: vec![] };
    for op in &ops {
        exec_op(&ctx, &mut t, op).await;
        if !ctx.m.borrow().viol.is_empty() {
            break;
        }
    }
    t.finish_datagrams(&ctx);
    ctx.log(|| format!("c{}s{} task ends", t.ci, t.side));
}

// ---------------------------------------------------------------------------------------------
// World construction and root tasks
// ---------------------------------------------------------------------------------------------

fn client_addr() -> SocketAddr {
    "[fd00::1]:5000".parse().unwrap()
}
fn server_addr() -> SocketAddr {
    "[fd00::2]:4433".parse().unwrap()
}

fn transport(c: &CfgSpec) -> Arc<quinn::TransportConfig> {
    let mut t = quinn::TransportConfig::default();
    t.max_idle_timeout(Some(quinn::IdleTimeout::from(VarInt::from_u32(c.idle_ms))));
    t.keep_alive_interval(None);
    t.stream_receive_window(VarInt::from_u32(c.stream_window));
    t.receive_window(VarInt::from_u32(c.conn_window));
    t.send_window(c.send_window as u64);
    t.max_concurrent_bidi_streams(VarInt::from_u32(c.max_bi as u32));
    t.max_concurrent_uni_streams(VarInt::from_u32(c.max_uni as u32));
    t.datagram_send_buffer_size(c.dgram_send_buf as usize);
    t.datagram_receive_buffer_size(Some(4 << 20));
    t.initial_rtt(Duration::from_millis(c.initial_rtt_ms.max(1) as u64));
    Arc::new(t)
}

fn ep_config(seed: u64, idx: u64) -> quinn::EndpointConfig {
    let seed = mix(seed, 0xe0 + idx);
    let mut c = quinn::EndpointConfig::new(Arc::new(SimHmac(mix(seed, 0xe9))));
    let mut rs = [0u8; 32];
    for i in 0..4 {
        rs[i * 8..i * 8 + 8].copy_from_slice(&mix(seed, 100 + i as u64).to_le_bytes());
    }
    c.rng_seed(Some(rs));
    let st = mix(seed, 0xc1d0);
    c.cid_generator(Arc::new(move || Box::new(SeededCid { len: 8, lifetime: None, state: st })));
    c
}

fn dcid(seed: u64, ci: usize) -> Vec<u8> {
    mix(seed ^ 0xdc1d, ci as u64).to_le_bytes().to_vec()
}

fn server_config(sc: &Scenario) -> quinn::ServerConfig {
    let mut s = quinn::ServerConfig::new(Arc::new(SimServerConfig::new()), Arc::new(SimTokenKey(mix(sc.seed, 0x70))));
    s.transport_config(transport(&sc.cfg));
    s.time_source(Arc::new(SimClock(Arc::new(AtomicU64::new(0)))));
    s
}

fn client_config(sc: &Scenario, ci: usize) -> quinn::ClientConfig {
    let mut c = quinn::ClientConfig::new(Arc::new(SimClientConfig::new()));
    c.transport_config(transport(&sc.cfg));
    let id = dcid(sc.seed, ci);
    c.initial_dst_cid_provider(Arc::new(move || quinn::ConnectionId::new(&id)));
    c
}

/// After the handshake: become task 0 of this side and start the sibling tasks
async fn start_side(ctx: Ctx, conn: quinn::Connection, ep: EpH, ci: usize, side: usize) {
    let now = ctx.now();
    ctx.m.borrow_mut().conns[ci].sides[side].established = Some(now);
    let h = ConnH::new(&ctx, conn, ci, side);
    let progs = if side == 0 { ctx.sc.conns[ci].client.clone() } else { ctx.sc.conns[ci].server.clone() };
    for ops in progs.iter().skip(1) {
        ctx.m.borrow_mut().app_tasks += 1;
        ctx.sp.spawn(if side == 0 { "client-task" } else { "server-task" }, conn_task(ctx.clone(), h.dup(), None, ops.clone()));
    }
    let ops = progs.first().cloned().unwrap_or_default();
    conn_task(ctx, h, Some(ep), ops).await
}

async fn client_root(ctx: Ctx, ep: EpH, ci: usize) {
    let prog = ctx.sc.conns[ci].clone();
    if prog.start_delay_us > 0 {
        sleep(&ctx.sim, prog.start_delay_us as u64 * 1000).await;
    }
    let connecting = ep.e.connect_with(client_config(&ctx.sc, ci), server_addr(), "localhost");
    let connecting = match connecting {
        Ok(c) => c,
        Err(e) => {
            let closed = !ctx.m.borrow().eps[ep.idx].closes.is_empty();
            if !(closed && matches!(e, quinn::ConnectError::EndpointStopping)) {
                ctx.fail("c18/error/connect", format!("connect_with failed with {e:?}"));
            }
            ctx.m.borrow_mut().eps[ep.idx].creators -= 1;
            return;
        }
    };
    let pend = PendOp { kind: "connect", conn: Some((ci, 0)), stream: None, off: 0, since: 0, wkey: None };
    let (out, p) = ctx.run_owned(pend, &prog.connect_cancel, connecting).await;
    ctx.m.borrow_mut().eps[ep.idx].creators -= 1;
    match out {
        Some(Ok(conn)) => start_side(ctx, conn, ep, ci, 0).await,
        Some(Err(e)) => ctx.check_conn_err(ci, 0, &e, &p),
        None => {
            // dropping `Connecting` drops the only handle: implicit close
            let now = ctx.now();
            ctx.m.borrow_mut().conns[ci].sides[0].closes.push(CloseRec { code: 0, reason: vec![], t: now, implicit: true, silent: false });
            ctx.label("cancel-connect");
        }
    }
}

async fn server_root(ctx: Ctx, ep: EpH, ci: usize, connecting: quinn::Connecting) {
    let half = ci == 1 && ctx.m.borrow().z.as_ref().map_or(false, |z| z.half_rtt);
    if half {
        // 0.5-RTT: the server application starts before the client's Finished arrived
        match connecting.into_0rtt() {
            Ok(conn) => {
                ctx.label("half-rtt");
                return start_side(ctx, conn, ep, ci, 1).await;
            }
            Err(_) => {
                ctx.fail("c18/0rtt/server-into-0rtt", "into_0rtt() failed on an incoming connection (documented to always succeed)");
                return;
            }
        }
    }
    let pend = PendOp { kind: "handshake", conn: Some((ci, 1)), stream: None, off: 0, since: 0, wkey: None };
    let (out, p) = ctx.run_owned(pend, &no_cancel(), connecting).await;
    match out {
        Some(Ok(conn)) => start_side(ctx, conn, ep, ci, 1).await,
        Some(Err(e)) => ctx.check_conn_err(ci, 1, &e, &p),
        None => {}
    }
}

fn z_client_config(ctx: &Ctx, ci: usize) -> quinn::ClientConfig {
    let crypto = ctx.m.borrow().z.as_ref().expect("0-RTT world").client_crypto.clone();
    let mut c = quinn::ClientConfig::new(crypto);
    c.transport_config(transport(&ctx.sc.cfg));
    let id = dcid(ctx.sc.seed, ci);
    c.initial_dst_cid_provider(Arc::new(move || quinn::ConnectionId::new(&id)));
    c
}

/// 0-RTT sub-check: connection 0 obtains the session ticket and is closed, connection 1 is converted
/// with `into_0rtt()` and its application tasks start before the handshake has made any progress.
async fn z_client_root(ctx: Ctx, ep: EpH) {
    // --- connection 0
    match ep.e.connect_with(z_client_config(&ctx, 0), server_addr(), "localhost") {
        Ok(connecting) => {
            let pend = PendOp { kind: "connect", conn: Some((0, 0)), stream: None, off: 0, since: 0, wkey: None };
            let (out, p) = ctx.run_owned(pend, &no_cancel(), connecting).await;
            match out {
                Some(Ok(conn)) => start_side(ctx.clone(), conn, ep.dup(), 0, 0).await,
                Some(Err(e)) => ctx.check_conn_err(0, 0, &e, &p),
                None => {}
            }
        }
        Err(e) => ctx.fail("c18/error/connect", format!("connect_with failed with {e:?}")),
    }
    sleep(&ctx.sim, 1_000_000).await;
    // --- connection 1
    let connecting = match ep.e.connect_with(z_client_config(&ctx, 1), server_addr(), "localhost") {
        Ok(c) => c,
        Err(e) => {
            ctx.fail("c18/error/connect", format!("connect_with failed with {e:?}"));
            ctx.m.borrow_mut().eps[ep.idx].creators -= 1;
            return;
        }
    };
    match connecting.into_0rtt() {
        Ok(conn) => {
            {
                let mut m = ctx.m.borrow_mut();
                m.eps[ep.idx].creators -= 1;
                let z = m.z.as_mut().unwrap();
                z.used = true;
                let l = if z.rejected { "0rtt-rejecting-server" } else { "0rtt-accepting-server" };
                m.labels.insert(l);
            }
            start_side(ctx, conn, ep, 1, 0).await
        }
        Err(connecting) => {
            // no ticket (connection 0 failed): an ordinary connection
            ctx.label("no-0rtt-keys");
            let pend = PendOp { kind: "connect", conn: Some((1, 0)), stream: None, off: 0, since: 0, wkey: None };
            let (out, p) = ctx.run_owned(pend, &no_cancel(), connecting).await;
            ctx.m.borrow_mut().eps[ep.idx].creators -= 1;
            match out {
                Some(Ok(conn)) => start_side(ctx, conn, ep, 1, 0).await,
                Some(Err(e)) => ctx.check_conn_err(1, 0, &e, &p),
                None => {}
            }
        }
    }
}

async fn acceptor(ctx: Ctx, ep: EpH) {
    let actions = ctx.sc.acceptor.clone();
    let mut started: BTreeSet<usize> = BTreeSet::new();
    let mut n = 0;
    let mut strays = 0;
    while n < actions.len() && strays < 8 {
        let act = &actions[n];
        let cancel = ctx.sc.accept_cancel.get(n).cloned().unwrap_or_default();
        let pend = PendOp { kind: "accept", conn: None, stream: None, off: 0, since: 0, wkey: None };
        let deadline = ctx.now() + ACCEPT_DEADLINE_NS;
        let eq = &ep.e;
        let (out, _, _) = ctx.run_shared(pend, &cancel, Some(deadline), &|| eq.accept()).await;
        let inc = match out {
            None => {
                break;
            }
            Some(None) => {
                if ctx.m.borrow().eps[ep.idx].closes.is_empty() {
                    ctx.fail("c18/error/accept-none", "Endpoint::accept() yielded None although the endpoint was not closed");
                }
                break;
            }
            Some(Some(inc)) => inc,
        };
        let cid = inc.orig_dst_cid();
        let ci = ctx.m.borrow().conns.iter().position(|c| c.dcid[..] == cid[..]);
        let Some(ci) = ci else {
            // a delayed or duplicated Initial that addresses a connection the server has already
            // forgotten looks like a new attempt; not part of any program
            strays += 1;
            inc.ignore();
            ctx.label("stray-incoming");
            continue;
        };
        n += 1;
        ctx.log(|| format!("incoming #{} for conn {ci}: {act:?} (validated={})", n - 1, inc.remote_address_validated()));
        let now = ctx.now();
        let refuse_rec = |ctx: &Ctx| ctx.m.borrow_mut().conns[ci].refused = true;
        let mut act = act.clone();
        if let Some(retry) = ctx.m.borrow().z.as_ref().map(|z| z.retry) {
            // 0-RTT sub-check: a consistent address-validation policy (a positional script would
            // accept the retransmission of an Initial it has just answered with Retry, which leaves
            // the client with keys the server's connection does not use)
            act = if ci == 1 && retry && !inc.remote_address_validated() { IncAct::Retry } else { IncAct::Accept };
        }
        if matches!(act, IncAct::Retry) && !inc.may_retry() {
            act = IncAct::Accept;
        }
        if matches!(act, IncAct::Accept | IncAct::AcceptLate { .. } | IncAct::CloseThenAccept { .. }) && started.contains(&ci) {
            // a second connection for the same client attempt would need a second server program
            act = IncAct::Ignore;
        }
        if let IncAct::AcceptLate { us } = act {
            sleep(&ctx.sim, us as u64 * 1000).await;
            ctx.label("accept-late");
            act = IncAct::Accept;
        }
        let mut after_close = false;
        if let IncAct::CloseThenAccept { code } = act {
            let code = code as u64;
            ctx.m.borrow_mut().eps[ep.idx].closes.push(CloseRec { code, reason: code_reason(code), t: now, implicit: false, silent: false });
            ep.e.close(VarInt::from_u32(code as u32), &code_reason(code));
            ctx.label("endpoint-close-then-accept");
            after_close = true;
            act = IncAct::Accept;
        }
        match act {
            IncAct::AcceptLate { .. } | IncAct::CloseThenAccept { .. } => unreachable!(),
            IncAct::Accept => match inc.accept() {
                Ok(connecting) if after_close => {
                    // accepted on a closed endpoint: the handshake must not complete
                    started.insert(ci);
                    let pend = PendOp { kind: "handshake", conn: Some((ci, 1)), stream: None, off: 0, since: now, wkey: None };
                    let (out, p) = ctx.run_owned(pend, &no_cancel(), connecting).await;
                    match out {
                        Some(Ok(conn)) => {
                            ctx.fail("c18/teardown/connection-established-after-endpoint-close", format!("Endpoint::close() was called while the application held an Incoming; accepting it afterwards produced a live connection (close_reason {:?}, open_connections {})", conn.close_reason(), ep.e.open_connections()));
                        }
                        Some(Err(e)) => ctx.check_conn_err(ci, 1, &e, &p),
                        None => {}
                    }
                }
                Ok(connecting) => {
                    started.insert(ci);
                    ctx.m.borrow_mut().app_tasks += 1;
                    ctx.sp.spawn("server-root", server_root(ctx.clone(), ep.dup(), ci, connecting));
                }
                Err(e) => {
                    let pend = PendOp { kind: "incoming-accept", conn: Some((ci, 1)), stream: None, off: 0, since: now, wkey: None };
                    ctx.check_conn_err(ci, 1, &e, &pend);
                }
            },
            IncAct::Refuse => {
                refuse_rec(&ctx);
                inc.refuse();
                ctx.label("refuse");
            }
            IncAct::Retry => {
                if inc.retry().is_err() {
                    ctx.fail("c18/error/retry", "retry() failed although may_retry() was true");
                }
                ctx.label("retry");
            }
            IncAct::Ignore => {
                inc.ignore();
                ctx.label("ignore");
            }
            IncAct::Drop => {
                refuse_rec(&ctx);
                drop(inc);
                ctx.label("drop-incoming");
            }
        }
    }
    ctx.m.borrow_mut().eps[ep.idx].creators -= 1;
}

// ---------------------------------------------------------------------------------------------
// One world
// ---------------------------------------------------------------------------------------------

pub fn case(sc: &Scenario) -> CaseOut {
    run_world(sc, None)
}

/// What distinguishes a world of the 0-RTT sub-check
#[derive(Clone, Copy, Debug)]
pub struct ZSpec {
    pub accept_0rtt: bool,
    pub half_rtt: bool,
    pub retry: bool,
}

fn run_world(sc: &Scenario, zspec: Option<ZSpec>) -> CaseOut {
    let _log = debug_log();
    let trace = std::env::var("QV_TRACE").is_ok();
    let t0 = std::time::Instant::now();
    let mut exec = Exec::new(sc.net.clone(), sc.sched.clone());
    let rt = exec.runtime();
    if std::env::var("QV_WIRE").is_ok() {
        exec.sim.lock().wire_log = Some(vec![]);
    }
    let n_eps = if sc.one_endpoint { 1 } else { 2 };
    let mut model = Model { trace, ..Model::default() };
    if let Some(z) = zspec {
        let mut cc = SimClientConfig::new();
        cc.use_tickets = true;
        model.z = Some(ZWorld { rejected: !z.accept_0rtt, half_rtt: z.half_rtt, retry: z.retry, client_crypto: Arc::new(cc), used: false, early_dgrams: BTreeSet::new(), early_handles: 0, early_ops: 0, clobbered: BTreeSet::new() });
    }
    for ci in 0..sc.conns.len() {
        let mut c = ConnM { dcid: dcid(sc.seed, ci), ..ConnM::default() };
        c.sides[0].ep = n_eps - 1;
        c.sides[1].ep = 0;
        model.conns.push(c);
    }
    for _ in 0..n_eps {
        model.eps.push(EpM::default());
    }
    let ctx = Ctx { m: Rc::new(RefCell::new(model)), sim: exec.sim.clone(), sp: exec.spawner(), cur: exec.current.clone(), sc: Rc::new(sc.clone()) };

    // endpoints; the harness keeps no handle of its own
    {
        let mut server_cfg = server_config(sc);
        if let Some(z) = zspec {
            let mut sc0 = SimServerConfig::new();
            sc0.accept_0rtt = z.accept_0rtt;
            server_cfg = quinn::ServerConfig::new(Arc::new(sc0), Arc::new(SimTokenKey(mix(sc.seed, 0x70))));
            server_cfg.transport_config(transport(&sc.cfg));
            server_cfg.time_source(Arc::new(SimClock(Arc::new(AtomicU64::new(0)))));
        }
        let server = quinn::Endpoint::new_with_abstract_socket(ep_config(sc.seed, 0), Some(server_cfg), SimSocket::bind(&exec.sim, server_addr()), rt.clone()).expect("server endpoint");
        let client = if sc.one_endpoint {
            server.clone()
        } else {
            quinn::Endpoint::new_with_abstract_socket(ep_config(sc.seed, 1), None, SimSocket::bind(&exec.sim, client_addr()), rt.clone()).expect("client endpoint")
        };
        {
            let mut m = ctx.m.borrow_mut();
            m.eps[0].creators += 1;
            m.eps[n_eps - 1].creators += if zspec.is_some() { 1 } else { sc.conns.len() as u32 };
            m.app_tasks += 1 + if zspec.is_some() { 1 } else { sc.conns.len() as u64 };
        }
        ctx.sp.spawn("acceptor", acceptor(ctx.clone(), EpH::new(&ctx, server, 0)));
        if zspec.is_some() {
            ctx.sp.spawn("client-root", z_client_root(ctx.clone(), EpH::new(&ctx, client.clone(), n_eps - 1)));
        } else {
            for ci in 0..sc.conns.len() {
                ctx.sp.spawn("client-root", client_root(ctx.clone(), EpH::new(&ctx, client.clone(), n_eps - 1), ci));
            }
        }
    }
    drop(rt);

    const HORIZON_NS: u64 = 900_000_000_000;
    let mut outcome: Option<CaseOut> = None;
    let mut last_app_end = 0u64;
    let mut idle_points = 0u64;
    let mut last_probe = (u64::MAX, u64::MAX);
    let mut steps_at_advance = 0u64;
    loop {
        if exec.panicked.is_some() || !ctx.m.borrow().viol.is_empty() {
            break;
        }
        if exec.steps > STEP_LIMIT || exec.steps - steps_at_advance > STALL_LIMIT {
            // worlds on the unchanged tree need a few thousand polls at most (maximum observed
            // over 1.5 M worlds: see NOTES); a driver that keeps re-waking itself gets here
            let now = exec.sim.now_ns();
            ctx.fail("c18/livelock", format!("{} task polls ({} since virtual time last advanced) without the world becoming quiescent (virtual time {now} ns, {} time advances): tasks keep waking themselves or each other without making progress", exec.steps, exec.steps - steps_at_advance, exec.advances));
            break;
        }
        if let Some(id) = exec.poll_one() {
            if exec.kind(id) == TaskKind::App && !exec.is_alive(id) {
                last_app_end = exec.sim.now_ns();
            }
            continue;
        }
        // idle point: no task is ready
        idle_points += 1;
        let stranded = exec.sim.lock().stranded_sockets();
        if !stranded.is_empty() {
            ctx.fail(
                "c18/lost-wakeup/endpoint-driver",
                format!("no task is ready but datagrams are queued on sockets {stranded:?} whose last poll_recv did not return Pending: the endpoint driver stopped receiving without arranging to be polled again"),
            );
            break;
        }
        // one probe round per time advance / application progress: a probe poll may itself wake a
        // driver (e.g. a read re-announcing flow-control credit), which must not loop
        let stamp = {
            let m = ctx.m.borrow();
            (exec.advances, m.ops_done + m.cancels)
        };
        if stamp != last_probe {
            last_probe = stamp;
            let ids: Vec<TaskId> = ctx.m.borrow().pending.keys().copied().collect();
            ctx.m.borrow_mut().probe = true;
            for id in ids {
                // a task woken by something an earlier probe poll set in motion is not pending
                // unobserved: it runs in its turn
                if !exec.is_ready(id) {
                    exec.poll_task(id);
                }
            }
            ctx.m.borrow_mut().probe = false;
        }
        if exec.panicked.is_some() || !ctx.m.borrow().viol.is_empty() {
            break;
        }
        if exec.has_ready() {
            continue;
        }
        if !exec.advance(HORIZON_NS) {
            break;
        }
        steps_at_advance = exec.steps;
    }

    if let Some(p) = exec.panicked.take() {
        let log = ctx.m.borrow().log.join("\n");
        std::mem::forget(ctx);
        exec.leak();
        let mut out = panic_to_case(p, true);
        if let Verdict::Fail { msg, .. } = &mut out.verdict {
            msg.push('\n');
            msg.push_str(&log);
        }
        return out;
    }

    let st_now = exec.sim.now_ns();
    if outcome.is_none() && ctx.m.borrow().viol.is_empty() {
        // quiescent (or beyond the horizon)
        let live_app = exec.alive_ids(TaskKind::App);
        let live_drv = exec.alive_ids(TaskKind::Driver);
        let (inflight, ready) = {
            let st = exec.sim.lock();
            (st.inflight_len(), st.ready_len())
        };
        if ready > 0 || inflight > 0 {
            outcome = Some(CaseOut::inconclusive("virtual-time horizon reached"));
        } else if !live_app.is_empty() {
            let p: Vec<_> = ctx.m.borrow().pending.iter().map(|(t, p)| (*t, p.clone())).collect();
            let kind = p.first().map_or("none", |x| x.1.kind);
            ctx.fail(format!("c18/stuck/{kind}"), format!("the world is quiescent (no ready task, no armed timer, nothing in flight) at {st_now} ns but application tasks {live_app:?} are still waiting: {p:?}"));
        } else if !live_drv.is_empty() {
            ctx.fail(
                "c18/teardown/driver-leak",
                format!("all application tasks ended and every handle was dropped (last at {last_app_end} ns); the world is quiescent at {st_now} ns but {} driver task(s) spawned by quinn never completed: {live_drv:?}", live_drv.len()),
            );
        } else {
            let st = exec.sim.lock();
            let (app, drv) = st.dead_wake_summary();
            let log = format!("{:?}", st.dead_wake_log);
            drop(st);
            if app > 0 {
                ctx.fail("c18/teardown/stale-waker-app", format!("{app} wake(s) were delivered to application tasks that had already completed: a waker registered by a dropped future or handle was kept and invoked (task id, time ns): {log}"));
            } else if drv > DRIVER_DEAD_WAKE_LIMIT {
                ctx.fail("c18/teardown/stale-waker-driver", format!("a completed driver task was woken {drv} times (limit {DRIVER_DEAD_WAKE_LIMIT}): {log}"));
            }
        }
        if ctx.m.borrow().viol.is_empty() && outcome.is_none() {
            let slack = st_now.saturating_sub(last_app_end);
            let bound = 3 * sc.cfg.idle_ms as u64 * 1_000_000 + 30_000_000_000;
            if slack > bound {
                ctx.fail("c18/teardown/slow", format!("driver tasks needed {slack} ns after the last application task ended (bound {bound} ns)"));
            }
        }
    }

    let (z_used, z_handles, z_ops) = ctx.m.borrow().z.as_ref().map_or((false, 0, 0), |z| (z.used, z.early_handles, z.early_ops));
    let (viol, labels_m, cancels, drops, app_tasks, ops_done, bytes_read, dgrams, probes, log) = {
        let m = ctx.m.borrow();
        (m.viol.clone(), m.labels.clone(), m.cancels, m.drops_while_pending, m.app_tasks, m.ops_done, m.bytes_read, m.dgrams_read, m.probes, m.log.clone())
    };
    if let Some(w) = exec.sim.lock().wire_log.take() {
        for l in w.iter().take(400) {
            eprintln!("WIRE {l}");
        }
    }
    let dw = exec.sim.lock().dead_wake_summary();
    let (net, dead_wakes, dead_late, timers, resets, dead_log) = {
        let st = exec.sim.lock();
        let log: Vec<(usize, &'static str, u64)> = st.dead_wake_log.iter().map(|(id, t)| (*id, exec.names.get(*id).copied().unwrap_or("?"), *t / 1000)).collect();
        (st.net.clone(), st.dead_wakes, st.dead_wakes_late, st.timers_created, st.timer_resets, log)
    };
    let (steps, abd, choices, advances) = (exec.steps, exec.app_before_driver, exec.choices, exec.advances);
    // tear the world down (drops whatever is left after a violation)
    drop(exec);
    drop(ctx);
    let (dw_app, dw_drv) = dw;
    if std::env::var("QV_DEBUG").is_ok() && (dw_app > 0 || dw_drv >= 3) {
        eprintln!("DW app={dw_app} drvmax={dw_drv}");
    }
    if std::env::var("QV_DEBUG").is_ok() && dead_late >= 5 {
        eprintln!("DEADWAKES total={dead_wakes} late={dead_late} eps={n_eps} conns={} log={dead_log:?}", sc.conns.len());
    }
    if std::env::var("QV_DEBUG").is_ok() && steps > 20_000 {
        eprintln!("STEPS {steps} virtual={}ms", st_now / 1_000_000);
    }
    if std::env::var("QV_DEBUG").is_ok() && t0.elapsed().as_millis() > 200 {
        eprintln!("SLOW {}ms steps={steps} idle_points={idle_points} advances={advances} virtual={}ms probes={probes} outcome={outcome:?} net={net:?}", t0.elapsed().as_millis(), st_now / 1_000_000);
    }

    if let Some((sig, mut msg)) = viol.into_iter().next() {
        msg.push_str(&format!("\nnet: {net:?}\nsteps={steps} idle_points={idle_points} now={st_now}ns"));
        if trace {
            msg.push('\n');
            msg.push_str(&log.join("\n"));
        }
        return CaseOut::fail(sig, msg);
    }
    if let Some(o) = outcome {
        return o;
    }
    let mut labels: Vec<&'static str> = labels_m.into_iter().collect();
    if net.dropped > 0 {
        labels.push("loss");
    }
    if net.duplicated > 0 {
        labels.push("dup");
    }
    if net.delayed > 0 {
        labels.push("delay");
    }
    if net.gso_batches > 0 {
        labels.push("gso");
    }
    if net.gro_coalesced > 0 {
        labels.push("gro");
    }
    if net.send_blocked > 0 {
        labels.push("send-blocked");
    }
    if sc.one_endpoint {
        labels.push("one-endpoint");
    }
    if cancels > 0 {
        labels.push("cancelled-op");
    }
    if abd > 0 {
        labels.push("app-before-driver");
    }
    if dead_wakes > 0 {
        labels.push("dead-wake");
    }
    if dead_late > 0 {
        labels.push("dead-wake-late");
    }
    let mut nontrivial = app_tasks >= 2 && abd >= 1 && (cancels >= 1 || drops >= 1);
    if zspec.is_some() {
        // 0-RTT sub-check: additionally the client really ran in 0-RTT and used an early handle
        nontrivial = nontrivial && z_used && z_ops >= 1;
        if z_handles > 0 {
            labels.push("early-stream");
        }
        if z_ops > 0 {
            labels.push("early-op");
        }
    }
    let summary = serde_json::json!({
        "zero_rtt": z_used, "early_handles": z_handles, "early_ops": z_ops,
        "conns": sc.conns.len(), "app_tasks": app_tasks, "ops": ops_done, "steps": steps, "choices": choices,
        "app_before_driver": abd, "idle_points": idle_points, "probes": probes, "cancels": cancels,
        "drops_while_pending": drops, "bytes_read": bytes_read, "datagrams_read": dgrams, "virtual_ms": st_now / 1_000_000,
        "advances": advances, "net": format!("{net:?}"), "dead_wakes": dead_wakes, "timers": timers, "timer_resets": resets,
    });
    CaseOut { verdict: Verdict::Pass, labels, nontrivial, summary: Some(summary) }
}

// ---------------------------------------------------------------------------------------------
// Generator
// ---------------------------------------------------------------------------------------------

fn arb_cancel() -> impl Strategy<Value = Cancel> {
    prop_oneof![
        5 => Just(Cancel::default()),
        4 => (proptest::collection::vec(1u8..=3, 1..=2), any::<bool>(), prop_oneof![4 => Just(true), 1 => Just(false)])
            .prop_map(|(at, on_wake, retry)| Cancel { at, on_wake, retry }),
    ]
}

fn arb_fault() -> impl Strategy<Value = Fault> {
    prop_oneof![
        6 => Just(Fault::Deliver),
        1 => Just(Fault::Drop),
        1 => Just(Fault::Dup),
        2 => (1u32..150_000).prop_map(Fault::Delay),
    ]
}

fn arb_net() -> impl Strategy<Value = NetSpec> {
    (
        (50u32..20_000, proptest::collection::vec(arb_fault(), 0..50), any::<bool>()),
        (1u8..=4, 1u8..=4, 1u8..=6),
        (proptest::collection::vec(prop_oneof![5 => Just(false), 1 => Just(true)], 0..40), prop_oneof![3 => Just(0u32), 1 => Just(700u32), 1 => 1u32..30_000], any::<bool>()),
    )
        .prop_map(|((latency_us, mut faults, lossless), (tx, rx, batch), (send_block, tick_ns, may_fragment))| {
            if lossless {
                for f in faults.iter_mut() {
                    if *f == Fault::Drop {
                        *f = Fault::Deliver;
                    }
                }
            }
            NetSpec { latency_us, faults, max_tx_segments: tx, max_rx_segments: rx, recv_batch: batch, send_block, tick_ns, may_fragment }
        })
}

fn arb_cfg() -> impl Strategy<Value = CfgSpec> {
    (
        4_000u32..12_000,
        prop_oneof![1 => 600u32..4_000, 2 => 4_000u32..100_000],
        prop_oneof![1 => 1_500u32..8_000, 2 => 8_000u32..200_000],
        prop_oneof![1 => 1_500u32..8_000, 2 => 8_000u32..200_000],
        (0u8..5, 0u8..5),
        prop_oneof![1 => 1_300u32..4_000, 3 => 4_000u32..100_000],
        1u16..60,
    )
        .prop_map(|(idle_ms, stream_window, conn_window, send_window, (max_bi, max_uni), dgram_send_buf, initial_rtt_ms)| CfgSpec {
            idle_ms,
            stream_window,
            conn_window,
            send_window,
            max_bi,
            max_uni,
            dgram_send_buf,
            initial_rtt_ms,
        })
}

/// What one side does on a stream it opened, and what the other side does after accepting one
#[derive(Clone, Debug)]
struct Flow {
    bi: bool,
    open_c: Cancel,
    accept_c: Cancel,
    writes: Vec<Op>,
    end_w: Vec<Op>,
    reads: Vec<Op>,
    end_r: Vec<Op>,
    /// for bidirectional streams: the acceptor answers and the opener reads the answer
    reply: Option<(Vec<Op>, Vec<Op>)>,
}

const LAST: u8 = 255;

fn arb_writes() -> impl Strategy<Value = Vec<Op>> {
    prop_oneof![
        4 => (1u16..30_000, 64u16..6_000, any::<bool>(), arb_cancel()).prop_map(|(total, piece, chunks, c)| vec![Op::WriteTotal { s: LAST, total, piece, chunks, c }]),
        2 => (1u16..20_000, arb_cancel()).prop_map(|(len, c)| vec![Op::WriteAll { s: LAST, len, c }]),
        1 => (1u16..8_000, arb_cancel()).prop_map(|(len, c)| vec![Op::WriteChunk { s: LAST, len, c }]),
        1 => (proptest::collection::vec(1u16..4_000, 1..4), arb_cancel()).prop_map(|(lens, c)| vec![Op::WriteAllChunks { s: LAST, lens, c }]),
        2 => proptest::collection::vec((1u16..5_000, any::<bool>(), arb_cancel()), 1..4).prop_map(|v| v
            .into_iter()
            .map(|(len, ch, c)| if ch { Op::WriteChunks { s: LAST, lens: vec![len], c } } else { Op::Write { s: LAST, len, c } })
            .collect()),
        1 => Just(vec![]),
    ]
}

fn arb_end_w() -> impl Strategy<Value = Vec<Op>> {
    prop_oneof![
        3 => Just(vec![Op::Finish { s: LAST }]),
        2 => arb_cancel().prop_map(|c| vec![Op::Finish { s: LAST }, Op::Stopped { s: LAST, c }]),
        3 => Just(vec![Op::DropSend { s: LAST }]),
        1 => (0u8..4).prop_map(|code| vec![Op::Reset { s: LAST, code }]),
        2 => arb_cancel().prop_map(|c| vec![Op::Stopped { s: LAST, c }]),
        1 => arb_cancel().prop_map(|c| vec![Op::Stopped { s: LAST, c }, Op::DropSend { s: LAST }]),
        1 => Just(vec![]),
    ]
}

fn arb_reads() -> impl Strategy<Value = Vec<Op>> {
    prop_oneof![
        5 => (0u8..4, 1u16..6_000, arb_cancel()).prop_map(|(style, piece, c)| vec![Op::ReadAll { r: LAST, style, piece, c }]),
        1 => (1u32..40_000, arb_cancel()).prop_map(|(limit, c)| vec![Op::ReadToEnd { r: LAST, limit, c }]),
        // a received_reset() that is (usually) cancelled, followed by reads up to the end of the stream
        1 => (arb_cancel(), 0u8..3, 1u16..6_000).prop_map(|(c, style, piece)| vec![Op::ReceivedReset { r: LAST, c }, Op::ReadAll { r: LAST, style, piece, c: Cancel::default() }]),
        1 => (1u16..6_000, arb_cancel(), 0u8..3, 1u16..3_000).prop_map(|(len, c, style, piece)| vec![Op::ReadExact { r: LAST, len, c }, Op::ReadAll { r: LAST, style, piece, c: Cancel::default() }]),
        2 => proptest::collection::vec((0u8..4, 1u16..4_000, arb_cancel()), 1..4).prop_map(|v| v
            .into_iter()
            .map(|(k, len, c)| match k {
                0 => Op::Read { r: LAST, len, c },
                1 => Op::ReadChunk { r: LAST, max: len, ordered: true, c },
                2 => Op::ReadChunks { r: LAST, n: (len % 4) as u8 + 1, c },
                _ => Op::ReadChunk { r: LAST, max: len, ordered: false, c },
            })
            .collect()),
        1 => Just(vec![]),
    ]
}

fn arb_end_r() -> impl Strategy<Value = Vec<Op>> {
    prop_oneof![
        4 => Just(vec![]),
        2 => Just(vec![Op::DropRecv { r: LAST }]),
        2 => (0u8..4).prop_map(|code| vec![Op::Stop { r: LAST, code }]),
        1 => arb_cancel().prop_map(|c| vec![Op::ReceivedReset { r: LAST, c }]),
    ]
}

fn arb_flow() -> impl Strategy<Value = Flow> {
    (
        (any::<bool>(), arb_cancel(), arb_cancel()),
        (arb_writes(), arb_end_w(), arb_reads(), arb_end_r()),
        proptest::option::weighted(0.5, (arb_writes(), arb_end_w(), arb_reads(), arb_end_r())),
    )
        .prop_map(|((bi, open_c, accept_c), (writes, end_w, reads, end_r), reply)| Flow {
            bi,
            open_c,
            accept_c,
            writes,
            end_w,
            reads,
            end_r,
            reply: reply.map(|(w, ew, r, er)| ([w, ew].concat(), [r, er].concat())),
        })
}

fn arb_extra() -> impl Strategy<Value = Op> {
    prop_oneof![
        3 => (1u32..400_000).prop_map(|us| Op::Sleep { us }),
        3 => Just(Op::Yield),
        3 => (8u16..1_300).prop_map(|len| Op::SendDgram { len }),
        2 => (8u16..1_300, arb_cancel(), prop_oneof![3 => Just(0u8), 1 => 1u8..4]).prop_map(|(len, c, lazy)| Op::SendDgramWait { len, c, lazy }),
        3 => arb_cancel().prop_map(Op::ReadDgram),
        1 => any::<u8>().prop_map(|s| Op::DropSend { s }),
        1 => any::<u8>().prop_map(|r| Op::DropRecv { r }),
        1 => (any::<u8>(), 0u8..4).prop_map(|(r, code)| Op::Stop { r, code }),
        1 => any::<u8>().prop_map(|s| Op::Finish { s }),
        1 => (any::<u8>(), arb_cancel()).prop_map(|(s, c)| Op::Stopped { s, c }),
        1 => (any::<u8>(), 1u16..3_000, arb_cancel()).prop_map(|(r, len, c)| Op::Read { r, len, c }),
        1 => (any::<u8>(), 1u16..3_000, arb_cancel()).prop_map(|(s, len, c)| Op::Write { s, len, c }),
        1 => arb_cancel().prop_map(Op::AcceptUni),
        1 => arb_cancel().prop_map(Op::OpenUni),
    ]
}

fn arb_tail() -> impl Strategy<Value = Vec<Op>> {
    prop_oneof![
        8 => arb_cancel().prop_map(|c| vec![Op::Closed(c)]),
        4 => (0u8..5).prop_map(|code| vec![Op::Close { code }]),
        5 => Just(vec![]),
        2 => (1u32..2_000_000).prop_map(|us| vec![Op::Sleep { us }]),
        2 => arb_cancel().prop_map(|c| vec![Op::DropConn, Op::WaitIdle(c)]),
        1 => (arb_cancel(), 1u32..1_500_000).prop_map(|(c, us)| vec![Op::DropConn, Op::Sleep { us }, Op::WaitIdle(c)]),
        1 => (0u8..5, arb_cancel()).prop_map(|(code, c)| vec![Op::EpClose { code }, Op::WaitIdle(c)]),
        1 => (0u8..5, arb_cancel()).prop_map(|(code, c)| vec![Op::Sleep { us: 300_000 }, Op::EpClose { code }, Op::Closed(c)]),
        1 => arb_cancel().prop_map(|c| vec![Op::DropEp, Op::Closed(c)]),
    ]
}

#[derive(Clone, Debug)]
struct RawConn {
    start_delay_us: u32,
    connect_cancel: Cancel,
    n_tasks: [usize; 2],
    /// (flow, opener is client, opener task, acceptor task)
    flows: Vec<(Flow, bool, u8, u8)>,
    extras: Vec<(Op, bool, u8, u8)>,
    tails: Vec<Vec<Op>>,
    /// datagram storm: `send_datagram_wait` calls (len, lazy) dealt round-robin to the tasks of one side,
    /// so that several senders compete for a small send buffer
    storm: (bool, Vec<(u16, u8)>),
    /// a request/response exchange in which the opener stops the response, the acceptor waits for the stop
    /// and drops its send half without resetting it, and the opener then needs the stream slot again
    stopdrop: bool,
    /// the configured limit for client-initiated streams of one kind is 0; the client asks for one, the
    /// server application raises the limit after a while (uni?, sleep µs)
    raise: Option<(bool, u32)>,
}

fn arb_conn() -> impl Strategy<Value = RawConn> {
    (
        (0u32..30_000, prop_oneof![9 => Just(Cancel::default()), 1 => (1u8..4, any::<bool>()).prop_map(|(k, w)| Cancel { at: vec![k], on_wake: w, retry: false })]),
        (1usize..=3, 1usize..=3),
        proptest::collection::vec((arb_flow(), any::<bool>(), any::<u8>(), any::<u8>()), 0..5),
        proptest::collection::vec((arb_extra(), any::<bool>(), any::<u8>(), any::<u8>()), 0..6),
        proptest::collection::vec(arb_tail(), 6),
        (any::<bool>(), prop_oneof![9 => Just(vec![]), 1 => proptest::collection::vec((500u16..1_250, prop_oneof![1 => Just(0u8), 1 => 1u8..4]), 4..14)]),
        proptest::bool::weighted(0.06),
        proptest::option::weighted(0.06, (any::<bool>(), prop_oneof![0u32..2_000, 2_000u32..300_000])),
    )
        .prop_map(|((start_delay_us, connect_cancel), (a, b), flows, extras, tails, storm, stopdrop, raise)| RawConn { start_delay_us, connect_cancel, n_tasks: [a, b], flows, extras, tails, storm, stopdrop, raise: if stopdrop { None } else { raise } })
}

fn compile(rc: RawConn) -> ConnProg {
    let mut tasks: [Vec<Vec<Op>>; 2] = [vec![vec![]; rc.n_tasks[0]], vec![vec![]; rc.n_tasks[1]]];

    for (f, client_opens, ot, at) in rc.flows {
        if rc.stopdrop && f.bi && client_opens {
            // the choreography owns the single client-initiated bidirectional slot
            continue;
        }
        if rc.raise.is_some_and(|(uni, _)| uni != f.bi) {
            // the limit for this kind of stream is 0 in both directions
            continue;
        }
        let (o, a) = if client_opens { (0, 1) } else { (1, 0) };
        let ot = pick(ot, rc.n_tasks[o]).unwrap();
        let at = pick(at, rc.n_tasks[a]).unwrap();
        let opener = &mut tasks[o][ot];
        opener.push(if f.bi { Op::OpenBi(f.open_c) } else { Op::OpenUni(f.open_c) });
        opener.extend(f.writes);
        opener.extend(f.end_w);
        if let (true, Some((_, rr))) = (f.bi, &f.reply) {
            opener.extend(rr.clone());
        }
        let acc = &mut tasks[a][at];
        acc.push(if f.bi { Op::AcceptBi(f.accept_c) } else { Op::AcceptUni(f.accept_c) });
        acc.extend(f.reads);
        acc.extend(f.end_r);
        if let (true, Some((rw, _))) = (f.bi, f.reply) {
            acc.extend(rw);
        }
    }
    for (op, client, t, pos) in rc.extras {
        let s = if client { 0 } else { 1 };
        let t = pick(t, rc.n_tasks[s]).unwrap();
        let v = &mut tasks[s][t];
        let at = (pos as usize * (v.len() + 1)) >> 8;
        v.insert(at, op);
    }
    {
        let (client, storm) = &rc.storm;
        let s = if *client { 0 } else { 1 };
        let n = rc.n_tasks[s];
        for (i, (len, lazy)) in storm.iter().enumerate() {
            tasks[s][i % n].push(Op::SendDgramWait { len: *len, c: Cancel::default(), lazy: *lazy });
        }
    }
    if rc.stopdrop {
        // placed in front of everything else once the extras have found their places, so that nothing can
        // slip in between (LAST must keep naming the handles of this stream)
        let nc = Cancel::default;
        let a = vec![Op::OpenBi(nc()), Op::Write { s: LAST, len: 10, c: nc() }, Op::Finish { s: LAST }, Op::Stop { r: LAST, code: 3 }, Op::OpenBi(nc()), Op::Finish { s: LAST }];
        let b = vec![Op::AcceptBi(nc()), Op::ReadAll { r: LAST, style: 0, piece: 64, c: nc() }, Op::Stopped { s: LAST, c: nc() }, Op::DropSend { s: LAST }, Op::DropRecv { r: LAST }, Op::SlotReleased, Op::AcceptBi(nc())];
        tasks[0][0].splice(0..0, a);
        tasks[1][0].splice(0..0, b);
    }
    if let Some((uni, us)) = rc.raise {
        let nc = Cancel::default;
        let a = vec![if uni { Op::OpenUni(nc()) } else { Op::OpenBi(nc()) }, Op::Finish { s: LAST }];
        let b = vec![Op::Sleep { us }, Op::RaiseStreamLimit { uni, count: 1 }, if uni { Op::AcceptUni(nc()) } else { Op::AcceptBi(nc()) }];
        tasks[0][0].splice(0..0, a);
        tasks[1][0].splice(0..0, b);
    }
    let mut k = 0;
    for s in 0..2 {
        for t in tasks[s].iter_mut() {
            t.extend(rc.tails[k % rc.tails.len()].clone());
            k += 1;
        }
    }
    let [client, server] = tasks;
    ConnProg { start_delay_us: rc.start_delay_us, connect_cancel: rc.connect_cancel, client, server }
}

pub fn arb_scenario() -> impl Strategy<Value = Scenario> {
    (
        (any::<u64>(), arb_net(), arb_cfg(), prop_oneof![4 => Just(false), 1 => Just(true)]),
        (
            proptest::collection::vec(prop_oneof![12 => Just(IncAct::Accept), 2 => prop_oneof![1u32..2_000, 2_000u32..400_000].prop_map(|us| IncAct::AcceptLate { us }), 1 => (0u8..5).prop_map(|code| IncAct::CloseThenAccept { code }), 1 => Just(IncAct::Refuse), 2 => Just(IncAct::Retry), 1 => Just(IncAct::Ignore), 1 => Just(IncAct::Drop)], 1..5),
            proptest::collection::vec(arb_cancel(), 0..4),
        ),
        proptest::collection::vec(arb_conn(), 1..=2),
        proptest::collection::vec(any::<u8>(), 0..600),
    )
        .prop_map(|((seed, net, mut cfg, one_endpoint), (acceptor, accept_cancel), conns, sched)| {
            if conns.iter().any(|c| !c.storm.1.is_empty()) {
                cfg.dgram_send_buf = 1_300 + cfg.dgram_send_buf % 2_700;
            }
            if conns.iter().any(|c| c.stopdrop) {
                cfg.max_bi = 1;
            }
            for c in &conns {
                match c.raise {
                    Some((true, _)) => cfg.max_uni = 0,
                    Some((false, _)) if !conns.iter().any(|c| c.stopdrop) => cfg.max_bi = 0,
                    _ => {}
                }
            }
            (seed, net, cfg, one_endpoint, acceptor, accept_cancel, conns, sched)
        })
        .prop_map(|(seed, net, cfg, one_endpoint, acceptor, accept_cancel, conns, sched)| Scenario {
            seed,
            net,
            cfg,
            one_endpoint,
            acceptor,
            accept_cancel,
            conns: conns.into_iter().map(compile).collect(),
            sched,
        })
}

// ---------------------------------------------------------------------------------------------
// Sub-check c18-0rtt: the async 0-RTT / 0.5-RTT surface
// ---------------------------------------------------------------------------------------------

#[derive(Clone, Debug, Serialize, Deserialize)]
pub struct ZScenario {
    pub seed: u64,
    pub net: NetSpec,
    pub cfg: CfgSpec,
    /// the server's early-data policy
    pub accept_0rtt: bool,
    /// the server application starts with `Connecting::into_0rtt()` (0.5-RTT) on the second connection
    pub half_rtt: bool,
    /// the acceptor answers the second connection's first Initial with Retry
    pub retry: bool,
    /// programs of the second (0-RTT) connection
    pub prog: ConnProg,
    pub sched: Vec<u8>,
}

pub fn case_0rtt(z: &ZScenario) -> CaseOut {
    let first = ConnProg { start_delay_us: 0, connect_cancel: Cancel::default(), client: vec![vec![Op::Close { code: 0 }]], server: vec![vec![Op::Closed(Cancel::default())]] };
    // (in 0-RTT worlds the acceptor decides by itself, see `acceptor`; the list bounds the number of Incomings)
    let acceptor = vec![IncAct::Accept; 6];
    let sc = Scenario {
        seed: z.seed,
        net: z.net.clone(),
        cfg: z.cfg.clone(),
        one_endpoint: false,
        acceptor,
        accept_cancel: vec![],
        conns: vec![first, z.prog.clone()],
        sched: z.sched.clone(),
    };
    run_world(&sc, Some(ZSpec { accept_0rtt: z.accept_0rtt, half_rtt: z.half_rtt, retry: z.retry }))
}

pub fn arb_zscenario() -> impl Strategy<Value = ZScenario> {
    (
        (any::<u64>(), arb_net(), arb_cfg()),
        (any::<bool>(), any::<bool>(), prop_oneof![6 => Just(false), 1 => Just(true)]),
        (arb_conn(), arb_flow(), any::<u8>(), any::<u8>()),
        proptest::collection::vec((any::<bool>(), any::<u8>(), any::<u8>(), arb_cancel()), 0..3),
        proptest::collection::vec(any::<u8>(), 0..600),
    )
        .prop_map(|((seed, mut net, mut cfg), (accept_0rtt, half_rtt, retry), (mut rc, flow, ft, fa), auths, sched)| {
            // the ticket-provisioning connection runs over a clean link
            let mut faults = vec![Fault::Deliver; 14];
            faults.append(&mut net.faults);
            net.faults = faults;
            // the remembered transport parameters must allow at least one stream per direction
            cfg.max_bi = cfg.max_bi.max(1);
            cfg.max_uni = cfg.max_uni.max(1);
            // one flow opened by the client comes first, so that something happens in 0-RTT
            rc.flows.insert(0, (flow, true, ft, fa));
            rc.raise = None;
            let n_tasks = rc.n_tasks;
            let mut prog = compile(rc);
            for (client, t, pos, c) in auths {
                let tasks = if client { &mut prog.client } else { &mut prog.server };
                let t = pick(t, n_tasks[if client { 0 } else { 1 }]).unwrap();
                let v = &mut tasks[t];
                let at = (pos as usize * (v.len() + 1)) >> 8;
                v.insert(at, Op::Authenticated(c));
            }
            ZScenario { seed, net, cfg, accept_0rtt, half_rtt, retry, prog, sched }
        })
}

pub fn run(report: &Report) -> i32 {
    report.assume("single-threaded deterministic executor: task-level interleavings only; the tokio/smol runtime adapters are not exercised");
    report.assume("SimCrypto stands in for TLS; idle timeout 4-12 s, keep-alive off, so every connection-bound operation terminates");
    report.assume("delivery-within-SETTLE rules for implicit finish/stop/close apply only in worlds where no datagram was dropped");
    run_prop(
        report,
        "c18",
        "proptest-generated worlds (application scripts per task x scheduler choice bytes x link fault stream x cancellation points x handle drops) on the deterministic runtime; oracles: idle-point probes of every pending future (spurious re-poll + fresh future), stuck-operation deadline, content/offset/stream-index/datagram conservation across drop-and-retry, provenance of EOF/Reset/Stopped/close codes, delivery of implicit finish/stop/close, driver termination and dead-task wake count at quiescence; non-trivial = >=2 application tasks, an application task polled while a driver was ready at least once, and >=1 cancellation or handle drop while an operation was pending",
        arb_scenario,
        report.cases(400_000, 20_000_000),
        case,
    );
    report.assume("c18-0rtt: SimCrypto session tickets; the first connection of a world only provisions the ticket (clean link for its 14 first datagrams)");
    run_prop(
        report,
        "c18-0rtt",
        "worlds in which a first connection provisions a session ticket and the client then reconnects with Connecting::into_0rtt(): application tasks open/write/finish/stopped()/read/datagram before the handshake completes, the server accepts or rejects early data (generated), optionally starts in 0.5-RTT, optionally answers with Retry; same schedules/faults/cancellation plans and oracles as c18, plus: once the handshake completed with rejection every operation on a handle created in 0-RTT must complete with ZeroRttRejected (idle-point probes find parked ones), ZeroRttRejected only on such handles, early datagrams never reach the server application after rejection, RecvStream::is_0rtt() matches the phase, authenticated() resolves; on acceptance each early byte exactly once; non-trivial = the c18 rule and into_0rtt() succeeded and >=1 operation ran on an early handle",
        arb_zscenario,
        report.cases(120_000, 6_000_000),
        case_0rtt,
    );
    report.finish("generated-input search (proptest) over deterministic async worlds")
}
