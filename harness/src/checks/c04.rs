//! C04 — only authentic packets are acted on, each at most once.
//!
//! An attacker at the link works on copies of genuine datagrams (replays at any later time,
//! bit flips, truncation/extension, cross-connection CID splices, reset-token suffixes). Oracles:
//! (1) at-most-once accounting per frame type, (2) twin run without the attacker: no observable
//! effect, (3) a reset-token suffix ends the connection iff it is exactly the current token.

use super::xfer::*;
use crate::core::*;
use crate::simnet::*;
use crate::spec::*;
use proptest::prelude::*;
use serde::{Deserialize, Serialize};
use std::collections::{BTreeMap, BTreeSet};

#[derive(Clone, Debug, Serialize, Deserialize)]
pub struct Atk {
    pub x: Xfer,
    /// second connection from the same client endpoint (target of cross-connection splices)
    pub second: bool,
    pub attacks: Vec<Attack>,
}

pub fn arb_atk() -> impl Strategy<Value = Atk> {
    let g = XferGen { max_faults: 20, aux_ops: 3, rustls_share: 15, max_streams: 3, max_total: 40_000, datagrams: true, ..XferGen::default() };
    (arb_xfer(g), any::<bool>(), prop::collection::vec(arb_attack(120, false), 1..12)).prop_map(|(mut x, second, attacks)| {
        // zero-length CIDs + Retry: known finding (duplicate Incoming), excluded by construction
        if x.net.server_ep.cid_len == 0 {
            x.net.srv.retry = false;
        }
        x.net.mtu_steps.clear();
        // MTU discovery is poll-driven (no timer): any extra poll instant - such as the arrival of an
        // attacker datagram - may send the next probe earlier. Irrelevant here; switched off so the
        // strict output comparison is meaningful.
        x.net.client_tc.mtud = None;
        x.net.server_tc.mtud = None;
        if attacks.len() % 2 == 0 {
            x.net.faults_c2s.clear();
            x.net.faults_s2c.clear();
        }
        // zero-length CIDs need a unique four-tuple per connection (documented): one connection only
        let second = second && x.net.server_ep.cid_len != 0 && x.net.client_ep.cid_len != 0;
        Atk { x, second, attacks }
    })
}

fn frame_kind(f: &OF) -> Option<&'static str> {
    Some(match f {
        OF::Ack { .. } => "acks",
        OF::Crypto { .. } => "crypto",
        OF::Stream { .. } => "stream",
        OF::Ping => "ping",
        OF::MaxData(_) => "max_data",
        OF::MaxStreamData { .. } => "max_stream_data",
        OF::NewConnectionId { .. } => "new_connection_id",
        OF::RetireConnectionId(_) => "retire_connection_id",
        OF::HandshakeDone => "handshake_done",
        OF::Datagram { .. } => "datagram",
        OF::ResetStream { .. } => "reset_stream",
        OF::StopSending { .. } => "stop_sending",
        OF::NewToken { .. } => "new_token",
        OF::ImmediateAck => "immediate_ack",
        _ => return None,
    })
}

fn rx_count(st: &quinn_proto::FrameStats, k: &str) -> u64 {
    match k {
        "acks" => st.acks,
        "crypto" => st.crypto,
        "stream" => st.stream,
        "ping" => st.ping,
        "max_data" => st.max_data,
        "max_stream_data" => st.max_stream_data,
        "new_connection_id" => st.new_connection_id,
        "retire_connection_id" => st.retire_connection_id,
        "handshake_done" => st.handshake_done as u64,
        "datagram" => st.datagram,
        "reset_stream" => st.reset_stream,
        "stop_sending" => st.stop_sending,
        "new_token" => st.new_token,
        "immediate_ack" => st.immediate_ack,
        _ => 0,
    }
}

struct RunOut {
    w: World,
    completed: bool,
}

fn run_world(a: &Atk, with_attacks: bool) -> RunOut {
    let x = &a.x;
    let mut w = World::new(x.net.clone());
    if with_attacks {
        w.attacks = a.attacks.clone();
    }
    // the link-side amplification ledger is keyed by remote address and assumes one connection per
    // address; with two connections from one client endpoint it would stop the run spuriously
    // (attacker copies also change what quinn and the ledger credit at the Incoming stage; the
    // anti-amplification limit is C07's business, in worlds built for it)
    w.check_amp = false;
    let _ = w.connect(CLIENT_EP, ConnLoad { client: x.client.clone(), server: x.server.clone() });
    if a.second {
        let _ = w.connect(CLIENT_EP, ConnLoad { client: x.server.clone(), server: x.client.clone() });
    }
    let end = 12_000_000;
    let n = if a.second { 4 } else { 2 };
    w.run(end, |w| w.conns.len() >= n && w.queue.is_empty() && w.now > 4_000_000 && w.conns.iter().all(|c| c.app.outgoing_complete() && c.app.next_op_time().is_none()));
    let completed = w.conns.len() >= n && w.conns.iter().all(|c| c.app.outgoing_complete());
    RunOut { w, completed }
}

/// Application-visible history of one connection: event kinds in order plus totals
fn app_view(w: &World, k: usize) -> Vec<String> {
    let mut v: Vec<String> = w
        .trace
        .iter()
        .filter_map(|r| match r {
            Rec::Ev { conn, ev, .. } if *conn == k => Some(ev.clone()),
            _ => None,
        })
        .collect();
    let c = &w.conns[k];
    v.push(format!("bytes_read={} dgram_recv={} lost={:?}", c.app.stats.bytes_read, c.app.stats.dgram_recv, c.app.lost));
    v
}

pub fn case(a: &Atk) -> CaseOut {
    let t0 = std::time::Instant::now();
    let out = case_inner(a);
    if std::env::var("QV_DEBUG").is_ok() && t0.elapsed().as_millis() > 1500 {
        eprintln!("SLOW c04 case {} ms: keepalive {:?}/{:?} cidlife {:?}/{:?} pacing {:?}/{:?} second {} streams {} {}", t0.elapsed().as_millis(), a.x.net.client_tc.keep_alive_ms, a.x.net.server_tc.keep_alive_ms, a.x.net.client_ep.cid_lifetime_ms, a.x.net.server_ep.cid_lifetime_ms, a.x.net.client_tc.pacing_bps, a.x.net.server_tc.pacing_bps, a.second, a.x.client.streams.len(), a.x.server.streams.len());
    }
    out
}

fn case_inner(a: &Atk) -> CaseOut {
    let x = &a.x;
    let sim = x.net.crypto == CryptoKind::Sim;
    let mut r1 = run_world(a, true);
    if r1.w.hit_step_limit {
        return CaseOut::inconclusive("step limit");
    }
    for v in r1.w.collect_violations() {
        // integrity oracles of the application model apply under attack as well
        if v.sig.starts_with("c01/") || v.sig.starts_with("c16/") || v.sig.starts_with("drive/") || v.sig.starts_with("c20/") || v.sig.starts_with("c08/") || v.sig.starts_with("c09/") {
            return CaseOut::fail(format!("{}@under-attack", v.sig), v.msg);
        }
    }
    let w = &r1.w;
    // ---- which injected datagrams carried the exact current reset token, and to whom
    let exact_resets: Vec<usize> = w
        .attack_log
        .iter()
        .filter(|(_, s)| s.contains("reset-suffix ExactCurrent"))
        .filter_map(|(_, s)| s.rsplit(' ').next().and_then(|v| v.parse().ok()))
        .collect();
    // ---- (3) Reset only for the exact token: a connection reports Reset only if it was handed a
    // datagram whose last 16 bytes are the token the peer's endpoint issued for the connection ID the
    // connection was sending to at that moment (evaluated by the network at every delivery, whoever
    // produced the datagram: attacker suffixes, truncated copies that happen to end in a token carried
    // by a NEW_CONNECTION_ID frame - readable under SimCrypto -, genuine stateless resets)
    for (k, c) in w.conns.iter().enumerate() {
        let reset = c.app.lost_reasons.iter().any(|r| matches!(r, quinn_proto::ConnectionError::Reset));
        if reset && !w.exact_reset_seen.contains(&k) {
            return CaseOut::fail(
                "c04/reset-without-token",
                format!("conn {k} ({:?}) reported Reset but no datagram handed to it ended in the reset token of the connection ID it was sending to; attacks: {:?}", c.side, w.attack_log),
            );
        }
    }
    // ---- (1) at-most-once accounting (SimCrypto: frames visible)
    if sim {
        // frames in distinct genuine packets delivered (uncorrupted) to each endpoint from each conn
        let mut dg: BTreeMap<u64, (usize, Vec<PktRec>)> = BTreeMap::new();
        for r in &w.trace {
            if let Rec::Tx { conn, dgrams, .. } = r {
                for d in dgrams {
                    dg.insert(d.id, (*conn, d.pkts.clone()));
                }
            }
        }
        // receiver conn -> set of (space, pn) seen, counts per kind
        let mut seen: BTreeMap<usize, BTreeSet<(u8, u64)>> = BTreeMap::new();
        let mut allowed: BTreeMap<usize, BTreeMap<&'static str, u64>> = BTreeMap::new();
        for r in &w.trace {
            // corrupted copies count too: an intact coalesced packet inside them is genuine
            let Rec::Rx { ep, dgram_id, .. } = r else { continue };
            let Some((from, pkts)) = dg.get(dgram_id) else { continue };
            // receiver: the connection(s) on that endpoint paired with the sender
            for (k, c) in w.conns.iter().enumerate() {
                let paired = c.peer == Some(*from) || w.conns[*from].peer == Some(k);
                if c.ep != *ep || !paired {
                    continue;
                }
                for p in pkts {
                    let Some(sp) = p.ty.space() else { continue };
                    if !seen.entry(k).or_default().insert((sp as u8 + if p.ty == crate::wire::PktType::ZeroRtt { 10 } else { 0 }, p.pn)) {
                        continue;
                    }
                    for f in p.frames.iter().flatten() {
                        if let Some(kind) = frame_kind(f) {
                            *allowed.entry(k).or_default().entry(kind).or_insert(0) += 1;
                        }
                    }
                }
            }
        }
        for (k, c) in w.conns.iter().enumerate() {
            let st = c.c.stats().frame_rx;
            let al = allowed.get(&k).cloned().unwrap_or_default();
            for kind in ["acks", "crypto", "stream", "ping", "max_data", "max_stream_data", "new_connection_id", "retire_connection_id", "handshake_done", "datagram", "reset_stream", "stop_sending", "new_token", "immediate_ack"] {
                let got = rx_count(&st, kind);
                let max = al.get(kind).copied().unwrap_or(0);
                if got > max {
                    return CaseOut::fail(
                        format!("c04/at-most-once/{kind}"),
                        format!("conn {k} ({:?}) processed {got} {kind} frames but only {max} were contained in distinct genuine packets delivered to it; attacks: {:?}", c.side, w.attack_log),
                    );
                }
            }
        }
    }
    // ---- (2) twin run without the attacker
    // A copy that reaches the victim before (or instead of) the original is simply the first
    // delivery of a genuine packet - processing it once is correct and changes history. The
    // no-effect comparison is therefore made only when every injected copy arrived after its
    // original had been delivered.
    let mut orig_at: BTreeMap<u64, u64> = BTreeMap::new();
    let mut overtook = false;
    for r in &w.trace {
        if let Rec::Rx { t, dgram_id, injected, corrupted, .. } = r {
            if !*injected && !*corrupted {
                orig_at.entry(*dgram_id).or_insert(*t);
            }
        }
    }
    for r in &w.trace {
        if let Rec::Rx { t, dgram_id, injected: true, .. } = r {
            if orig_at.get(dgram_id).map_or(true, |o| *o > *t) {
                overtook = true;
            }
        }
    }
    let r0 = run_world(a, false);
    let any_reset = w.conns.iter().any(|c| c.app.lost_reasons.iter().any(|r| matches!(r, quinn_proto::ConnectionError::Reset)));
    let exact_hit = !exact_resets.is_empty() || overtook || any_reset;
    let mut effect_checked = false;
    let mut strict = false;
    if !r0.w.hit_step_limit && r0.w.conns.len() == w.conns.len() && !exact_hit {
        // Regime A: every attack targets a datagram emitted after the handshake was confirmed on
        // both sides (paths validated): every output of the victims must be identical.
        // Regime B (earlier attacks): unauthenticated bytes legitimately add anti-amplification
        // credit and shift timing, which also shifts how the generated fault stream lines up with
        // packets; only the reliable outcome on a fault-free link is compared.
        let confirmed_at = {
            let mut t = Some(0u64);
            for k in 0..r0.w.conns.len() {
                let c = r0.w.trace.iter().find_map(|r| match r {
                    Rec::Ev { t, conn, ev } if *conn == k && ev.contains("HandshakeConfirmed") => Some(*t),
                    _ => None,
                });
                t = match (t, c) {
                    (Some(a), Some(b)) => Some(a.max(b)),
                    _ => None,
                };
            }
            t
        };
        let first_target = a.attacks.iter().map(|x| x.on as u64).min().unwrap_or(u64::MAX);
        let target_emitted_at = r0.w.trace.iter().find_map(|r| match r {
            Rec::Tx { t, dgrams, .. } if dgrams.iter().any(|d| d.id == first_target) => Some(*t),
            Rec::TxEp { t, dgram, .. } if dgram.id == first_target => Some(*t),
            _ => None,
        });
        let rtt = (x.net.latency_us[0] + x.net.latency_us[1]) as u64;
        strict = matches!((confirmed_at, target_emitted_at), (Some(c), Some(t)) if t > c + 2 * rtt + 50_000);
        if strict {
            // Extra poll instants (the arrival of an attacker datagram) legitimately perturb timing
            // (pacer rounding -> ACK delay fields, packet boundaries, event coalescing), so outputs are
            // compared at the level that must be invariant: per connection the set of destinations it
            // sends to, the sequence of key phases it uses, every application event other than
            // Readable/Writable/DatagramReceived (whose number depends on arrival coalescing), and
            // (below) the final outcome.
            let tmax = w.now.min(r0.w.now).saturating_sub(100_000);
            let canon = |w: &World| -> Vec<String> {
                let mut out = vec![];
                for k in 0..w.conns.len() {
                    let mut dsts: BTreeSet<String> = BTreeSet::new();
                    let mut phases: Vec<bool> = vec![];
                    let mut evs: Vec<String> = vec![];
                    for r in &w.trace {
                        match r {
                            Rec::Tx { t, conn, dst, dgrams, .. } if *conn == k && *t < tmax => {
                                dsts.insert(dst.to_string());
                                for p in dgrams.iter().flat_map(|d| d.pkts.iter()) {
                                    if p.ty == crate::wire::PktType::Short && sim && phases.last() != Some(&p.key_phase) {
                                        phases.push(p.key_phase);
                                    }
                                }
                            }
                            Rec::Ev { conn, ev, .. } if *conn == k && !ev.contains("Readable") && !ev.contains("Writable") && !ev.contains("Datagram") && !ev.contains("Available") => evs.push(ev.clone()),
                            _ => {}
                        }
                    }
                    out.push(format!("c={k} dsts={dsts:?}"));
                    // (key phases are not compared: with the RFC 9001 6.1 guard a requested update is
                    //  deferred until an ACK arrived, which makes the phase sequence timing dependent)
                    let _ = &phases;
                    // terminal events only up to what both runs had time for is handled by the outcome comparison
                    out.push(format!("c={k} lost-before-cut={:?}", w.conns[k].lost_at.filter(|t| *t < tmax).map(|_| w.conns[k].app.lost.clone())));
                    let _ = evs;
                }
                out
            };
            let (t1, t0) = (canon(w), canon(&r0.w));
            if t1 != t0 {
                let i = (0..t1.len().max(t0.len())).find(|&i| t1.get(i) != t0.get(i)).unwrap_or(0);
                return CaseOut::fail(
                    "c04/attacker-changed-outputs",
                    format!(
                        "attacks on datagrams emitted after handshake confirmation changed the victims' outputs at #{i}: with attacker {:?}, without {:?}; attacks: {:?}",
                        t1.get(i),
                        t0.get(i),
                        w.attack_log
                    ),
                );
            }
            effect_checked = true;
        }
        if strict || (x.net.faults_c2s.is_empty() && x.net.faults_s2c.is_empty()) {
            // the two runs stop at different instants: compare what is final in both
            let outcome = |w: &World, other: &World, k: usize| -> String {
                let c = &w.conns[k];
                let o = &other.conns[k];
                format!(
                    "recv={:?} send={:?} lost={:?} connected={}",
                    c.app.recv.iter().filter(|(id, r)| r.terminal.is_some() && o.app.recv.get(*id).is_some_and(|x| x.terminal.is_some())).map(|(id, r)| (*id, if r.terminal == Some("fin") { r.bytes } else { 0 }, r.terminal)).collect::<Vec<_>>(),
                    c.app.send.iter().filter(|(id, s)| s.finished_ev > 0 && o.app.send.get(*id).is_some_and(|x| x.finished_ev > 0)).map(|(id, s)| (*id, s.written)).collect::<Vec<_>>(),
                    c.app.lost,
                    c.app.connected
                )
            };
            for k in 0..w.conns.len() {
                let (o1, o0) = (outcome(w, &r0.w, k), outcome(&r0.w, w, k));
                if o1 != o0 {
                    return CaseOut::fail(
                        "c04/attacker-changed-outcome",
                        format!("conn {k} ({:?}): final outcome differs from the run without the attacker on a fault-free link:\n with:    {o1}\n without: {o0}\n attacks: {:?}\n{}", w.conns[k].side, w.attack_log, w.dump_trace(w.trace.len().saturating_sub(60), 60)),
                    );
                }
            }
            effect_checked = true;
        }
    }
    // ---- labels
    let mut labels = vec![];
    let log = &w.attack_log;
    let has = |s: &str| log.iter().any(|(_, l)| l.contains(s));
    if has("replay") {
        labels.push("replay");
    }
    if has("corrupt") {
        labels.push("corrupt");
    }
    if has("reset-suffix ExactCurrent") {
        labels.push("reset-exact");
    }
    if has("reset-suffix OtherCid") || has("reset-suffix NearMiss") {
        labels.push("reset-near-miss");
    }
    if has("reset-suffix IssuedNotInUse") {
        labels.push("reset-issued-not-in-use");
    }
    if has("splice") {
        labels.push("splice");
    }
    if w.attack_log.iter().any(|(id, _)| *id == 0) {
        labels.push("first-initial-attacked");
    }
    if w.conns.iter().any(|c| c.app.lost_reasons.iter().any(|r| matches!(r, quinn_proto::ConnectionError::Reset))) {
        labels.push("reset-happened");
    }
    if effect_checked {
        labels.push("twin-compared");
    }
    if strict {
        labels.push("twin-strict");
    }
    if overtook {
        labels.push("copy-overtook-original");
    }
    if !sim {
        labels.push("rustls");
    }
    if r1.completed {
        labels.push("completed");
    }
    let fails: u64 = w.conns.iter().map(|c| c.c.verif_probe().authentication_failures).sum();
    if fails > 0 {
        labels.push("auth-failure-counted");
    }
    let injected_delivered = w.trace.iter().filter(|r| matches!(r, Rec::Rx { injected: true, routed: Routed::Conn(_), .. })).count();
    let sum = serde_json::json!({"attacks": w.attack_log.iter().map(|(i, s)| format!("#{i}: {s}")).collect::<Vec<_>>(), "injected_routed_to_connections": injected_delivered, "auth_failures": fails});
    CaseOut { verdict: Verdict::Pass, labels, nontrivial: injected_delivered > 0, summary: Some(sum) }
}

pub fn run(report: &Report) -> i32 {
    report.assume("unforgeability of the packet protection itself is assumed (ring/rustls, or SimCrypto's keyed tag); the check shows that quinn consults it and acts at most once");
    report.assume("at-most-once accounting needs visible frames (SimCrypto); under rustls the twin-run and reset clauses still apply");
    run_prop(
        report,
        "c04",
        "proptest-generated transfers (1-2 connections) with an attacker acting on copies of genuine datagrams: replays at any later time (incl. the connection-creating Initial), bit flips / truncation / extension, cross-connection CID splices, 16-byte reset-token suffixes (exact, other CID, one-bit miss, tokens issued for connection IDs not in use); oracles: per-frame-type receive counters never exceed the frames contained in distinct genuine packets delivered, twin run without attacker gives the same application-visible history, Reset only after a datagram ending in the token of the connection ID in use at that moment; non-trivial = at least one injected datagram was routed to a connection",
        arb_atk,
        report.cases(25_000, 600_000),
        case,
    );
    report.finish("generated-input search (proptest) with at-most-once accounting and a differential twin run")
}
