//! C15 — path migration keeps the connection and cannot be hijacked.
//!
//! Established connections with transfers in both directions on the simulated network. A link
//! hook (World::link_hook) rewrites the client's source address according to a generated plan
//! (port-only change, full address change, v6<->v4, moving back, overlapping moves), drops what is
//! sent to an address the client has left, lets an attacker re-send copies of genuine datagrams
//! from other addresses (race copies that arrive before the original, stale copies, captured
//! originals) in both directions, and drops selected PATH_CHALLENGE / PATH_RESPONSE datagrams.
//!
//! Sub-checks: `c15-migrate` (server permits migration) and `c15-ignore` (server forbids it; the
//! client side of "ignore" is exercised in both).

use super::xfer::*;
use crate::core::*;
use crate::simnet::*;
use crate::spec::*;
use crate::wire;
use proptest::prelude::*;
use serde::{Deserialize, Serialize};
use std::cell::RefCell;
use std::collections::{BTreeMap, BTreeSet};
use std::net::SocketAddr;
use std::rc::Rc;
use std::sync::atomic::Ordering;

// ---------------------------------------------------------------------------------------------
// Scenario
// ---------------------------------------------------------------------------------------------

/// Addresses the client can be reachable at. Index 0 is the one the connection is established from.
pub fn pool() -> Vec<SocketAddr> {
    vec![
        addr_v6(1, 5000), // 0: established address
        addr_v6(1, 5001), // 1: port-only change (NAT rebinding), IPv6
        addr_v6(7, 5000), // 2: full address change, IPv6
        addr_v4(1, 5000), // 3: v6 -> v4
        addr_v4(1, 6001), // 4: port-only change within IPv4 (quinn keeps RTT/congestion state for these)
        addr_v4(9, 5000), // 5: full address change within IPv4
    ]
}

/// Addresses only the attacker sends from (nobody receives there)
pub fn outside(n: u8) -> SocketAddr {
    if n % 2 == 0 {
        addr_v6(0x66 + n as u16, 6666)
    } else {
        addr_v4(66 + (n % 100), 6666)
    }
}

/// Wrong source addresses for datagrams towards the client
pub fn fake_server(n: u8) -> SocketAddr {
    match n % 3 {
        0 => addr_v6(2, 4434),
        1 => addr_v6(0x99, 4433),
        _ => addr_v4(2, 4433),
    }
}

#[derive(Clone, Debug, Serialize, Deserialize, PartialEq)]
pub struct Move {
    /// distance from the previous move (the first: from handshake completion) in eighths of the path RTT
    pub gap8: u16,
    /// index into `pool()`
    pub to: u8,
    /// the client application knows (calls `local_address_changed`, which sends a PING) - otherwise a silent rebinding
    pub notify: bool,
}

#[derive(Clone, Debug, Serialize, Deserialize, PartialEq)]
pub enum Src {
    /// an address the client uses at some other time
    Pool(u8),
    /// an address nobody listens on
    Outside(u8),
    /// the client's current IP address with another port
    PortOnly,
}

#[derive(Clone, Debug, Serialize, Deserialize, PartialEq)]
pub enum When {
    /// on-path capture and race: the copy arrives after `frac`/256 of the one-way latency, before the original
    Race { frac: u8 },
    /// the copy arrives this long after the original's nominal arrival
    Stale { delay_us: u32 },
}

/// Attacker action on `run` consecutive datagrams starting with the `nth` the sender emits after the
/// handshake: re-send a copy from another source address; with `steal` the original never arrives.
#[derive(Clone, Debug, Serialize, Deserialize, PartialEq)]
pub struct Spoof {
    pub nth: u16,
    pub run: u8,
    pub src: Src,
    pub when: When,
    pub steal: bool,
}

#[derive(Clone, Debug, Serialize, Deserialize, PartialEq)]
pub struct ToClient {
    pub nth: u16,
    pub run: u8,
    pub src: u8,
    pub when: When,
    pub steal: bool,
}

#[derive(Clone, Debug, Serialize, Deserialize, PartialEq)]
pub struct Mig {
    pub x: Xfer,
    pub moves: Vec<Move>,
    /// copies of client datagrams delivered to the server from other addresses
    pub spoofs: Vec<Spoof>,
    /// copies of server datagrams delivered to the client from other addresses
    pub to_client: Vec<ToClient>,
    /// link verdicts for successive datagrams carrying PATH_CHALLENGE after the handshake (true = lost)
    pub drop_pc: Vec<bool>,
    /// same for PATH_RESPONSE
    pub drop_pr: Vec<bool>,
}

fn gen() -> XferGen {
    XferGen { max_faults: 30, aux_ops: 2, feasible: true, max_total: 100_000, max_streams: 3, rustls_share: 4, ..XferGen::default() }
}

fn default_stream(total: u32) -> StreamSpec {
    StreamSpec {
        bidi: false,
        total,
        chunks: vec![u32::MAX],
        use_write_chunks: false,
        end: EndSpec::Finish,
        reader: ReaderSpec { ordered: true, switch_unordered_after: None, max_len: u32::MAX, chunks_per_turn: 0, stop: None },
        resp_total: 0,
        resp_reader_ordered: true,
        priority: 0,
    }
}

fn arb_when() -> impl Strategy<Value = When> {
    prop_oneof![
        3 => (0u8..=255).prop_map(|frac| When::Race { frac }),
        2 => prop_oneof![Just(1u32), 1u32..20_000, 20_000u32..2_000_000].prop_map(|delay_us| When::Stale { delay_us }),
    ]
}

fn arb_src() -> impl Strategy<Value = Src> {
    prop_oneof![3 => (0u8..6).prop_map(Src::Outside), 2 => (0u8..6).prop_map(Src::Pool), 2 => Just(Src::PortOnly)]
}

pub fn arb_mig(migration: bool) -> impl Strategy<Value = Mig> {
    let mv = (prop_oneof![3 => 1u16..10, 3 => 10u16..80, 2 => 80u16..400], 0u8..6, prop_oneof![2 => Just(false), 1 => Just(true)]).prop_map(|(gap8, to, notify)| Move { gap8, to, notify });
    let spoof = (prop_oneof![2 => 0u16..20, 2 => 0u16..200], 1u8..5, arb_src(), arb_when(), prop_oneof![3 => Just(false), 1 => Just(true)]).prop_map(|(nth, run, src, when, steal)| Spoof { nth, run, src, when, steal });
    let tc = (prop_oneof![2 => 0u16..20, 2 => 0u16..200], 1u8..5, 0u8..3, arb_when(), prop_oneof![3 => Just(false), 1 => Just(true)]).prop_map(|(nth, run, src, when, steal)| ToClient { nth, run, src, when, steal });
    let lossy = || prop_oneof![2 => Just(vec![]), 2 => prop::collection::vec(prop_oneof![1 => Just(false), 2 => Just(true)], 1..6)];
    let cidlife = || prop_oneof![2 => Just(None), 1 => (20u32..3000).prop_map(Some)];
    (
        arb_xfer(gen()),
        prop::collection::vec(mv, 0..5),
        prop::collection::vec(spoof, 0..5),
        prop::collection::vec(tc, 0..4),
        (lossy(), lossy()),
        (cidlife(), cidlife(), 4u8..=12, 4u8..=12, prop_oneof![20u32..300, 300u32..3000]),
        // a client that only downloads: after an address change its packets carry nothing but ACKs
        prop::bool::weighted(0.25),
    )
        .prop_map(move |(x, moves, spoofs, to_client, (drop_pc, drop_pr), (lc, ls, ccl, scl, ka), dl)| normalize_mig(Mig { x, moves, spoofs, to_client, drop_pc, drop_pr }, migration, (lc, ls, ccl, scl, ka), dl))
}

fn normalize_mig(mut m: Mig, migration: bool, (lc, ls, ccl, scl, ka): (Option<u32>, Option<u32>, u8, u8, u32), download_only: bool) -> Mig {
    let x = &mut m.x;
    x.net.srv.migration = migration;
    x.net.mtu_steps.clear();
    // Known findings of other properties, excluded by construction (see C02/C08): padded ACK-only
    // packets exhausting the congestion window, zero-length server CIDs combined with Retry.
    x.net.client_tc.pad_to_mtu = false;
    x.net.server_tc.pad_to_mtu = false;
    // A peer can only be followed (and a datagram from an unexpected address only be attributed to a
    // connection and then ignored by it) when connection IDs are in use: zero-length CIDs route by
    // address. Hashed CIDs keep their fixed length.
    if x.net.client_ep.cid_len == 0 {
        x.net.client_ep.cid_len = ccl;
    }
    if x.net.server_ep.cid_len == 0 {
        x.net.server_ep.cid_len = scl;
    }
    if x.net.client_ep.cid_lifetime_ms.is_none() {
        x.net.client_ep.cid_lifetime_ms = lc;
    }
    if x.net.server_ep.cid_lifetime_ms.is_none() {
        x.net.server_ep.cid_lifetime_ms = ls;
    }
    // "provided the client keeps sending from there": a client whose address was rebound silently and
    // that has nothing to say can never be found by the server; the client's keep-alive is the sender of
    // last resort (it fires once after the interval without incoming packets; the unacknowledged PING is
    // then repeated by the probe timer)
    if x.net.client_tc.keep_alive_ms.is_none() {
        x.net.client_tc.keep_alive_ms = Some(ka);
    }
    // transfers in both directions
    if x.client.streams.iter().all(|s| s.total < 3000) {
        x.client.streams.push(default_stream(40_000));
    }
    if x.server.streams.iter().all(|s| s.total < 3000 && s.resp_total < 3000) {
        x.server.streams.push(default_stream(40_000));
    }
    if download_only {
        x.client.streams.clear();
        x.client.ops.clear();
        x.server.streams.retain(|s| !s.bidi);
        x.server.streams.push(default_stream(60_000));
    }
    m.x = normalize(m.x.clone(), gen());
    if m.moves.is_empty() && m.spoofs.is_empty() && m.to_client.is_empty() {
        m.moves.push(Move { gap8: 12, to: 2, notify: false });
    }
    m
}

// ---------------------------------------------------------------------------------------------
// The link: address plan, attacker, targeted loss
// ---------------------------------------------------------------------------------------------

#[derive(Clone, Debug)]
pub struct CopyRec {
    pub copy_id: u64,
    pub orig_id: u64,
    pub from: SocketAddr,
    pub to: SocketAddr,
    pub emitted: u64,
    pub at: u64,
    pub race: bool,
    pub steal: bool,
}

#[derive(Default, Debug)]
pub struct HookLog {
    pub copy_of: BTreeMap<u64, u64>,
    pub copies: Vec<CopyRec>,
    pub dropped: BTreeMap<u64, &'static str>,
    pub n_c2s: u64,
    pub n_s2c: u64,
    pub pc_i: usize,
    pub pr_i: usize,
    /// no more attacker actions or targeted losses (settling phase)
    pub quiet: bool,
    pub last_action_at: u64,
}

struct HookCfg {
    plan: Vec<(u64, SocketAddr)>,
    server: SocketAddr,
    pool: Vec<SocketAddr>,
    spoofs: Vec<Spoof>,
    to_client: Vec<ToClient>,
    drop_pc: Vec<bool>,
    drop_pr: Vec<bool>,
    lat: [u64; 2],
    /// connection ID lengths: [client's, server's]
    cid_len: [usize; 2],
    sim: bool,
    /// twin run: everything the receiver would see coming from a foreign address is removed on the link
    twin: bool,
    nomig: bool,
}

fn addr_at(plan: &[(u64, SocketAddr)], t: u64) -> SocketAddr {
    let mut a = plan[0].1;
    for &(at, addr) in plan {
        if at <= t {
            a = addr;
        }
    }
    a
}

fn has_frame(bytes: &[u8], short_cid_len: usize, pred: impl Fn(&wire::Frame) -> bool) -> bool {
    for p in wire::decode_datagram(bytes, short_cid_len) {
        let Ok(p) = p else { break };
        if p.ty.space().is_none() {
            continue;
        }
        if let Ok(fr) = wire::decode_frames(&p.payload) {
            if fr.iter().any(&pred) {
                return true;
            }
        }
    }
    false
}

fn make_hook(cfg: HookCfg, log: Rc<RefCell<HookLog>>) -> LinkHook {
    Box::new(move |now, next_id, base: &mut InFlight| -> Vec<InFlight> {
        let mut log = log.borrow_mut();
        let mut extra: Vec<InFlight> = vec![];
        let mut drop: Option<&'static str> = None;
        let when_at = |w: &When, now: u64, base_at: u64, lat: u64| -> (u64, bool) {
            match w {
                When::Race { frac } => (now + lat * (*frac as u64) / 256, true),
                When::Stale { delay_us } => (base_at + *delay_us as u64, false),
            }
        };
        if base.to == cfg.server {
            let n = log.n_c2s;
            log.n_c2s += 1;
            let cur = addr_at(&cfg.plan, now);
            base.from = cur;
            if cfg.twin && cfg.nomig && cur != cfg.pool[0] {
                drop = Some("twin-foreign");
            }
            if !log.quiet && drop.is_none() {
                for s in &cfg.spoofs {
                    if n < s.nth as u64 || n >= s.nth as u64 + s.run as u64 {
                        continue;
                    }
                    let from = match s.src {
                        Src::Pool(i) => cfg.pool[i as usize % cfg.pool.len()],
                        Src::Outside(i) => outside(i),
                        Src::PortOnly => SocketAddr::new(cur.ip(), cur.port() ^ 0x155),
                    };
                    if from == cur {
                        continue;
                    }
                    log.last_action_at = now;
                    if s.steal {
                        drop = Some("stolen");
                    }
                    if cfg.twin {
                        continue;
                    }
                    let (at, race) = when_at(&s.when, now, base.at, cfg.lat[0]);
                    let id = next_id + extra.len() as u64;
                    let mut c = base.clone();
                    c.at = at;
                    c.from = from;
                    c.copy = 100;
                    c.injected = true;
                    log.copy_of.insert(id, base.dgram_id);
                    log.copies.push(CopyRec { copy_id: id, orig_id: base.dgram_id, from, to: base.to, emitted: now, at, race, steal: s.steal });
                    extra.push(c);
                }
                if cfg.sim && log.pr_i < cfg.drop_pr.len() && drop.is_none() && has_frame(&base.bytes, cfg.cid_len[1], |f| matches!(f, wire::Frame::PathResponse(_))) {
                    if cfg.drop_pr[log.pr_i] {
                        drop = Some("path-response-lost");
                        log.last_action_at = now;
                    }
                    log.pr_i += 1;
                }
            }
        } else {
            let n = log.n_s2c;
            log.n_s2c += 1;
            let is_pool = cfg.pool.contains(&base.to);
            if is_pool && addr_at(&cfg.plan, base.at) != base.to {
                drop = Some("client-not-there");
            }
            if !log.quiet && drop.is_none() && is_pool {
                for s in &cfg.to_client {
                    if n < s.nth as u64 || n >= s.nth as u64 + s.run as u64 {
                        continue;
                    }
                    let from = fake_server(s.src);
                    log.last_action_at = now;
                    if s.steal {
                        drop = Some("stolen");
                    }
                    if cfg.twin {
                        continue;
                    }
                    let (at, race) = when_at(&s.when, now, base.at, cfg.lat[1]);
                    if addr_at(&cfg.plan, at) != base.to {
                        continue;
                    }
                    let id = next_id + extra.len() as u64;
                    let mut c = base.clone();
                    c.at = at;
                    c.from = from;
                    c.copy = 100;
                    c.injected = true;
                    log.copy_of.insert(id, base.dgram_id);
                    log.copies.push(CopyRec { copy_id: id, orig_id: base.dgram_id, from, to: base.to, emitted: now, at, race, steal: s.steal });
                    extra.push(c);
                }
                if cfg.sim && log.pc_i < cfg.drop_pc.len() && drop.is_none() && has_frame(&base.bytes, cfg.cid_len[0], |f| matches!(f, wire::Frame::PathChallenge(_))) {
                    if cfg.drop_pc[log.pc_i] {
                        drop = Some("path-challenge-lost");
                        log.last_action_at = now;
                    }
                    log.pc_i += 1;
                }
            }
        }
        if let Some(why) = drop {
            log.dropped.insert(base.dgram_id, why);
            base.bytes.clear();
        }
        extra
    })
}

// ---------------------------------------------------------------------------------------------
// Running a scenario
// ---------------------------------------------------------------------------------------------

/// Server path state as reported by the verification probe
#[derive(Clone, Debug, PartialEq)]
pub struct PathS {
    pub remote: SocketAddr,
    pub validated: bool,
    /// PTO of the application data space on the current path (µs)
    pub pto: u64,
    pub prev: Option<SocketAddr>,
    pub pv_armed: bool,
}

#[derive(Clone, Debug)]
pub struct Change {
    pub t: u64,
    pub before: PathS,
    pub after: PathS,
}

fn sample_path(c: &ConnState) -> PathS {
    let p = c.c.verif_probe();
    PathS {
        remote: p.path_remote.unwrap_or_else(|| c.c.remote_address()),
        validated: p.path_validated,
        pto: p.pto[2].as_micros() as u64,
        prev: p.prev_path_remote,
        pv_armed: p.timers_armed.contains(&"PathValidation"),
    }
}

#[derive(Default)]
struct Sampler {
    sk: usize,
    ck: usize,
    last: Option<PathS>,
    changes: Vec<Change>,
    client_remote_changed: Option<(u64, SocketAddr)>,
    steps: u64,
    /// (time, PTO of the data space) whenever the sampled value changed
    pto_log: Vec<(u64, u64)>,
}

impl Sampler {
    fn step(&mut self, w: &World) {
        self.steps += 1;
        if let Some(c) = w.conns.get(self.sk) {
            if !c.gone {
                let s = sample_path(c);
                if self.pto_log.last().map_or(true, |l| l.1 != s.pto) {
                    self.pto_log.push((w.now, s.pto));
                }
                if let Some(l) = &self.last {
                    if l.remote != s.remote || l.validated != s.validated {
                        self.changes.push(Change { t: w.now, before: l.clone(), after: s.clone() });
                    }
                }
                self.last = Some(s);
            }
        }
        if let Some(c) = w.conns.get(self.ck) {
            if !c.gone && self.client_remote_changed.is_none() {
                let r = c.c.remote_address();
                if r != w.eps[SERVER_EP].addrs[0] {
                    self.client_remote_changed = Some((w.now, r));
                }
            }
        }
    }
}

pub struct MigRun {
    pub w: World,
    pub ck: usize,
    pub sk: usize,
    pub t0: u64,
    /// (time, address, notify); entry 0 is the established address at time 0
    pub plan: Vec<(u64, SocketAddr, bool)>,
    pub log: HookLog,
    pub first: PathS,
    pub changes: Vec<Change>,
    pub pto_log: Vec<(u64, u64)>,
    pub client_remote_changed: Option<(u64, SocketAddr)>,
    pub completed_at: Option<u64>,
    pub deadline: u64,
    /// when the server first got a datagram from the client's final address after the last disturbance
    pub client_heard: Option<u64>,
    /// settling phase: (start, stop condition met at, end)
    pub settle: Option<(u64, Option<u64>, u64)>,
    pub last: PathS,
}

fn lost_any(w: &World) -> bool {
    w.conns.iter().any(|c| !c.app.lost.is_empty())
}

fn set_now(w: &mut World, t: u64) {
    if w.now < t {
        w.now = t;
        w.clock.0.store(t, Ordering::Relaxed);
    }
}

pub fn run_mig(m: &Mig, twin: bool) -> Result<MigRun, CaseOut> {
    let x = &m.x;
    let pool = pool();
    let mut w = World::new(x.net.clone());
    // the 3x inequality is evaluated after the run by this check's own ledger (which can tell causes apart)
    w.check_amp = false;
    for a in &pool[1..] {
        w.eps[CLIENT_EP].addrs.push(*a);
    }
    let ck = match w.connect(CLIENT_EP, ConnLoad { client: x.client.clone(), server: x.server.clone() }) {
        Ok(k) => k,
        Err(e) => return Err(CaseOut::discard(format!("connect failed: {e:?}"))),
    };
    // ---- phase A: the handshake (address changes are quantified over "any point after the handshake")
    let mut idx = 0usize;
    let mut confirmed = false;
    let ok = w.run(120_000_000, |w| {
        while idx < w.trace.len() {
            if let Rec::Ev { conn, ev, .. } = &w.trace[idx] {
                if *conn == ck && ev.contains("HandshakeConfirmed") {
                    confirmed = true;
                }
            }
            idx += 1;
        }
        (confirmed && w.conns.len() >= 2 && w.conns.iter().all(|c| c.app.connected)) || lost_any(w)
    });
    if !ok || w.hit_step_limit {
        return Err(CaseOut::inconclusive("step limit during the handshake"));
    }
    if !w.viol.is_empty() {
        let v = w.collect_violations();
        return Err(CaseOut::fail(format!("{}@handshake", v[0].sig), v[0].msg.clone()));
    }
    let servers: Vec<usize> = w.conns.iter().enumerate().filter(|(_, c)| c.side.is_server()).map(|(k, _)| k).collect();
    if !confirmed || lost_any(&w) || servers.len() != 1 || !w.conns.iter().all(|c| c.app.connected) {
        return Err(CaseOut::discard("handshake did not complete within 120 virtual seconds (outside the domain; liveness of the handshake is C02)"));
    }
    let sk = servers[0];
    let t0 = w.now;
    // ---- the address plan in absolute time
    let unit = (x.net.latency_us[0] as u64 + x.net.latency_us[1] as u64) / 8 + 50;
    let mut plan: Vec<(u64, SocketAddr, bool)> = vec![(0, pool[0], false)];
    let mut t = t0;
    for mv in &m.moves {
        t += mv.gap8 as u64 * unit;
        let a = pool[mv.to as usize % pool.len()];
        if plan.last().unwrap().1 != a {
            plan.push((t, a, mv.notify));
        }
    }
    if !x.net.srv.migration && plan.last().unwrap().1 != pool[0] {
        // a server that forbids migration can only be reached from the established address: the excursion ends
        let gap = m.moves.last().map_or(8, |mv| mv.gap8 as u64);
        plan.push((t + gap * unit, pool[0], false));
    }
    let log = Rc::new(RefCell::new(HookLog::default()));
    w.link_hook = Some(make_hook(
        HookCfg {
            plan: plan.iter().map(|p| (p.0, p.1)).collect(),
            server: w.eps[SERVER_EP].addrs[0],
            pool: pool.clone(),
            spoofs: m.spoofs.clone(),
            to_client: m.to_client.clone(),
            drop_pc: m.drop_pc.clone(),
            drop_pr: m.drop_pr.clone(),
            lat: [x.net.latency_us[0] as u64, x.net.latency_us[1] as u64],
            cid_len: [x.net.client_ep.cid_len as usize, x.net.server_ep.cid_len as usize],
            sim: x.net.crypto == CryptoKind::Sim,
            twin,
            nomig: !x.net.srv.migration,
        },
        log.clone(),
    ));
    let mut sm = Sampler { sk, ck, ..Sampler::default() };
    sm.step(&w);
    let first = sm.last.clone().unwrap();
    let mut aborted = false;
    // ---- phase B: the moves
    for &(at, _, notify) in plan.iter().skip(1) {
        let ok = w.run(at, |w| {
            sm.step(w);
            lost_any(w)
        });
        if !ok || !w.viol.is_empty() || lost_any(&w) {
            aborted = true;
            break;
        }
        set_now(&mut w, at);
        if notify && !w.conns[ck].gone {
            w.conns[ck].c.local_address_changed();
        }
    }
    // ---- phase C: until the workload is complete
    let t_plan_end = plan.last().unwrap().0.max(t0);
    let mut completed_at = None;
    let mut deadline = 0;
    let mut client_heard: Option<u64> = None;
    if !aborted {
        let a_final = plan.last().unwrap().1;
        let mut scan = 0usize;
        let mut heard: Option<u64> = None; // first genuine client datagram from its final address delivered after the last disturbance
        loop {
            let dist = |w: &World| t_plan_end.max(w.last_fault_at).max(log.borrow().last_action_at);
            let t_dist = dist(&w);
            if heard.is_some_and(|t| t < t_dist) {
                heard = None;
            }
            while heard.is_none() && scan < w.trace.len() {
                if let Rec::Rx { t, ep, from, injected: false, routed: Routed::Conn(_), .. } = &w.trace[scan] {
                    if *ep == SERVER_EP && *from == a_final && *t >= t_dist {
                        heard = Some(*t);
                    }
                }
                scan += 1;
            }
            // "provided the client keeps sending from there": the bound runs from the first datagram the
            // server gets from the client's address once the link has stopped interfering
            let b0 = super::c02::bound_us(x, t_dist);
            deadline = match heard {
                Some(t1) => t1 + super::c02::bound_us(x, t1),
                None => t_dist + 4 * b0,
            };
            let before = (w.now, w.step);
            let ok = w.run(deadline, |w| {
                sm.step(w);
                workload_complete(w) || lost_any(w)
            });
            if !ok || !w.viol.is_empty() || lost_any(&w) {
                break;
            }
            if workload_complete(&w) {
                completed_at = Some(w.now);
                break;
            }
            // the link acted again in the meantime (fault stream, attacker, targeted loss), or the client
            // was heard only now: the bound restarts there
            if dist(&w) > t_dist {
                scan = 0;
                continue;
            }
            if heard.is_none() {
                while heard.is_none() && scan < w.trace.len() {
                    if let Rec::Rx { t, ep, from, injected: false, routed: Routed::Conn(_), .. } = &w.trace[scan] {
                        if *ep == SERVER_EP && *from == a_final && *t >= t_dist {
                            heard = Some(*t);
                        }
                    }
                    scan += 1;
                }
                if heard.is_some() && w.now < t_dist + 4 * b0 {
                    continue;
                }
            }
            if w.now >= deadline || (w.now == before.0 && w.step == before.1 + 1) {
                break;
            }
        }
        client_heard = heard;
    }
    // ---- phase D: settle. The link is clean from now on, the client keeps sending (PING) from where it is.
    let mut settle = None;
    if completed_at.is_some() && !w.hit_step_limit {
        log.borrow_mut().quiet = true;
        w.fault_i = [x.net.faults_c2s.len(), x.net.faults_s2c.len()];
        let start = w.now;
        let a_final = plan.last().unwrap().1;
        // a validation attempt that began just before the link became clean (its only challenge was lost while
        // the server was at the 3x limit) has to time out first: three probe timeouts as the server computes
        // them, then the client's next (backed-off) probe starts a new attempt
        let srv_pto_max = sm.pto_log.iter().map(|e| e.1).max().unwrap_or(0);
        let cp = w.conns[ck].c.verif_probe();
        let cli_backoff = (cp.pto[2].as_micros() as u64) << cp.pto_count.min(12);
        let end = start + 60_000_000 + 2 * (start - t0) + 8 * srv_pto_max + 4 * cli_backoff;
        w.conns[ck].c.ping();
        let mut met = None;
        let id0 = w.next_dgram_id;
        let mut ti = w.trace.len();
        let mut delivered = false;
        w.run(end, |w| {
            sm.step(w);
            while ti < w.trace.len() {
                if let Rec::Rx { ep, from, dgram_id, injected: false, routed: Routed::Conn(_), .. } = &w.trace[ti] {
                    if *ep == SERVER_EP && *from == a_final && *dgram_id >= id0 {
                        delivered = true;
                    }
                }
                ti += 1;
            }
            let s = sm.last.as_ref().unwrap();
            let done = delivered && s.remote == a_final && s.validated;
            if done && met.is_none() {
                met = Some(w.now);
            }
            done || lost_any(w)
        });
        if met.is_some() && !lost_any(&w) && w.viol.is_empty() {
            // one more exchange in each direction so that "afterwards" is not vacuous
            w.conns[sk].c.ping();
            w.conns[ck].c.ping();
            let id1 = w.next_dgram_id;
            let more = w.now + 60_000_000;
            let (mut to_c, mut to_s) = (false, false);
            w.run(more, |w| {
                sm.step(w);
                while ti < w.trace.len() {
                    if let Rec::Rx { ep, dgram_id, injected: false, routed: Routed::Conn(_), .. } = &w.trace[ti] {
                        if *dgram_id >= id1 {
                            if *ep == SERVER_EP {
                                to_s = true;
                            } else {
                                to_c = true;
                            }
                        }
                    }
                    ti += 1;
                }
                (to_c && to_s) || lost_any(w)
            });
        }
        settle = Some((start, met, w.now));
    }
    let last = sm.last.clone().unwrap_or(first.clone());
    w.link_hook = None;
    let log = Rc::try_unwrap(log).map(|c| c.into_inner()).unwrap_or_default();
    Ok(MigRun { w, ck, sk, t0, plan, log, first, changes: sm.changes, pto_log: sm.pto_log, client_remote_changed: sm.client_remote_changed, completed_at, deadline, client_heard, settle, last })
}

// ---------------------------------------------------------------------------------------------
// Oracles
// ---------------------------------------------------------------------------------------------

fn is_probing_frame(f: &OF) -> bool {
    matches!(f, OF::Padding(_) | OF::PathChallenge(_) | OF::PathResponse(_) | OF::NewConnectionId { .. })
}

#[derive(Default, Debug)]
pub struct Facts {
    pub labels: BTreeSet<&'static str>,
    pub nontrivial: bool,
    pub migrations: usize,
    pub validations: usize,
    pub reverts: usize,
    pub hijack_attempts: usize,
    pub foreign_to_client: usize,
    pub foreign_to_server: usize,
    pub max_unvalidated_ratio_x100: u64,
    /// a violation that is reported only if nothing else is wrong with the case (so that a recorded
    /// finding does not hide the other oracles)
    pub soft: Option<(String, String)>,
    /// (packet number, time) of server packets with retransmittable content that were sent before the
    /// current path came into use, were never acknowledged, and are no longer tracked
    pub forgotten: Vec<(u64, u64)>,
}

struct DgInfo<'a> {
    pkts: &'a [PktRec],
}

struct Epoch {
    start: u64,
    end: u64,
    remote: SocketAddr,
    /// the path in use before
    from_remote: SocketAddr,
    unvalidated_at_start: bool,
    validated_at: Option<u64>,
    /// PATH_CHALLENGE token in use on this path
    token: Option<u64>,
    /// not visible in the sampled state (the path was given up and re-entered within one instant)
    hidden: bool,
    pre_pto: u64,
    post_pto: u64,
    #[allow(dead_code)]
    prev_before: Option<SocketAddr>,
    by_timeout: bool,
    by_injected: bool,
    /// ledger for this period: received from this address / from anywhere / sent to it
    own: u64,
    all: u64,
    sent: u64,
}

fn describe(m: &Mig, r: &MigRun) -> String {
    let w = &r.w;
    let mut s = String::new();
    s += &format!("t0={}us plan={:?}\n", r.t0, r.plan);
    s += &format!("attacker copies: {:?}\n", r.log.copies.iter().map(|c| format!("#{}<-#{} from {} at {} {}{}", c.copy_id, c.orig_id, c.from, c.at, if c.race { "race" } else { "stale" }, if c.steal { " (original captured)" } else { "" })).collect::<Vec<_>>());
    s += &format!("targeted/link drops by the hook: {:?}\n", r.log.dropped.iter().fold(BTreeMap::new(), |mut m: BTreeMap<&str, u64>, (_, w)| {
        *m.entry(*w).or_insert(0) += 1;
        m
    }));
    s += &format!("server path changes: {:?}\n", r.changes.iter().map(|c| format!("t={} {}({}) -> {}({}) pto {}->{} prev {:?}->{:?}", c.t, c.before.remote, c.before.validated, c.after.remote, c.after.validated, c.before.pto, c.after.pto, c.before.prev, c.after.prev)).collect::<Vec<_>>());
    for c in &w.conns {
        let p = c.c.verif_probe();
        s += &format!(
            "{:?}: connected={} lost={:?} out_complete={} recv_terminal={}/{} remote={} path_validated={} in_flight={} cwnd={} pto_count={} timers={:?} sent/recvd on path={}/{}\n",
            c.side,
            c.app.connected,
            c.app.lost,
            c.app.outgoing_complete(),
            c.app.recv.values().filter(|r| r.terminal.is_some()).count(),
            c.app.recv.len(),
            c.c.remote_address(),
            p.path_validated,
            p.bytes_in_flight,
            p.congestion_window,
            p.pto_count,
            p.timers_armed,
            p.path_total_sent,
            p.path_total_recvd
        );
    }
    s += &format!("now={}us completed_at={:?} deadline={} settle={:?} migration={} link={:?}\n", w.now, r.completed_at, r.deadline, r.settle, m.x.net.srv.migration, w.stats);
    if std::env::var("QV_TRACE").is_ok() {
        for c in &w.conns {
            s += &format!("   fullprobe {:?}: {:?}\n   stats: {:?}\n", c.side, c.c.verif_probe(), c.c.stats());
        }
        for rec in w.trace.iter() {
            let t = format!("{rec:?}");
            s += &format!("   {}\n", &t[..t.len().min(500)]);
        }
    }
    s
}

type Fail = (String, String);

pub fn analyse(m: &Mig, r: &MigRun) -> Result<Facts, Fail> {
    let x = &m.x;
    let w = &r.w;
    let sim = x.net.crypto == CryptoKind::Sim;
    let migration = x.net.srv.migration;
    let pool = pool();
    let hs = pool[0];
    let server_addr = w.eps[SERVER_EP].addrs[0];
    let (sk, ck) = (r.sk, r.ck);
    let lat = [x.net.latency_us[0] as u64, x.net.latency_us[1] as u64];
    let max_late: u64 = x.net.drv.late_us.iter().map(|&l| l as u64).max().unwrap_or(0);
    let mut facts = Facts::default();
    let fail = |sig: &str, msg: String| -> Fail { (sig.to_string(), format!("{msg}\n{}", describe(m, r))) };
    if r.first.remote != hs || !r.first.validated {
        return Err(fail("c15/harness/initial-path", format!("after the handshake the server path is {:?}", r.first)));
    }

    // ---- datagram table and the server's PATH_CHALLENGE emissions
    let mut dg: BTreeMap<u64, DgInfo> = BTreeMap::new();
    let mut token_events: Vec<(u64, SocketAddr, u64)> = vec![]; // (t, dst, token), first emission of each (dst, token)
    {
        let mut seen: BTreeSet<(SocketAddr, u64)> = BTreeSet::new();
        for rec in &w.trace {
            if let Rec::Tx { t, conn, dst, dgrams, .. } = rec {
                for d in dgrams {
                    dg.insert(d.id, DgInfo { pkts: &d.pkts });
                    if *conn == sk {
                        for f in d.pkts.iter().flat_map(|p| p.frames.iter().flatten()) {
                            if let OF::PathChallenge(tok) = f {
                                if seen.insert((*dst, *tok)) {
                                    token_events.push((*t, *dst, *tok));
                                }
                            }
                        }
                    }
                }
            }
        }
    }
    let orig_of = |id: u64| -> u64 { r.log.copy_of.get(&id).copied().unwrap_or(id) };
    let pto_before = |t: u64| r.pto_log.iter().take_while(|e| e.0 < t).last().map_or(r.first.pto, |e| e.1);
    let pto_at = |t: u64| r.pto_log.iter().take_while(|e| e.0 <= t).last().map_or(r.first.pto, |e| e.1);
    let pto_max_until = |t: u64| r.pto_log.iter().take_while(|e| e.0 <= t).map(|e| e.1).max().unwrap_or(r.first.pto).max(r.first.pto);

    // ---- path epochs: periods during which the server used one path object. Delimited by the sampled
    // path state (remote changed, or validated -> unvalidated) and, for changes that cancel out within
    // one instant (validation timer fires and the next packet re-migrates to the same address), by the
    // appearance of a new PATH_CHALLENGE token for the same address.
    let mut epochs: Vec<Epoch> = vec![Epoch {
        start: 0,
        end: u64::MAX,
        remote: r.first.remote,
        from_remote: r.first.remote,
        unvalidated_at_start: false,
        validated_at: None,
        token: None,
        hidden: false,
        pre_pto: r.first.pto,
        post_pto: r.first.pto,
        prev_before: None,
        by_timeout: false,
        by_injected: false,
        own: 0,
        all: 0,
        sent: 0,
    }];
    {
        let mut ti = 0usize;
        let mut apply_tokens = |epochs: &mut Vec<Epoch>, upto: u64, inclusive: bool| {
            while ti < token_events.len() && (token_events[ti].0 < upto || (inclusive && token_events[ti].0 == upto)) {
                let (t, dst, tok) = token_events[ti];
                ti += 1;
                let e = epochs.last_mut().unwrap();
                if e.remote != dst {
                    continue; // challenge on the previous path
                }
                match e.token {
                    None => e.token = Some(tok),
                    Some(old) if old != tok => {
                        e.end = t;
                        let from_remote = e.from_remote;
                        let remote = e.remote;
                        epochs.push(Epoch {
                            start: t,
                            end: u64::MAX,
                            remote,
                            from_remote,
                            unvalidated_at_start: true,
                            validated_at: None,
                            token: Some(tok),
                            hidden: true,
                            pre_pto: pto_max_until(t),
                            post_pto: pto_at(t),
                            prev_before: None,
                            by_timeout: false,
                            by_injected: false,
                            own: 0,
                            all: 0,
                            sent: 0,
                        });
                    }
                    _ => {}
                }
            }
        };
        for c in &r.changes {
            apply_tokens(&mut epochs, c.t, false);
            if c.before.remote != c.after.remote || (c.before.validated && !c.after.validated) {
                let from_remote = epochs.last().unwrap().remote;
                epochs.last_mut().unwrap().end = c.t;
                epochs.push(Epoch {
                    start: c.t,
                    end: u64::MAX,
                    remote: c.after.remote,
                    from_remote,
                    unvalidated_at_start: !c.after.validated,
                    validated_at: None,
                    token: None,
                    hidden: false,
                    pre_pto: c.before.pto.max(pto_before(c.t)),
                    post_pto: c.after.pto,
                    prev_before: c.before.prev,
                    by_timeout: false,
                    by_injected: false,
                    own: 0,
                    all: 0,
                    sent: 0,
                });
            } else if c.after.validated && !c.before.validated {
                apply_tokens(&mut epochs, c.t, true);
                let e = epochs.last_mut().unwrap();
                if e.validated_at.is_none() {
                    e.validated_at = Some(c.t);
                }
            }
        }
        apply_tokens(&mut epochs, u64::MAX, false);
    }
    // worst violation of the 3x limit seen: (rank, signature, message)
    let mut limit_viol: Option<(u8, &'static str, String)> = None;

    // ---- single pass: ledgers
    let mut recvd: BTreeMap<SocketAddr, u64> = BTreeMap::new();
    let mut sent: BTreeMap<SocketAddr, u64> = BTreeMap::new();
    let mut challenges_to: BTreeMap<SocketAddr, Vec<(u64, u64)>> = BTreeMap::new(); // addr -> (t, token)
    let mut validated_at: BTreeMap<SocketAddr, u64> = BTreeMap::new();
    validated_at.insert(hs, 0);
    if !sim {
        // frames are not visible under real packet protection: take the server's word for validation
        for c in r.changes.iter().filter(|c| c.after.validated) {
            validated_at.entry(c.after.remote).or_insert(c.t);
        }
    }
    let mut responses: Vec<(u64, SocketAddr, u64)> = vec![]; // matching responses: (t, from, token)
    let mut max_pn: Option<u64> = None;
    // deliveries that may move the server: (t, from, dgram id, injected)
    let mut qualifying: Vec<(u64, SocketAddr, u64, bool)> = vec![];
    // (t delivered, upper bound of the RTT sample the ACK frame can have produced). Mirrors the library:
    // the sample is taken against the send time of the largest acknowledged packet *it tracks*; the
    // PATH_CHALLENGE probe for a previous path is not tracked, so acknowledging it as the largest leaves
    // the older send time in place. Two steps of slack in case an ACK seen here was not processed.
    let mut acks_to_server: Vec<(u64, u64)> = vec![];
    let mut largest_acked: Option<u64> = None;
    let mut las_hist: Vec<u64> = vec![0];
    let mut maybe_untracked: BTreeSet<u64> = BTreeSet::new();
    let mut server_pn_sent_at: BTreeMap<u64, u64> = BTreeMap::new();
    let mut ok_for_client: BTreeSet<u64> = BTreeSet::new(); // server pns delivered to the client from the server's address
    let mut ok_for_server: BTreeSet<u64> = BTreeSet::new(); // client pns delivered to the server from the established address
    let mut verified_c: BTreeSet<u64> = BTreeSet::new();
    let mut verified_s: BTreeSet<u64> = BTreeSet::new();
    let mut srv_timeouts: BTreeSet<u64> = BTreeSet::new();
    let mut server_tx: Vec<(u64, SocketAddr, bool)> = vec![]; // (t, dst, lone PATH_CHALLENGE probe)
    let mut server_pkts: Vec<(u64, u64, bool)> = vec![]; // (pn, t, carries frames that need retransmission when lost)
    let mut ack_ranges_to_server: BTreeSet<(u64, u64)> = BTreeSet::new();
    let mut ever_remote: BTreeSet<SocketAddr> = BTreeSet::new();
    ever_remote.insert(hs);
    for c in &r.changes {
        ever_remote.insert(c.after.remote);
    }
    for rec in &w.trace {
        match rec {
            Rec::Timeout { t, conn, spurious: false, .. } if *conn == sk => {
                srv_timeouts.insert(*t);
            }
            Rec::Rx { t, ep, from, dgram_id, size, routed: Routed::Conn(k), corrupted, injected, .. } => {
                let info = dg.get(&orig_of(*dgram_id));
                if *ep == SERVER_EP && *k == sk {
                    *recvd.entry(*from).or_insert(0) += *size as u64;
                    for e in epochs.iter_mut().filter(|e| e.start <= *t && *t <= e.end) {
                        e.all += *size as u64;
                        if e.remote == *from {
                            e.own += *size as u64;
                        }
                    }
                    if *from != hs && *t >= r.t0 {
                        facts.foreign_to_server += 1;
                    }
                    if let (Some(info), false) = (info, *corrupted) {
                        for p in info.pkts.iter().filter(|p| p.ty == wire::PktType::Short) {
                            let Some(fr) = &p.frames else { continue };
                            if *from == hs {
                                ok_for_server.insert(p.pn);
                            }
                            if max_pn.map_or(true, |m| p.pn > m) {
                                max_pn = Some(p.pn);
                                if !fr.iter().all(is_probing_frame) {
                                    qualifying.push((*t, *from, *dgram_id, *injected));
                                }
                            }
                            for f in fr {
                                match f {
                                    OF::PathResponse(tok) => {
                                        if challenges_to.get(from).is_some_and(|v| v.iter().any(|(_, c)| c == tok)) {
                                            validated_at.entry(*from).or_insert(*t);
                                            responses.push((*t, *from, *tok));
                                        }
                                    }
                                    OF::Ack { largest, ranges, .. } => {
                                        if largest_acked.map_or(true, |l| *largest > l) {
                                            largest_acked = Some(*largest);
                                            if !maybe_untracked.contains(largest) {
                                                if let Some(ts) = server_pn_sent_at.get(largest) {
                                                    las_hist.push(*ts);
                                                }
                                            }
                                        }
                                        let las = las_hist[las_hist.len().saturating_sub(3)];
                                        acks_to_server.push((*t, t.saturating_sub(las)));
                                        ack_ranges_to_server.extend(ranges.iter().copied());
                                    }
                                    _ => {}
                                }
                            }
                        }
                    }
                } else if *ep == CLIENT_EP && *k == ck {
                    if *from != server_addr {
                        facts.foreign_to_client += 1;
                    }
                    if let (Some(info), false) = (info, *corrupted) {
                        if *from == server_addr {
                            for p in info.pkts.iter().filter(|p| p.ty == wire::PktType::Short) {
                                ok_for_client.insert(p.pn);
                            }
                        }
                    }
                }
            }
            Rec::Tx { t, conn, dst, dgrams, .. } if *conn == sk => {
                for d in dgrams {
                    // (2) limit. An address counts as validated from the handshake, or from the delivery, from
                    // that very address, of a PATH_RESPONSE echoing a PATH_CHALLENGE sent to it.
                    let valid = validated_at.get(dst).is_some_and(|v| *v <= *t);
                    let (rc, st) = (recvd.get(dst).copied().unwrap_or(0), sent.get(dst).copied().unwrap_or(0));
                    let ep = epochs.iter_mut().rev().find(|e| e.start <= *t && *t <= e.end && e.remote == *dst);
                    if !valid && sim {
                        // reference accounting: per period of use of the path (the budget of an earlier,
                        // abandoned period is not carried over, nor is its overshoot), bytes from that address only
                        let (l1, l2, l3) = match ep.as_ref() {
                            Some(e) => (st + 1 <= 3 * rc, e.sent + 1 <= 3 * e.own, e.sent + 1 <= 3 * e.all),
                            None => (st + 1 <= 3 * rc, st + 1 <= 3 * rc, false),
                        };
                        if l2 && !l1 {
                            facts.labels.insert("limit:budget-renewed-by-repeated-migration");
                        }
                        if !l2 {
                            let mtu_probe = d.size >= 1200 && d.pkts.len() == 1 && d.pkts[0].frames.as_ref().is_some_and(|fr| fr.iter().all(|f| matches!(f, OF::Ping | OF::ImmediateAck | OF::Padding(_))) && fr.contains(&OF::Ping));
                            let (rank, sig, why) = if mtu_probe {
                                (2, "c15/limit/mtu-probe-not-limited", "the datagram is a path MTU discovery probe (PING + padding): probes are sent without consulting the limit")
                            } else if l3 {
                                (3, "c15/limit/credit-from-other-addresses", "the server stays within 3x only if datagrams that arrived from OTHER addresses while this path was current are counted as received from it")
                            } else {
                                (4, "c15/limit", "no accounting explains it")
                            };
                            if limit_viol.as_ref().map_or(true, |v| v.0 < rank) {
                                limit_viol = Some((
                                    rank,
                                    sig,
                                    format!(
                                        "t={t}: the server emits a {}-byte datagram to {dst}, which has not been validated (no PATH_RESPONSE echoing a challenge sent there was delivered from it); in this period of use of the path (since t={:?}) it had already sent {:?} bytes there and received {:?} bytes from it (limit 3x; {:?} bytes if datagrams from every address are counted; over the whole connection: sent {st}, received {rc}); {why}",
                                        d.size,
                                        ep.as_ref().map(|e| e.start),
                                        ep.as_ref().map(|e| e.sent),
                                        ep.as_ref().map(|e| e.own),
                                        ep.as_ref().map(|e| e.all),
                                    ),
                                ));
                            }
                        }
                        if rc > 0 {
                            facts.max_unvalidated_ratio_x100 = facts.max_unvalidated_ratio_x100.max((st + d.size as u64) * 100 / rc);
                        }
                    }
                    if let Some(e) = ep {
                        e.sent += d.size as u64;
                    }
                    *sent.entry(*dst).or_insert(0) += d.size as u64;
                    let mut lone_pc = sim && d.pkts.len() == 1;
                    for p in d.pkts.iter().filter(|p| p.ty == wire::PktType::Short) {
                        server_pn_sent_at.entry(p.pn).or_insert(*t);
                        let Some(fr) = &p.frames else { continue };
                        server_pkts.push((p.pn, *t, fr.iter().any(|f| !matches!(f, OF::Padding(_) | OF::Ping | OF::Ack { .. } | OF::PathChallenge(_) | OF::PathResponse(_) | OF::ImmediateAck | OF::AckFrequency { .. } | OF::Datagram { .. }))));
                        if !fr.iter().all(|f| matches!(f, OF::Padding(_) | OF::PathChallenge(_))) || !fr.iter().any(|f| matches!(f, OF::PathChallenge(_))) {
                            lone_pc = false;
                        }
                        if lone_pc {
                            maybe_untracked.insert(p.pn);
                        }
                        for f in fr {
                            match f {
                                OF::PathChallenge(tok) => challenges_to.entry(*dst).or_default().push((*t, *tok)),
                                OF::Ack { ranges, .. } if !migration => {
                                    for &(lo, hi) in ranges {
                                        for pn in lo..=hi {
                                            if verified_s.contains(&pn) {
                                                continue;
                                            }
                                            if !ok_for_server.contains(&pn) {
                                                return Err(fail(
                                                    "c15/ignore/server-acked-foreign-packet",
                                                    format!("t={t}: the server (migration disabled) acknowledges client packet {pn}, which was never delivered to it from the established address {hs} (only from another address): it did not ignore that datagram"),
                                                ));
                                            }
                                            verified_s.insert(pn);
                                        }
                                    }
                                }
                                _ => {}
                            }
                        }
                    }
                    server_tx.push((*t, *dst, lone_pc));
                }
                if !migration && *dst != hs {
                    return Err(fail("c15/ignore/server-sent-to-foreign-address", format!("t={t}: the server (migration disabled) sends to {dst}; the established address is {hs}")));
                }
            }
            Rec::Tx { t, conn, dst, dgrams, .. } if *conn == ck => {
                if *dst != server_addr {
                    return Err(fail("c15/ignore/client-sent-to-foreign-address", format!("t={t}: the client sends to {dst}; the server is {server_addr}")));
                }
                for p in dgrams.iter().flat_map(|d| d.pkts.iter()).filter(|p| p.ty == wire::PktType::Short) {
                    for f in p.frames.iter().flatten() {
                        if let OF::Ack { ranges, .. } = f {
                            for &(lo, hi) in ranges {
                                for pn in lo..=hi {
                                    if verified_c.contains(&pn) {
                                        continue;
                                    }
                                    if !ok_for_client.contains(&pn) {
                                        return Err(fail(
                                            "c15/ignore/client-acked-foreign-packet",
                                            format!("t={t}: the client acknowledges server packet {pn}, which was never delivered to it from the server's address {server_addr} (only from another address): it did not ignore that datagram"),
                                        ));
                                    }
                                    verified_c.insert(pn);
                                }
                            }
                        }
                    }
                }
            }
            _ => {}
        }
    }
    if let Some((4, sig, msg)) = &limit_viol {
        return Err(fail(sig, msg.clone()));
    }
    if let Some((t, a)) = r.client_remote_changed {
        return Err(fail("c15/ignore/client-remote-changed", format!("t={t}: the client's remote_address() became {a}")));
    }

    // ---- conversely: the highest-numbered non-probing packet (ACK-only packets included) arriving from
    // another address moves the server there at once
    if migration && sim {
        let srv = &w.conns[sk];
        let over = |t: u64| srv.lost_at.is_some_and(|l| l <= t) || srv.closed_at.is_some_and(|l| l <= t);
        let mut instants: Vec<u64> = qualifying.iter().map(|q| q.0).collect();
        instants.dedup();
        for t in instants {
            if t < r.t0 || over(t) || srv_timeouts.contains(&t) {
                continue;
            }
            let Some(q) = qualifying.iter().filter(|q| q.0 == t).last() else { continue };
            let after = r.changes.iter().filter(|c| c.t <= t).last().map_or(r.first.remote, |c| c.after.remote);
            if after != q.1 {
                return Err(fail(
                    "c15/follow/non-probing-packet-not-followed",
                    format!("t={t}: datagram #{} from {} carried the highest-numbered packet so far with frames other than PADDING / PATH_CHALLENGE / PATH_RESPONSE / NEW_CONNECTION_ID, yet the server's path stays {after}", q.2, q.1),
                ));
            }
        }
    }

    // ---- every path change has a cause; "validated" has a reason
    let valid_before = |a: &SocketAddr, t: u64| validated_at.get(a).is_some_and(|v| *v <= t);
    // the path the server must fall back to when a validation fails: the most recently validated one
    let mut last_valid: Option<SocketAddr> = if r.first.validated { Some(r.first.remote) } else { None };
    for c in &r.changes {
        if c.before.validated {
            last_valid = Some(c.before.remote);
        }
        let moved = c.before.remote != c.after.remote;
        let timeout_here = srv_timeouts.contains(&c.t);
        if !migration && moved {
            return Err(fail("c15/ignore/server-path-changed", format!("t={}: the server (migration disabled) changed its path from {} to {}", c.t, c.before.remote, c.after.remote)));
        }
        let q_here: Vec<&(u64, SocketAddr, u64, bool)> = qualifying.iter().filter(|q| q.0 == c.t && q.1 == c.after.remote).collect();
        if moved && sim {
            // the highest-numbered non-probing packet arrived from there, or path validation timed out and
            // the server returns to a path it had validated
            let by_packet = !q_here.is_empty();
            let by_timeout = timeout_here && (c.before.prev == Some(c.after.remote) || valid_before(&c.after.remote, c.t));
            if !by_packet && by_timeout {
                // the validation that just failed was given its time: at least three probe timeouts of the
                // new path (whose RTT estimate starts afresh after a change of IP address)
                if let Some(cin) = r.changes.iter().rev().find(|x| x.t < c.t && x.after.remote == c.before.remote && x.before.remote != x.after.remote) {
                    // (the old path's probe timeout is only known from an earlier sample; the new path's is read
                    // right after the move, so that is what the bound uses)
                    let need = 3 * cin.after.pto;
                    let given = c.t - cin.t;
                    // (the sample is taken at the end of the step in which the move happened and may differ somewhat from
                    // the value the timer was armed with: only a deadline of less than half is an alarm)
                    if !c.before.validated && given * 2 < need && !r.changes.iter().any(|x| x.t > cin.t && x.t < c.t) {
                        return Err(fail(
                            "c15/path-validation-abandoned-early",
                            format!("t={}: the server gave up validating {} after {given} us; it had moved there at t={} with a probe timeout of {} us on the new path (3 x = {need} us; {} us on the old one)", c.t, c.before.remote, cin.t, cin.after.pto, cin.before.pto),
                        ));
                    }
                }
                if let Some(lv) = last_valid {
                    if lv != c.after.remote {
                        return Err(fail(
                            "c15/failed-validation-returned-to-stale-path",
                            format!("t={}: path validation of {} timed out and the server went to {}, but the path it had validated most recently (the one it left for the failed attempt) is {lv}", c.t, c.before.remote, c.after.remote),
                        ));
                    }
                }
            }
            if !by_packet && !by_timeout {
                return Err(fail(
                    "c15/unjustified-path-change",
                    format!(
                        "t={}: the server moved from {} to {} although no non-probing packet with a packet number above all earlier ones arrived from there at that instant (highest delivered so far {:?}) and no path validation timeout returned it to a validated path; deliveries at that instant: {:?}",
                        c.t,
                        c.before.remote,
                        c.after.remote,
                        max_pn,
                        w.trace
                            .iter()
                            .filter_map(|rec| match rec {
                                Rec::Rx { t, ep, from, dgram_id, injected, .. } if *t == c.t && *ep == SERVER_EP => Some(format!("#{dgram_id} from {from} injected={injected} pns={:?}", dg.get(&orig_of(*dgram_id)).map(|i| i.pkts.iter().map(|p| p.pn).collect::<Vec<_>>()))),
                                _ => None,
                            })
                            .collect::<Vec<_>>()
                    ),
                ));
            }
        }
        if c.after.validated {
            last_valid = Some(c.after.remote);
        }
        if let Some(e) = epochs.iter_mut().find(|e| e.start == c.t && !e.hidden) {
            e.by_timeout = timeout_here && q_here.is_empty();
            e.by_injected = !q_here.is_empty() && q_here.iter().all(|q| q.3);
        }
        if c.after.validated && (moved || !c.before.validated) && sim {
            // (1) validated means: a PATH_RESPONSE echoing a challenge sent to this address came back from it
            let xaddr = c.after.remote;
            let since = epochs.iter().rev().find(|e| e.start <= c.t && !e.hidden).map_or(0, |e| e.start);
            let by_response = responses.iter().any(|(tr, from, _)| *from == xaddr && *tr >= since && *tr <= c.t);
            let by_restore = timeout_here && valid_before(&xaddr, c.t);
            if !by_response && !by_restore {
                return Err(fail(
                    "c15/validated-without-response",
                    format!(
                        "t={}: the server treats its path to {xaddr} (in use since t={since}) as validated, but no PATH_RESPONSE echoing a PATH_CHALLENGE sent to {xaddr} was delivered from {xaddr} in that period (challenges sent there: {:?}; matching responses: {:?})",
                        c.t,
                        challenges_to.get(&xaddr),
                        responses
                    ),
                ));
            }
        }
    }
    for e in &epochs {
        if e.start > 0 && e.remote != e.from_remote {
            facts.migrations += 1;
        }
        if e.by_timeout {
            facts.reverts += 1;
        }
        if e.validated_at.is_some() {
            facts.validations += 1;
        }
    }
    let run_end = w.now;
    // ---- (3) an unvalidated path is given up within three probe timeouts unless it was validated
    for e in &epochs {
        if !e.unvalidated_at_start {
            continue;
        }
        if e.by_injected {
            facts.hijack_attempts += 1;
        }
        // upper bound of the PTO the old path had when the migration happened: the sample taken at the
        // previous instant, corrected for RTT samples that ACK frames delivered at the very instant may
        // have contributed before the migration was decided
        // (frames are invisible under real packet protection: any RTT sample up to the connection's age is possible)
        let r_up = if sim { acks_to_server.iter().filter(|(t, _)| *t == e.start).map(|(_, r_up)| *r_up).max() } else { Some(e.start) };
        let pre_up = match r_up {
            Some(ru) => e.pre_pto * 17 / 8 + 3 * ru + 1,
            None => e.pre_pto,
        };
        let nat_like = !e.hidden && e.remote.is_ipv4() && e.remote.ip() == e.from_remote.ip();
        let fresh_up = if nat_like { 0 } else { 3 * x.net.server_tc.initial_rtt_ms as u64 * 1000 + pre_up };
        let d_up = 3 * pre_up.max(e.post_pto).max(fresh_up) + max_late + 2_000;
        let concluded = [e.validated_at, if e.end == u64::MAX { None } else { Some(e.end) }].into_iter().flatten().min();
        let overdue = match concluded {
            Some(t) => t > e.start + d_up,
            None => run_end > e.start + d_up,
        };
        if overdue {
            return Err(fail(
                "c15/path-validation-overdue",
                format!(
                    "the server switched to {} at t={} (caused by {}), the path was {} and it was still in use at t={}: more than three probe timeouts later (PTO before/after the switch {} / {} us, bound used {} us incl. timer lateness {})",
                    e.remote,
                    e.start,
                    if e.by_injected { "an attacker's copy of a genuine packet" } else { "a packet from there" },
                    if concluded.is_some() { "neither validated nor abandoned in time" } else { "never validated nor abandoned" },
                    concluded.unwrap_or(run_end),
                    e.pre_pto,
                    e.post_pto,
                    d_up,
                    max_late
                ),
            ));
        }
    }
    // ---- server datagrams go where the server's path says (observable destinations vs claimed path)
    if sim {
        let mut ci = 0usize;
        let mut cur = r.first.remote;
        for &(t, dst, lone_pc) in &server_tx {
            if t < r.t0 {
                continue;
            }
            while ci < r.changes.len() && r.changes[ci].t < t {
                cur = r.changes[ci].after.remote;
                ci += 1;
            }
            let mut allowed = vec![cur];
            for c in r.changes[ci..].iter().take_while(|c| c.t == t) {
                allowed.push(c.after.remote);
                allowed.extend(c.before.prev);
                allowed.extend(c.after.prev);
            }
            allowed.extend(qualifying.iter().filter(|q| q.0 == t).map(|q| q.1));
            if !allowed.contains(&dst) && !(lone_pc && ever_remote.contains(&dst)) {
                return Err(fail(
                    "c15/datagram-off-path",
                    format!("t={t}: the server emits a datagram to {dst} while its path is {cur} (addresses acceptable at this instant: {allowed:?})"),
                ));
            }
        }
    }
    // ---- the connection is never closed by any of this
    let lost: Vec<_> = w.conns.iter().flat_map(|c| c.app.lost.iter().cloned()).collect();
    if !lost.is_empty() {
        return Err(fail("c15/connection-lost", format!("connection lost although idle timeout is disabled and both peers are honest: {lost:?}")));
    }
    // ---- labels
    for win in r.plan.windows(2) {
        let (a, b) = (win[0].1, win[1].1);
        if a.ip() == b.ip() {
            facts.labels.insert("move:port-only");
        } else if a.is_ipv4() != b.is_ipv4() {
            facts.labels.insert("move:v4<->v6");
        } else {
            facts.labels.insert("move:full-address");
        }
        if r.plan.iter().take_while(|p| p.0 < win[1].0).filter(|p| p.1 == b).count() > 0 {
            facts.labels.insert("move:back");
        }
        if win[1].2 {
            facts.labels.insert("move:notified");
        }
    }
    if epochs.windows(2).any(|e| e[0].unvalidated_at_start && e[0].validated_at.is_none() && !e[1].by_timeout && !e[1].hidden) {
        facts.labels.insert("overlap:moved-again-before-validation");
    }
    if epochs.iter().any(|e| e.hidden) {
        facts.labels.insert("revert-and-remigrate-in-one-instant");
    }
    if facts.reverts > 0 {
        facts.labels.insert("validation-failed:reverted");
    }
    if facts.validations > 0 {
        facts.labels.insert("validated");
    }
    if facts.hijack_attempts > 0 {
        facts.labels.insert("hijack-attempt:server-moved-to-attacker");
    }
    if r.log.dropped.values().any(|w| *w == "path-challenge-lost") {
        facts.labels.insert("challenge-lost");
    }
    if r.log.dropped.values().any(|w| *w == "path-response-lost") {
        facts.labels.insert("response-lost");
    }
    if r.log.copies.iter().any(|c| c.race) {
        facts.labels.insert("copy:race");
    }
    if r.log.copies.iter().any(|c| !c.race) {
        facts.labels.insert("copy:stale");
    }
    if r.log.copies.iter().any(|c| c.steal) {
        facts.labels.insert("copy:captured-original");
    }
    if facts.foreign_to_client > 0 {
        facts.labels.insert("client-got-foreign-source");
    }
    if x.net.client_ep.cid_lifetime_ms.is_some() || x.net.server_ep.cid_lifetime_ms.is_some() {
        facts.labels.insert("cid-rotation");
    }
    if !sim {
        facts.labels.insert("rustls");
    }
    if facts.max_unvalidated_ratio_x100 >= 250 {
        facts.labels.insert("near-3x-limit");
    }
    // ---- non-trivial: an address change or an attacker copy hit while data or a challenge was in flight
    let mut events: Vec<(u64, usize)> = r.plan.iter().skip(1).map(|p| (p.0, 2)).collect();
    for c in &r.log.copies {
        events.push((c.at, if c.to == server_addr { 0 } else { 1 }));
    }
    'ev: for (te, dir) in events {
        for rec in &w.trace {
            if let Rec::Tx { t, conn, dgrams, .. } = rec {
                if *t > te {
                    break;
                }
                let d = if *conn == ck { 0 } else { 1 };
                if (dir != 2 && d != dir) || te >= *t + lat[d] {
                    continue;
                }
                if dgrams.iter().any(|d| d.fate != "hook-drop" && d.pkts.iter().any(|p| p.has(|f| matches!(f, OF::Stream { len, .. } if *len > 0) || matches!(f, OF::PathChallenge(_))))) {
                    facts.nontrivial = true;
                    break 'ev;
                }
            }
        }
    }
    // ---- diagnosis for stalls: retransmittable frames sent on a path that has since been given up,
    // never acknowledged, while the server tracks nothing in flight and has no loss-detection timer
    {
        let p = w.conns[sk].c.verif_probe();
        let cur_start = epochs.last().map_or(0, |e| e.start);
        if p.ack_eliciting_in_flight == 0 && !p.timers_armed.contains(&"LossDetection") && p.state == 1 {
            facts.forgotten = server_pkts
                .iter()
                .filter(|(pn, t, retx)| *retx && *t >= r.t0 && *t <= cur_start && !ack_ranges_to_server.iter().any(|(lo, hi)| lo <= pn && pn <= hi))
                .map(|(pn, t, _)| (*pn, *t))
                .collect();
        }
    }
    facts.soft = limit_viol.map(|(_, sig, msg)| fail(sig, msg));
    Ok(facts)
}

/// Diagnosis: the server counts bytes in flight although no ack-eliciting packet is outstanding (so no
/// loss-detection timer runs), and what is left of the congestion window is less than one datagram.
/// Packets anticipated as ACK-only get a PATH_CHALLENGE attached while the path is unvalidated and are
/// padded to 1200 bytes: counted in flight, but recorded as not ack-eliciting.
fn phantom_in_flight(r: &MigRun) -> Option<String> {
    let p = r.w.conns[r.sk].c.verif_probe();
    if p.state == 1 && p.bytes_in_flight > 0 && p.ack_eliciting_in_flight == 0 && !p.timers_armed.contains(&"LossDetection") && p.bytes_in_flight + p.current_mtu as u64 >= p.congestion_window {
        Some(format!(
            "the server counts {} bytes in flight with no ack-eliciting packet outstanding and no loss-detection timer; with a congestion window of {} it can never send an ack-eliciting packet again (and ACKs queued behind one starve)",
            p.bytes_in_flight, p.congestion_window
        ))
    } else {
        None
    }
}

const PHANTOM_SIG: &str = "c15/stall/padded-path-challenge-on-ack-only-packet-stays-in-flight";

/// (1) follow: judged once the link is clean and the client kept sending from its final address
fn check_follow(m: &Mig, r: &MigRun) -> Result<(), Fail> {
    let w = &r.w;
    let a_final = r.plan.last().unwrap().1;
    let fail = |sig: &str, msg: String| -> Fail { (sig.to_string(), format!("{msg}\n{}", describe(m, r))) };
    let Some((start, met, end)) = r.settle else { return Ok(()) };
    let Some(met) = met else {
        if let Some(why) = phantom_in_flight(r) {
            return Err(fail(PHANTOM_SIG, why));
        }
        return Err(fail(
            "c15/follow/not-at-client-address",
            format!(
                "the client has been at {a_final} since t={} and kept sending from there over a clean link from t={start} to t={end}, yet the server's path is {} (validated: {}); remote_address() = {}",
                r.plan.last().unwrap().0,
                r.last.remote,
                r.last.validated,
                w.conns[r.sk].c.remote_address()
            ),
        ));
    };
    if w.conns[r.sk].c.remote_address() != a_final || r.last.remote != a_final || !r.last.validated {
        return Err(fail("c15/follow/left-client-address", format!("after following the client to {a_final} (t={met}) the server's path became {} (validated {})", r.last.remote, r.last.validated)));
    }
    let mut n = 0;
    for rec in &w.trace {
        if let Rec::Tx { t, conn, dst, .. } = rec {
            if *conn == r.sk && *t >= met {
                n += 1;
                if *dst != a_final {
                    return Err(fail("c15/follow/datagram-to-old-address", format!("t={t}: the server sends to {dst} although it validated the client's path to {a_final} at t<={met} and the client stayed there")));
                }
            }
        }
    }
    if n == 0 {
        if let Some(why) = phantom_in_flight(r) {
            return Err(fail(PHANTOM_SIG, format!("after the transfers completed the server answers nothing any more (not even the client's PINGs): {why}")));
        }
        return Err(fail("c15/harness/settle-vacuous", "the server sent nothing in the settling phase".to_string()));
    }
    Ok(())
}

/// Final application outcome, restricted to what is final in both runs and does not depend on timing
/// (see C04): streams that ended with FIN in both runs and their byte counts, finished sends, loss,
/// connectedness. How a stream that is stopped or reset ends (and whether a stop still beats the FIN)
/// legitimately depends on arrival times, which the removed datagrams' poll instants perturb.
fn outcome(w: &World, other: &World, k: usize) -> String {
    let c = &w.conns[k];
    let o = &other.conns[k];
    let fin = |r: &crate::app::RecvSt| r.terminal == Some("fin");
    format!(
        "recv_fin={:?} send_finished={:?} lost={:?} connected={}",
        c.app.recv.iter().filter(|(id, r)| fin(r) && o.app.recv.get(*id).is_some_and(fin)).map(|(id, r)| (*id, r.bytes)).collect::<Vec<_>>(),
        c.app.send.iter().filter(|(id, s)| s.finished_ev > 0 && o.app.send.get(*id).is_some_and(|x| x.finished_ev > 0)).map(|(id, s)| (*id, s.written)).collect::<Vec<_>>(),
        c.app.lost,
        c.app.connected
    )
}

pub fn case(m: &Mig) -> CaseOut {
    let t_wall = std::time::Instant::now();
    let out = case_inner(m);
    if std::env::var("QV_DEBUG").is_ok() && t_wall.elapsed().as_millis() > 1500 {
        eprintln!("SLOW c15 case {} ms: lat {:?} pacing {:?}/{:?} keepalive {:?}/{:?} cidlife {:?}/{:?}", t_wall.elapsed().as_millis(), m.x.net.latency_us, m.x.net.client_tc.pacing_bps, m.x.net.server_tc.pacing_bps, m.x.net.client_tc.keep_alive_ms, m.x.net.server_tc.keep_alive_ms, m.x.net.client_ep.cid_lifetime_ms, m.x.net.server_ep.cid_lifetime_ms);
    }
    out
}

fn case_inner(m: &Mig) -> CaseOut {
    let x = &m.x;
    let migration = x.net.srv.migration;
    let mut r = match run_mig(m, false) {
        Ok(r) => r,
        Err(o) => return o,
    };
    if r.w.hit_step_limit {
        return CaseOut::inconclusive("step limit");
    }
    // (5) data integrity (application model), driver contract, and the link's own 3x ledger
    for v in r.w.collect_violations() {
        let sig = format!("{}@migration", v.sig);
        return CaseOut::fail(sig, format!("{}\n{}", v.msg, describe(m, &r)));
    }
    let facts = match analyse(m, &r) {
        Ok(f) => f,
        Err((sig, msg)) => return CaseOut::fail(sig, msg),
    };
    let mut labels: Vec<&'static str> = facts.labels.iter().copied().collect();
    // ---- completion ("resumes normal delivery" / the transfer completes)
    let mut twin_compared = false;
    if !migration {
        // (4) twin run: the same scenario with every foreign-address datagram removed on the link
        let r0 = match run_mig(m, true) {
            Ok(r0) => r0,
            Err(_) => return CaseOut::inconclusive("twin run did not get through the handshake"),
        };
        if r0.w.hit_step_limit {
            return CaseOut::inconclusive("step limit (twin)");
        }
        if r0.completed_at.is_some() != r.completed_at.is_some() {
            return CaseOut::fail(
                "c15/ignore/outcome-differs-from-twin",
                format!("workload completed: {:?} with the foreign-address datagrams delivered, {:?} with them removed on the link\n{}", r.completed_at, r0.completed_at, describe(m, &r)),
            );
        }
        if r.w.conns.len() != r0.w.conns.len() {
            return CaseOut::fail("c15/ignore/outcome-differs-from-twin", format!("{} connections vs {} in the twin\n{}", r.w.conns.len(), r0.w.conns.len(), describe(m, &r)));
        }
        for k in 0..r.w.conns.len() {
            let (o1, o0) = (outcome(&r.w, &r0.w, k), outcome(&r0.w, &r.w, k));
            if o1 != o0 {
                return CaseOut::fail(
                    "c15/ignore/outcome-differs-from-twin",
                    format!("conn {k} ({:?}): final application outcome differs from the run in which the foreign-address datagrams never arrived:\n with:    {o1}\n without: {o0}\n{}", r.w.conns[k].side, describe(m, &r)),
                );
            }
        }
        twin_compared = true;
        labels.push("twin-compared");
        if r.completed_at.is_none() {
            // both runs agree; liveness as such is C02's business
            labels.push("incomplete-in-both");
        }
    } else if r.completed_at.is_none() {
        if r.client_heard.is_none() && facts.forgotten.is_empty() && phantom_in_flight(&r).is_none() {
            // e.g. the client left the handshake deep in PTO backoff with its window full: its next probe is minutes away
            return CaseOut::discard("after its last address change the client sent nothing from there for four times the completion bound: the proviso 'the client keeps sending from there' does not hold");
        }
        if !facts.forgotten.is_empty() {
            return CaseOut::fail(
                "c15/stall/packets-sent-on-abandoned-path-forgotten",
                format!(
                    "the transfers did not complete: the server sent packets {:?} (packet number, time) carrying frames that need retransmission on a path it has since given up; they were never acknowledged, yet the server counts nothing in flight and has no loss-detection timer armed, so nothing will ever retransmit them\n{}",
                    facts.forgotten,
                    describe(m, &r)
                ),
            );
        }
        if let Some(why) = phantom_in_flight(&r) {
            return CaseOut::fail(PHANTOM_SIG, format!("the transfers did not complete: {why}\n{}", describe(m, &r)));
        }
        return CaseOut::fail(
            "c15/not-completed",
            format!("the transfers did not complete within the bound ({} us) after the last address change / attacker action / loss\n{}", r.deadline, describe(m, &r)),
        );
    }
    if migration {
        if let Err((sig, msg)) = check_follow(m, &r) {
            return CaseOut::fail(sig, msg);
        }
        if r.settle.is_some() {
            labels.push("followed-to-final-address");
        }
    }
    let _ = twin_compared;
    if let Some((sig, msg)) = facts.soft {
        return CaseOut::fail(sig, msg);
    }
    let sum = serde_json::json!({
        "migration_enabled": migration,
        "plan": r.plan.iter().map(|p| format!("{}@{}", p.1, p.0)).collect::<Vec<_>>(),
        "server_path_changes": facts.migrations,
        "validations": facts.validations,
        "reverts_after_failed_validation": facts.reverts,
        "server_moved_to_attacker_address": facts.hijack_attempts,
        "attacker_copies": r.log.copies.len(),
        "foreign_source_datagrams_to_client": facts.foreign_to_client,
        "datagrams_to_server_from_other_than_established_address": facts.foreign_to_server,
        "max_sent_over_received_x100_on_unvalidated_address": facts.max_unvalidated_ratio_x100,
        "virtual_ms": r.w.now / 1000,
        "completed_at_ms": r.completed_at.map(|t| t / 1000),
    });
    CaseOut { verdict: Verdict::Pass, labels, nontrivial: facts.nontrivial, summary: Some(sum) }
}

pub fn run(report: &Report) -> i32 {
    report.assume("the link (harness) decides where the client is reachable: datagrams sent to an address the client has left are lost; the attacker only re-sends copies of genuine datagrams (it cannot forge or answer challenges)");
    report.assume("an address counts as validated from the handshake, or once a PATH_RESPONSE echoing a PATH_CHALLENGE that was sent to that address has been delivered from that address; probe timeouts are read from the verification probe (H2) at the instants around the path change");
    report.assume("connection IDs are non-empty on both sides (zero-length CIDs route by address, so there is nothing to follow or to ignore); idle timeout disabled; pad_to_mtu off and zero-length-CID+Retry excluded (known findings of C02)");
    report.assume("frame-level oracles (challenge/response matching, highest-packet-number cause, acknowledgement sets) need SimCrypto; under rustls the destination, ledger, completion and twin clauses still apply");
    let rule = "non-trivial = an address change or an attacker copy took effect while STREAM data or a PATH_CHALLENGE was in flight";
    run_prop(
        report,
        "c15-migrate",
        &format!("proptest-generated established connections with transfers in both directions, server permits migration; client address plan (port-only, full address, v6<->v4, back, overlapping), attacker copies of genuine datagrams from other addresses (race / stale / captured original) towards server and client, targeted loss of PATH_CHALLENGE/PATH_RESPONSE, fault streams, CID rotation; oracles: path changes only for cause (highest-numbered non-probing packet or validation timeout), validated only after a matching PATH_RESPONSE from that address, 3x limit on unvalidated addresses, unvalidated path abandoned within 3 PTO, datagram destinations follow the path, never closed, transfers complete, finally follows the client to its address; {rule}"),
        || arb_mig(true),
        report.cases(24_000, 400_000),
        case,
    );
    run_prop(
        report,
        "c15-ignore",
        &format!("same generator with a server that forbids migration (address excursions end at the established address) plus wrong-source datagrams towards the client; oracles: nothing is ever sent to a foreign address, the path never changes, acknowledgements only cover packets delivered from the established address, twin run with the foreign-address datagrams removed gives the same final application outcome; {rule}"),
        || arb_mig(false),
        report.cases(12_000, 200_000),
        case,
    );
    report.finish("generated-input search (proptest) on the deterministic network with path, ledger and twin-run oracles")
}
